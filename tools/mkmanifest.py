#!/venv/bin/python
"""regenerate /verif/MANIFEST.json from the spec modules that exist (spec/Cxx.py)"""
import importlib
import json
import os
import sys

HERE = os.path.dirname(os.path.dirname(os.path.abspath(__file__)))
sys.path.insert(0, HERE)
sys.dont_write_bytecode = True

props = [json.loads(l) for l in open(os.path.join(HERE, "properties.jsonl"))]
checks, na = [], []
NA_REASONS = {}
na_file = os.path.join(HERE, "spec", "not_applicable.json")
if os.path.exists(na_file):
    NA_REASONS = json.load(open(na_file))
for p in props:
    pid = p["id"]
    if os.path.exists(os.path.join(HERE, "spec", pid + ".py")) and pid not in NA_REASONS:
        m = importlib.import_module("spec." + pid)
        checks.append({
            "property_id": pid,
            "quick_cmd": f"./check {pid} --tier quick",
            "thorough_cmd": f"./check {pid} --tier thorough",
            "evidence_file": f"/verif/evidence/{pid}.json",
            "replay_cmd_template": f"./check {pid} --replay {{path}}",
            "engine": "sa",
            "level_claimed": {
                "category": "other",
                "text": getattr(m, "LEVEL_TEXT", "Static analysis of the current source: " + m.EXPLANATION),
                "design_ref": f"DESIGN.md section 5, {pid}",
            },
            "level_note": getattr(m, "LEVEL_NOTE", "Decides necessary structural conditions (clauses listed in DESIGN.md section 5) "
                                  "for every input flowing through the analysed code shape; numerical library semantics "
                                  "and floating-point rounding are trusted. " + " ".join(m.ASSUMPTIONS[-1:])),
            "technique": getattr(m, "TECHNIQUE", "static analysis: abstract interpretation of the syntax tree over a "
                                 "symbolic term domain, equality of extracted closed forms by random interpretation, "
                                 "structural rules on the resolved program"),
        })
    else:
        na.append({"property_id": pid, "reason": NA_REASONS.get(pid, "check not built yet in this session (static rules planned in DESIGN.md section 5)")})
manifest = {
    "version": 1,
    "setup_cmd": "true",
    "hooks": {"guard": "TURONOVA_CRYOCAT_VERIF", "enable": "none needed: the checks parse /repo's source and never execute it",
              "baseline_off_cmd": "cd /repo && /venv/bin/python -m pytest -q -p no:cacheprovider --timeout=900 --continue-on-collection-errors",
              "source_commits": [], "add_only": True},
    "engines": [{"name": "sa", "path": "/verif/sa", "serves_properties": [c["property_id"] for c in checks],
                 "kind_free_text": "repository-specific static analyser: resolved source model (ast), abstract interpreter "
                                   "over value terms, random interpretation for term equality, structural rule engines"}],
    "checks": checks,
    "not_applicable": na,
    "notes": "All checks are static: they parse /repo/cryocat/*.py on every run (no repository code is imported or executed). "
             "Exit 0 holds / 1 VIOLATION / 2 ANALYSIS-ERROR (anchor vanished or unmodelled idiom). known_findings.json lists "
             "recorded genuine defects.",
}
with open(os.path.join(HERE, "MANIFEST.json"), "w") as fh:
    json.dump(manifest, fh, indent=1)
print(f"{len(checks)} checks, {len(na)} not applicable")
