#!/bin/bash
# run every check on the clean tree and every stored seed in a scratch copy of the package outside /repo and /verif (16 parallel); summary on stdout
cd /verif
mkdir -p /tmp/evid_scratch
run_clean() { p=$1; VERIF_EVIDENCE_DIR=/tmp/evid_scratch/clean ./check $p > /tmp/evid_scratch/clean_$p.log 2>&1; echo "clean $p rc=$?"; }
run_seed() { id=$1; v=$2; props=$3; wt=/tmp/wt/$id-$v; dir=/verif/seeded/$id-$v
  rm -rf $wt; mkdir -p $wt && cp -r /repo/cryocat $wt/ || { echo "seed $id-$v COPY-FAILED"; return; }
  ( cd $wt && git apply $dir/patch.diff ) || { echo "seed $id-$v APPLY-FAILED"; rm -rf $wt; return; }
  best=0; for p in $props; do VERIF_EVIDENCE_DIR=/tmp/evid_scratch/$id$v /verif/check $p --repo $wt > /tmp/evid_scratch/seed_$id$v$p.log 2>&1; rc=$?; [ $rc -eq 1 ] && best=1; [ $rc -eq 2 ] && [ $best -eq 0 ] && best=2; done
  echo "seed $id-$v rc=$best"; rm -rf $wt; }
export -f run_clean run_seed
( for i in 01 02 03 04 05 06 07 08 09 10 11 12 13 14 15 16 17 18 19 20; do echo "run_clean C$i"; done
  for i in 01 02 03 04 05 06 07 08 09 10 11 12 13 14 15 16 17 18 19 20; do for v in a b c d e f g h i j k l m n o p q r s t u v w x y z za zb zc zd ze zf zg zh zi zj zk zl zm zn; do
    d=/verif/seeded/C$i-$v; [ -f $d/patch.diff ] || continue
    props="C$i"; [ -f $d/meta.json ] && extra=$(/venv/bin/python -c "import json,sys; print(' '.join(json.load(open('$d/meta.json')).get('also_checked_by',[])))" 2>/dev/null) && props="$props $extra"
    echo "run_seed C$i $v \"$props\""; done; done ) | xargs -P 16 -I{} bash -c "{}" | sort > /tmp/evid_scratch/regress.txt
grep -c "clean.*rc=0" /tmp/evid_scratch/regress.txt | sed 's/^/clean ok: /'
grep "clean" /tmp/evid_scratch/regress.txt | grep -v "rc=0"
grep -c "seed.*rc=1" /tmp/evid_scratch/regress.txt | sed 's/^/seeds detected (VIOLATION): /'
grep "seed" /tmp/evid_scratch/regress.txt | grep -v "rc=1"
