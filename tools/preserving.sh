#!/bin/bash
# run every check on every stored behaviour-preserving refactoring (preserving/<id>-<v>/patch.diff) in a scratch copy of the package (16 parallel).
# expected: no rc=1 (a VIOLATION on a refactoring that keeps the behaviour is a false alarm); rc=2 = idiom not recognised (no verdict)
cd /verif; mkdir -p /tmp/evid_scratch
run_p() { d=$1; n=$(basename $d); id=${n%-*}; wt=/tmp/wtp/$n; rm -rf $wt
  mkdir -p $wt && cp -r /repo/cryocat $wt/ || { echo "$n COPY-FAILED"; return; }
  ( cd $wt && git apply $d/patch.diff ) 2>/dev/null || { echo "$n APPLY-FAILED (tree changed)"; rm -rf $wt; return; }
  VERIF_EVIDENCE_DIR=/tmp/evid_scratch/p_$n /verif/check $id --repo $wt > /tmp/evid_scratch/p_$n.log 2>&1; rc=$?
  echo "$n rc=$rc"; rm -rf $wt; }
export -f run_p
ls -d /verif/preserving/C* | xargs -P 16 -I{} bash -c "run_p {}" | sort > /tmp/evid_scratch/preserving.txt
grep -c "rc=0" /tmp/evid_scratch/preserving.txt | sed 's/^/silent: /'
grep -c "rc=2" /tmp/evid_scratch/preserving.txt | sed 's/^/no verdict (exit 2): /'
grep -v "rc=0\|rc=2" /tmp/evid_scratch/preserving.txt | sed 's/^/PROBLEM: /'
