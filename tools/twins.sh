#!/bin/bash
# run the thorough tier for all properties in parallel and list twin / seed self-test problems
cd /verif; mkdir -p /tmp/evid_scratch/th
(for i in 01 02 03 04 05 06 07 08 09 10 11 12 13 14 15 16 17 18 19 20; do echo C$i; done | xargs -P 10 -I{} sh -c 'VERIF_EVIDENCE_DIR=/tmp/evid_scratch/th ./check {} --tier thorough > /tmp/evid_scratch/th_{}.log 2>&1; echo "{} rc=$?"') | sort | tr '\n' ' '; echo
/venv/bin/python - <<'PY'
import json,glob
for f in sorted(glob.glob('/tmp/evid_scratch/th/C*.json')):
    d=json.load(open(f))
    for s in d['coverage']['samples']:
        if s['obligation'] in ('S.spec','S.sens'):
            for c in s['cases']:
                if not isinstance(c,dict): continue
                if s['obligation']=='S.spec' and (c.get('findings') or c.get('unrecognised')) and 'twin' in c and 'first' in c:
                    print(d['property_id'], c['twin'], 'findings' if c.get('findings') else 'UNRECOGNISED', '|', ' || '.join(c['first'])[:330])
PY
