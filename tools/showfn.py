#!/venv/bin/python
"""print functions without docstrings: tools/showfn.py module Class.func [func...]"""
import ast, sys, warnings
warnings.simplefilter("ignore")
mod = sys.argv[1]
src = open(f"/repo/cryocat/{mod}.py").read()
t = ast.parse(src); lines = src.splitlines()
defs = {}
def rec(body, pre):
    for n in body:
        if isinstance(n, (ast.FunctionDef, ast.ClassDef)):
            defs[pre + n.name] = n
            rec(n.body, pre + n.name + ".")
rec(t.body, "")
for name in sys.argv[2:]:
    fn = defs.get(name)
    if fn is None:
        c = [k for k in defs if k.endswith("." + name) or k == name]
        fn = defs[c[0]] if c else None
        name = c[0] if c else name
    if fn is None:
        print("## NOT FOUND", name); continue
    body = fn.body
    print(f"#### {name} @{fn.lineno}")
    if body and isinstance(body[0], ast.Expr) and isinstance(getattr(body[0], "value", None), ast.Constant) and isinstance(body[0].value.value, str):
        ds = body[0]
        out = lines[fn.lineno - 1:ds.lineno - 1] + lines[ds.end_lineno:fn.end_lineno]
    else:
        out = lines[fn.lineno - 1:fn.end_lineno]
    print("\n".join(l for l in out if l.strip()))
