#!/bin/bash
# usage: tools/seedrun.sh C05 a [props...]  -- apply a seeded patch in the scratch worktree, run the check(s) there, undo
id=$1; v=$2; shift 2
props=${@:-$id}
wt=/tmp/wt/$id
dir=/verif/seeded/$id-$v; [ -d $dir ] || dir=/tmp/seeds/$id/$v
[ -d $wt ] || git -C /repo worktree add -q --detach $wt HEAD
cd $wt && git checkout -q -- . && git apply $dir/patch.diff || { echo "APPLY-FAILED $id $v"; exit 3; }
for p in $props; do
  VERIF_EVIDENCE_DIR=/tmp/evid_scratch /verif/check $p --repo $wt > /tmp/evid_scratch_$id$v$p.log 2>&1; rc=$?
  echo "$id-$v check=$p rc=$rc $(grep -c '^VIOLATION' /tmp/evid_scratch_$id$v$p.log) violation(s) $(grep -c ANALYSIS-ERROR /tmp/evid_scratch_$id$v$p.log) analysis-error(s)"
  grep -E "^(BAD|ANALYSIS-ERROR)|^  cryocat" /tmp/evid_scratch_$id$v$p.log | head -${SEEDRUN_LINES:-6}
done
cd $wt && git checkout -q -- .
git -C /repo worktree remove --force $wt
