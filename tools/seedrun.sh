#!/bin/bash
# usage: tools/seedrun.sh C05 a [props...]  -- apply a seeded patch to a scratch copy of the package, run the check(s) there, undo
id=$1; v=$2; shift 2
props=${@:-$id}
wt=/tmp/wt/$id-$v-$$
dir=/verif/seeded/$id-$v; [ -d $dir ] || dir=/tmp/seeds/$id/$v
rm -rf $wt; mkdir -p $wt && cp -r /repo/cryocat $wt/
cd $wt && git apply $dir/patch.diff || { echo "APPLY-FAILED $id $v"; exit 3; }
for p in $props; do
  VERIF_EVIDENCE_DIR=/tmp/evid_scratch /verif/check $p --repo $wt > /tmp/evid_scratch_$id$v$p.log 2>&1; rc=$?
  echo "$id-$v check=$p rc=$rc $(grep -c '^VIOLATION' /tmp/evid_scratch_$id$v$p.log) violation(s) $(grep -c ANALYSIS-ERROR /tmp/evid_scratch_$id$v$p.log) analysis-error(s)"
  grep -E "^(BAD|ANALYSIS-ERROR)|^  cryocat" /tmp/evid_scratch_$id$v$p.log | head -${SEEDRUN_LINES:-6}
done
rm -rf $wt
