"""C13 -- masks: analytic shapes and voxel-wise set algebra"""
from .common import *
from . import C11 as _c11
from . import C12 as _c12
from .maskmodel import *

TITLE = "Masks: analytic shapes and voxel-wise set algebra"
EXPLANATION = (
    "spherical_mask, cylindrical_mask and the spherical shell are interpreted abstractly in the index-function domain "
    "(np.mgrid components are index symbols, masked and slab stores become conditionals): the extracted value of voxel "
    "(i,j,k) is compared by random interpretation on the integer lattice -- sizes 6..48, any centre, radii chosen so that "
    "many sample voxels lie exactly on the surface, which makes the strictness of <= observable -- with the analytic "
    "inequality. For blurred-outwards masks the solid handed to the Gaussian must be the analytic shape grown by "
    "ceil(5*sigma) in radius and half-height. generate_mask's keyword->parameter wiring is compared with the pattern "
    "groups. union / intersection / subtraction / difference are evaluated on all 0/1 combinations of 1..3 symbolic masks "
    "(exhaustive truth tables) and for soft inputs must stay in [0,1]; every in-place fold must act on a fresh array "
    "(cryomap.read returns a copy on every path), so inputs are never modified.")
ASSUMPTIONS = TRUSTED + ["soft-edge tolerances are scikit-image's; rotated ellipsoids (angles) are not decided"]

CM = "cryomask."
SIZE = Arr([sym("n0"), sym("n1"), sym("n2")], 1)
CEN = Arr([sym("c0"), sym("c1"), sym("c2")], 1)


def dist(axes, cs, k=3):
    t = None
    for A, c in list(zip(axes, cs))[:k]:
        d = mk("sub", A.sym, c)
        t = mk("mul", d, d) if t is None else mk("add", t, mk("mul", d, d))
    return T("sqrt", t)


def centre_sampler(env, rng):
    for k in range(3):
        env[f"c{k}"] = float(rng.integers(0, int(env[f"n{k}"])))


def run_mask(ctx, fname, kwargs, assume=None):
    it = Interp(ctx.prog, summaries=MASK_SUMMARIES, assume=assume_map(assume or {}))
    it.index_samplers = imgdom.INT_SIZES
    r = it.run(CM + fname, [], kwargs)
    v = r.ret
    if not isinstance(v, Val) or getattr(v, "axes", None) is None or any(a is None for a in v.axes):
        raise Unsupported(f"{fname} does not yield a tracked index function (got {type(v).__name__})")
    return it, v


def decide(ctx, q, v, want, envs, what, m, fn):
    res = tm.equivalent(v.term if isinstance(v, Val) else v, want, n=len(envs), extra_envs=envs, tol=1e-9, seed_tag=q + what, need=len(envs) // 2)
    ctx.count(len(envs), {"shape": what, "lattice points": len(envs), "equal": bool(res), "extracted": tm.show(v.term if isinstance(v, Val) else v)[:160]})
    if not res:
        ctx.finding(q, what, f"{what}: the mask value of a voxel differs from the analytic inequality", fn, m, witness=res.witness)


def soft_input_ok(ctx, q, pre, m, fn, what):
    """the solid handed to the Gaussian is taken at face value (0 / 1): skimage.filters.gaussian converts *integer* images to floats by
    dividing by the range of the integer type (img_as_float), so a 0/1 solid stored as int8 comes back with a core of 1/127"""
    at = getattr(pre, "astype", None)
    name = at.name.split(".")[-1] if isinstance(at, Ref) else (str(pyval(at)) if at is not None and is_pyconst(at) else None)
    ctx.count(1, {"shape": what, "element type of the solid given to the Gaussian": name or "as computed (bool / float)"})
    if name is not None and (name.startswith(("int", "uint")) or name in ("short", "intc", "byte", "ubyte")):
        ctx.finding(q, what, f"{what}: the solid is converted to {name} before the soft edge is added; skimage's Gaussian rescales integer images by "
                    "the range of their type (a 0/1 solid of type int8 is read as 0 / 0.0079), so the core of the soft mask is no longer 1", fn, m)


def o131(ctx):
    rng = np.random.default_rng(tm.SEED + 13)
    # ---- sphere
    q = CM + "spherical_mask"
    m, fn = ctx.prog.func(q)
    ctx.touched(q, CM + "preprocess_params")
    it, v = run_mask(ctx, "spherical_mask", {"mask_size": SIZE, "radius": P("r"), "center": CEN, "gaussian": K(0)})
    ax = v.axes
    d = dist(ax, CEN.cols)
    want = mk("ite", mk("le", d, sym("r")), const(1.0), const(0.0))

    def base(rng_):
        return {}

    def extra_c(env, rng_):
        pass

    envs = lattice_envs(ax, rng, 90, extra={"r": lambda g, e: float(g.integers(1, 40))})
    for i, env in enumerate(envs):
        centre_sampler(env, rng)
        for A in ax:
            env[A.sym.args[0]] = float(rng.integers(0, int(env[tm.symbols(A.n)[0]])))
        if i % 3 == 0:
            env["r"] = float(tm.evaluate(d, env))  # exactly on the surface
        if i % 9 == 1:
            for A, c in zip(ax, CEN.cols):
                env[A.sym.args[0]] = env[c.args[0]]  # the centre voxel
        if i % 9 in (2, 5):
            # half-integer radius (the shell mask asks for radius +- thickness/2): a voxel on an axis at distance k+1 is outside r = k + 0.5
            k_ = float(rng.integers(1, 5))
            for A, c in zip(ax, CEN.cols):
                env[A.sym.args[0]] = env[c.args[0]]
            a0 = ax[i % 3]
            env[a0.sym.args[0]] = env[CEN.cols[i % 3].args[0]] + (k_ + 1 if i % 9 == 2 else k_)
            env["r"] = k_ + 0.5
    # an axis voxel a relative eps outside / inside the surface (real radii): <= r with no tolerance
    for j, eps in enumerate((1e-2, 1e-4, 1e-6, 1e-8, 1e-10, 1e-12)):
        for sign in (1.0, -1.0):
            env = dict(envs[(5 * j) % len(envs)])
            k = j % 3
            for A, c in zip(ax, CEN.cols):
                env[A.sym.args[0]] = env[c.args[0]]
            off = float(rng.integers(2, 9))
            env[ax[k].sym.args[0]] = env[CEN.cols[k].args[0]] + off
            env["r"] = off * (1.0 - sign * eps)
            envs.append(env)
    # a sphere larger than the box, centred at a corner / on a face: the far corner is still outside (radius between half and the full diagonal)
    for j, frac in enumerate((0.5, 0.55, 0.7, 0.9, 1.0, 1.2)):
        env = dict(envs[(11 * j + 2) % len(envs)])
        ns_ = [float(env[tm.symbols(A.n)[0]]) for A in ax]
        for k_, (A, c) in enumerate(zip(ax, CEN.cols)):
            env[c.args[0]] = 0.0 if (j + k_) % 3 else float(int(ns_[k_]) // 2)
            env[A.sym.args[0]] = ns_[k_] - 1.0
        env["r"] = float(np.ceil(frac * float(np.sqrt(sum(n_ * n_ for n_ in ns_)))))
        envs.append(env)
    decide(ctx, q, v, want, envs, "sphere: distance <= r", m, fn)
    # ---- cylinder
    q = CM + "cylindrical_mask"
    m, fn = ctx.prog.func(q)
    ctx.touched(q)
    it, v = run_mask(ctx, "cylindrical_mask", {"mask_size": SIZE, "radius": P("r"), "height": P("h"), "center": CEN, "gaussian": K(0)})
    ax = v.axes
    d2 = dist(ax, CEN.cols, 2)
    half = mk("floordiv", sym("h"), const(2))
    want = mk("ite", mk("and", mk("le", d2, sym("r")), mk("le", T("abs", mk("sub", ax[2].sym, sym("c2"))), half)), const(1.0), const(0.0))
    envs = lattice_envs(ax, rng, 90, extra={"r": lambda g, e: float(g.integers(1, 30)), "h": lambda g, e: float(g.integers(1, 40))})
    for i, env in enumerate(envs):
        centre_sampler(env, rng)
        for A in ax:
            env[A.sym.args[0]] = float(rng.integers(0, int(env[tm.symbols(A.n)[0]])))
        if i % 3 == 0:
            env["r"] = float(tm.evaluate(d2, env))
        if i % 4 == 1:  # on the top / bottom face
            hh = int(env["h"]) // 2
            env[ax[2].sym.args[0]] = env["c2"] + float(rng.choice([-hh, hh, hh + 1, -hh - 1]))
    # every height 1..16 (odd and even, both residues mod 4), on the axis: the last slab inside and the first one outside, on both sides
    for h_ in range(1, 17):
        for dz in (h_ // 2, h_ // 2 + 1, -(h_ // 2), -(h_ // 2) - 1):
            env = dict(envs[h_ % len(envs)])
            for A in ax:
                for nm in tm.symbols(A.n):
                    env[nm] = 40.0
            env["c0"], env["c1"], env["c2"] = 20.0, 19.0, 20.0
            env["h"], env["r"] = float(h_), 5.0
            env[ax[0].sym.args[0]], env[ax[1].sym.args[0]], env[ax[2].sym.args[0]] = 20.0, 19.0, 20.0 + dz
            envs.append(env)
    decide(ctx, q, v, want, envs, "cylinder: planar distance <= r and |k - cz| <= floor(h/2)", m, fn)
    # blurred outwards: the solid given to the Gaussian is grown by ceil(5 sigma) in radius and half-height
    it, v = run_mask(ctx, "cylindrical_mask", {"mask_size": SIZE, "radius": P("r"), "height": P("h"), "center": CEN,
                                               "gaussian": P("sigma"), "gaussian_outwards": K(True)},
                     assume={"gaussian != 0.0 and gaussian_outwards": True})
    pre = getattr(v, "blur_of", None)
    if pre is None:
        raise Unsupported("blurred cylinder: solid before the Gaussian not found", fn)
    soft_input_ok(ctx, q, pre, m, fn, "cylinder with a soft edge")
    grow = lambda t: T("ceil", mk("add", t, mk("mul", sym("sigma"), const(5.0))))
    want = mk("ite", mk("and", mk("le", d2, grow(sym("r"))), mk("le", T("abs", mk("sub", ax[2].sym, sym("c2"))), grow(half))), const(1.0), const(0.0))
    want = tm.subst(want, {a.sym: b.sym for a, b in zip(ax, pre.axes)})
    envs2 = []
    for i, env in enumerate(envs):
        e2 = dict(env)
        e2["sigma"] = float(rng.choice([0.5, 1.0, 1.3, 2.0, 3.0]))
        for a, b in zip(ax, pre.axes):
            e2[b.sym.args[0]] = e2[a.sym.args[0]]
        if i % 4 == 1:
            hh = int(np.ceil(int(e2["h"]) // 2 + 5 * e2["sigma"]))
            e2[pre.axes[2].sym.args[0]] = e2["c2"] + float(rng.choice([-hh, hh, hh + 1, -hh - 1]))
        envs2.append(e2)
    decide(ctx, q, pre, want, envs2, "cylinder blurred outwards: solid grown by ceil(5*sigma) in radius and half-height", m, fn)
    # sphere blurred outwards
    q = CM + "spherical_mask"
    m, fn = ctx.prog.func(q)
    it, v = run_mask(ctx, "spherical_mask", {"mask_size": SIZE, "radius": P("r"), "center": CEN, "gaussian": P("sigma"),
                                             "gaussian_outwards": K(True)}, assume={"gaussian != 0.0 and gaussian_outwards": True})
    pre = getattr(v, "blur_of", None)
    if pre is None:
        raise Unsupported("blurred sphere: solid before the Gaussian not found", fn)
    soft_input_ok(ctx, q, pre, m, fn, "sphere with a soft edge")
    d = dist(pre.axes, CEN.cols)
    want = mk("ite", mk("le", d, grow(sym("r"))), const(1.0), const(0.0))
    envs3 = lattice_envs(pre.axes, rng, 45, extra={"r": lambda g, e: float(g.integers(1, 30)), "sigma": lambda g, e: float(g.choice([0.5, 1.0, 2.0, 3.0]))})
    for env in envs3:
        centre_sampler(env, rng)
    decide(ctx, q, pre, want, envs3, "sphere blurred outwards: solid grown by ceil(5*sigma)", m, fn)
    # blurred inwards (gaussian_outwards=False): radius unchanged
    it, v = run_mask(ctx, "spherical_mask", {"mask_size": SIZE, "radius": P("r"), "center": CEN, "gaussian": P("sigma"),
                                             "gaussian_outwards": K(False)}, assume={"gaussian != 0.0 and gaussian_outwards": False})
    pre = getattr(v, "blur_of", None)
    d = dist(pre.axes, CEN.cols)
    want = mk("ite", mk("le", d, sym("r")), const(1.0), const(0.0))
    envs4 = lattice_envs(pre.axes, rng, 30, extra={"r": lambda g, e: float(g.integers(1, 30)), "sigma": lambda g, e: 2.0})
    for env in envs4:
        centre_sampler(env, rng)
    decide(ctx, q, pre, want, envs4, "sphere blurred at the edge (not outwards): radius unchanged", m, fn)


def o132(ctx):
    q = CM + "spherical_shell_mask"
    m, fn = ctx.prog.func(q)
    ctx.touched(q)
    rng = np.random.default_rng(tm.SEED + 14)
    it, v = run_mask(ctx, "spherical_shell_mask", {"mask_size": SIZE, "shell_thickness": P("t"), "radius": P("r"), "center": CEN,
                                                   "gaussian": K(0)})
    ax = v.axes
    d = dist(ax, CEN.cols)
    ro, ri = mk("add", sym("r"), mk("div", sym("t"), const(2.0))), mk("sub", sym("r"), mk("div", sym("t"), const(2.0)))
    want = mk("sub", mk("ite", mk("le", d, ro), const(1.0), const(0.0)), mk("ite", mk("le", d, ri), const(1.0), const(0.0)))
    envs = lattice_envs(ax, rng, 90, extra={"r": lambda g, e: float(g.integers(4, 30)), "t": lambda g, e: float(g.integers(1, 4) * 2)})
    # radii from 1 and shells thicker than the sphere (inner radius zero or negative: the inner solid is then empty)
    thick = lattice_envs(ax, rng, 60, extra={"r": lambda g, e: float(g.integers(1, 6)), "t": lambda g, e: float(g.integers(1, 18))})
    for i, env in enumerate(envs + thick):
        centre_sampler(env, rng)
    for env in thick:  # voxels around the centre, where a cavity would be
        for k_, A in enumerate(ax):
            n_ = int(env[tm.symbols(A.n)[0]])
            env[A.sym.args[0]] = float(min(max(int(env[f"c{k_}"]) + int(rng.integers(-3, 4)), 0), n_ - 1))
    envs += thick
    # inner radius exactly zero (t = 2r): the inner solid is the centre voxel, which is not part of the shell; and just around it
    for r_ in (1.0, 2.0, 3.0, 4.0, 5.0):
        for dt_ in (0.0, 1.0, -1.0):
            for at_centre in (True, False):
                env = dict(thick[int(r_) % len(thick)])
                env["r"], env["t"] = r_, 2.0 * r_ + dt_
                if env["t"] <= 0:
                    continue
                for k_, A in enumerate(ax):
                    n_ = int(env[tm.symbols(A.n)[0]])
                    env[A.sym.args[0]] = env[f"c{k_}"] if at_centre or k_ else float(min(int(env[f"c{k_}"]) + 1, n_ - 1))
                envs.append(env)
    # an outer solid larger than half the box diagonal, centred at a corner: the far corner is outside both solids
    for j in range(6):
        env = dict(envs[(13 * j + 3) % len(envs)])
        ns_ = [float(env[tm.symbols(A.n)[0]]) for A in ax]
        for k_, A in enumerate(ax):
            env[f"c{k_}"] = 0.0 if (j + k_) % 3 else float(int(ns_[k_]) // 2)
            env[A.sym.args[0]] = ns_[k_] - 1.0
        half_diag = 0.5 * float(np.sqrt(sum(n_ * n_ for n_ in ns_)))
        env["t"] = 2.0
        env["r"] = float(np.ceil(half_diag)) - 1.0 + float(j // 3)
        envs.append(env)
    decide(ctx, q, v, want, envs, "spherical shell = solid(r + t/2) - solid(r - t/2)", m, fn)
    # ellipsoid shell: outer AND NOT inner with radii +- thickness/2 (structure of the combination only)
    q2 = CM + "ellipsoid_shell_mask"
    m2, fn2 = ctx.prog.func(q2)
    ctx.touched(q2)
    def ell(it_, a, k, n, f):
        me_, fe_ = ctx.prog.func(CM + "ellipsoid_mask")
        names = [x.arg for x in fe_.args.args]
        b = dict(zip(names, a))
        b.update(k)
        return Val(call("ellipsoid", *[to_term(b.get(x, K(None))) for x in ("mask_size", "radii", "center")]))

    it = Interp(ctx.prog, summaries=dict(MASK_SUMMARIES, **{"cryocat.cryomask.ellipsoid_mask": ell}))
    r = it.run(q2, [], {"mask_size": SIZE, "shell_thickness": P("t"), "radii": Arr([sym("r0"), sym("r1"), sym("r2")], 1), "center": CEN,
                        "gaussian": K(0)})
    t = to_term(r.ret)
    half = mk("div", sym("t"), const(2.0))
    mk_e = lambda sgn: call("ellipsoid", T("vec", *SIZE.cols), T("vec", *[mk(sgn, sym(f"r{k}"), half) for k in range(3)]), T("vec", *CEN.cols))
    want = mk("and", mk_e("add"), mk("not", mk_e("sub")))
    ctx.count(1, {"ellipsoid shell": tm.show(t)[:200]})
    if not tm.equivalent(t, want, samplers={"t": pos_sampler(1, 6)}, seed_tag="eshell"):
        ctx.finding(q2, "combination of the two solids", "the ellipsoid shell must be outer AND NOT inner with radii +- thickness/2 "
                    f"for the same size and centre; extracted {tm.show(t)[:200]}", fn2, m2)


def o133(ctx):
    """generate_mask: each shape keyword passes pattern group i to the parameter the pattern names"""
    q = CM + "generate_mask"
    m, fn = ctx.prog.func(q)
    mp, fp = ctx.prog.func(CM + "parse_shape_string")
    ctx.touched(q, CM + "parse_shape_string")
    patterns = None
    for n in ast.walk(fp):
        if isinstance(n, ast.Dict) and all(isinstance(k, ast.Constant) for k in n.keys) and len(n.keys) >= 3:
            try:
                patterns = ast.literal_eval(n)
            except Exception:  # noqa
                pass
    if not patterns:
        raise Unsupported("shape pattern table not found in parse_shape_string", fp)
    import re
    role = {"r": "radius", "h": "height", "s": "shell_thickness", "rx": "radii[0]", "ry": "radii[1]", "rz": "radii[2]"}
    target = {"sphere": "spherical_mask", "cylinder": "cylindrical_mask", "s_shell": "spherical_shell_mask",
              "ellipsoid": "ellipsoid_mask", "e_shell": "ellipsoid_shell_mask"}
    for shape, pat in patterns.items():
        groups = re.findall(r"_([a-z]+)\(\\d\+\)", pat)
        if shape not in target or len(groups) != re.compile(pat).groups:
            raise Unsupported(f"pattern of shape {shape!r} not recognised: {pat}", fp)
        example = shape + "".join(f"_{g}{7 + 3 * i}" for i, g in enumerate(groups))
        ctx.count(1, {"shape": shape, "pattern groups": groups, "example": example})
        if not re.match(pat, example):
            raise Unsupported(f"cannot build an example string for pattern {pat}", fp)
        seen = {}

        def catcher(name):
            def f(it_, a, k, n, fr_):
                seen[name] = k
                return Val(call("mask:" + name))
            return f

        summ = {f"cryocat.cryomask.{v}": catcher(v) for v in target.values()}
        it = Interp(ctx.prog, summaries=summ)
        it.run(q, [K(example)], {"mask_size": K(64)})
        if list(seen) != [target[shape]]:
            ctx.finding(q, f"dispatch of {shape!r}", f"shape keyword {shape!r} must build a {target[shape]} (calls {list(seen)})", fn, m)
            continue
        kw = seen[target[shape]]
        # an explicit box size reaches the shape function as given, also when it is small compared with the numbers in the name
        for given in (64, 16):
            seen.clear()
            Interp(ctx.prog, summaries=summ).run(q, [K(example)], {"mask_size": K(given)})
            ms_ = seen.get(target[shape], {}).get("mask_size")
            ctx.count(1)
            import math
            # (the spherical shell is built in a box enlarged by the shell thickness, rounded up to an even size -- as the generator documents)
            expect_ms = math.ceil((given + (7 + 3 * groups.index("s"))) / 2) * 2 if shape == "s_shell" and "s" in groups else given
            if ms_ is None or not (is_pyconst(ms_) and pyval(ms_) == expect_ms):
                ctx.finding(q, f"{shape}: mask_size", f"'{example}' with mask_size={given}: the requested box size must be handed to {target[shape]} "
                            f"as given (the call passes {tm.show(to_term(ms_))[:60] if ms_ is not None else None})", fn, m)
        for i, g in enumerate(groups):
            val = 7 + 3 * i
            dest = role[g]
            if dest.startswith("radii"):
                rv = kw.get("radii")
                try:
                    lst = pyval(rv) if rv is not None else None
                    got = lst[int(dest[6])] if lst is not None else None
                except NotConst:
                    got = None
            else:
                rv = kw.get(dest)
                got = pyval(rv) if rv is not None and is_pyconst(rv) else None
            ctx.count(1)
            if got != val:
                ctx.finding(q, f"{shape}: group {g!r}", f"'{example}': the number after '{g}' ({val}) must be passed as {dest}; "
                            f"the call passes {got}", fn, m)


def o134(ctx):
    """set algebra truth tables and freshness"""
    import itertools
    truth = {
        "union": lambda b: float(any(b)),
        "intersection": lambda b: float(all(b)),
        "subtraction": lambda b: float(b[0] and not any(b[1:])),
        "difference": lambda b: float(any(b) and not all(b)),
    }
    summ = dict(MASK_SUMMARIES, **{"cryocat.cryomap.read": read_summary})
    for name, f in truth.items():
        q = CM + name
        m, fn = ctx.prog.func(q)
        ctx.touched(q)
        for k in (1, 2, 3):
            masks = [Val(sym(f"m{i}")) for i in range(k)]
            it = Interp(ctx.prog, summaries=summ)
            r = it.run(q, [Seq(masks, "list")], {})
            t = to_term(r.ret)
            opaque_ = [n_ for n_ in tm.walk(t) if n_.op == "call"]
            if opaque_:
                # a library / repository call the interpretation did not follow (an iterator chain, an un-modelled helper) stands in the result: its value
                # at the sample points would be an arbitrary number -- the truth table is not decided
                raise Unsupported(f"{name}: the result contains a call that is not interpreted ({str(opaque_[0].args[0])[:40]}): truth table not decided", fn)
            bad = None
            for bits in itertools.product((0.0, 1.0), repeat=k):
                env = {f"m{i}": b for i, b in enumerate(bits)}
                got = float(np.asarray(tm.evaluate(t, env)))
                ctx.count(1)
                if abs(got - f(bits)) > 1e-12:
                    bad = (bits, got, f(bits))
            rng = np.random.default_rng(tm.SEED + k)
            for _ in range(20):  # soft masks stay in [0,1]
                env = {f"m{i}": float(rng.uniform(0, 1)) for i in range(k)}
                got = float(np.asarray(tm.evaluate(t, env)))
                ctx.count(1)
                if not (-1e-12 <= got <= 1 + 1e-12):
                    bad = bad or (tuple(env.values()), got, "in [0,1]")
            if bad:
                ctx.finding(q, f"result for {k} mask(s)", f"{name} of {k} mask(s): inputs {bad[0]} give {bad[1]}, expected {bad[2]} "
                            f"(voxel-wise {'OR' if name == 'union' else 'AND' if name == 'intersection' else 'AND-NOT' if name == 'subtraction' else 'XOR'}"
                            ", clipped to [0,1])", fn, m, extracted=tm.show(t)[:200])
            for e in it.events:
                if e.kind == "inplace" and e.fn.startswith(CM):
                    ctx.count(1)
        # the same mask listed twice is two entries of the list (subtraction([A, A]) is empty, not A): nothing may drop a repeated entry
        m0 = typed(Val(sym("m0")), "ndarray")
        for lst, names in (([m0, m0], ("m0", "m0")), ([m0, typed(Val(sym("m1")), "ndarray"), m0], ("m0", "m1", "m0"))):
            it = Interp(ctx.prog, summaries=summ)
            r = it.run(q, [Seq(list(lst), "list")], {})
            t = to_term(r.ret)
            for bits in itertools.product((0.0, 1.0), repeat=len(set(names))):
                env = dict(zip(sorted(set(names)), bits))
                got = float(np.asarray(tm.evaluate(t, env)))
                want = f(tuple(env[n_] for n_ in names))
                ctx.count(1)
                if abs(got - want) > 1e-12:
                    ctx.finding(q, "a mask listed twice", f"{name}({list(names)}) with {env} gives {got}, expected {want}: an entry that occurs twice in the list "
                                "counts twice (for subtraction the second occurrence removes the mask from itself)", fn, m)
                    break
    # freshness: cryomap.read returns a copy on every path; in-place folds act on fresh arrays only
    mr, fr_ = ctx.prog.func("cryomap.read")
    ctx.touched("cryomap.read")
    for label, arg, assume in (("array input", typed(Unk(sym("input_array")), "ndarray"), {"isinstance(input_map, str)": False, "isinstance(input_map, np.ndarray)": True}),
                               ("file input", K("x.mrc"), {})):
        it = Interp(ctx.prog, assume=assume_map(assume))
        r = it.run("cryomap.read", [arg], {})
        ctx.count(1, {"cryomap.read": label, "returns a fresh array": getattr(r.ret, "fresh", None)})
        # (not demanded by itself: since /repo 0c3b2d4 no fold acts on what read returns -- subtraction converts its first mask, which copies it; the
        # per-fold rule below follows read's result into every in-place fold and reports the fold whose target may be the caller's array)
    for name in truth:
        q = CM + name
        m, fn = ctx.prog.func(q)
        it = Interp(ctx.prog, summaries=dict(MASK_SUMMARIES), no_inline=())
        masks = [typed(Unk(sym(f"in{i}")), "ndarray") for i in range(2)]
        it2 = Interp(ctx.prog, summaries=MASK_SUMMARIES, assume=assume_map({"isinstance(input_map, str)": False,
                                                                            "isinstance(input_map, np.ndarray)": True}))
        it2.run(q, [Seq(masks, "list")], {})
        for e in it2.events:
            if e.kind == "inplace" and e.fn == q:
                ctx.count(1, {"function": name, "in-place": norm_text(e.node), "target fresh": e.extra.get("fresh")})
                tgt0 = e.args[0] if e.args else None
                t0 = to_term(tgt0) if tgt0 is not None else None
                # the value of an arithmetic expression / a clip / a minimum ... is a new array whatever its operands were (numpy allocates the result)
                computed = t0 is not None and (t0.op in ("add", "sub", "mul", "div", "minimum", "maximum", "clip", "abs", "neg")
                                               or (t0.op == "call" and str(t0.args[0]) in ("numpy.clip", "clip", "numpy.where", "where")))
                if e.extra.get("fresh") is not True and not computed:
                    ctx.finding(q, e.node, f"{name} folds in place into an array that may alias an input mask (not a fresh copy)", e.node, m)
                # element type of the accumulator of a subtraction: binary masks come as bool / uint8 / int / float arrays; in an unsigned type 0 - 1
                # wraps to the maximum (and is clipped to 1), bool has no `-` at all, an integer type truncates soft masks: floating point only
                if isinstance(e.node, ast.AugAssign) and isinstance(e.node.op, ast.Sub):
                    tgt = e.args[0] if e.args else None
                    kind = getattr(tgt, "elem_kind", None)
                    if kind is None and getattr(tgt, "alloc", None) in ("zeros", "ones", "empty", "full") and getattr(tgt, "alloc_dtype", None) is None:
                        kind = "float"
                    ctx.count(1, {"function": name, "accumulator of `-=`": kind or "element type of the first mask"})
                    if kind is None:
                        ctx.finding(q, "element type of the accumulator", f"{name} subtracts in place in the element type of the first mask: for an unsigned binary mask "
                                    "0 - 1 wraps around to the type's maximum and is clipped to 1 (voxels that are only in the second mask appear in the result), "
                                    "a boolean mask has no `-`; union and intersection fold in floating point", e.node, m)
                    elif kind != "float":
                        ctx.finding(q, "element type of the accumulator", f"{name} subtracts in an accumulator converted to a {kind} type: soft masks are truncated", e.node, m)
        # the fold runs over EVERY mask of the list: no way out of the loop (break / return) under a condition on the voxel values -- the unclipped
        # running result of a subtraction is negative where a later mask lies outside the first, so "nothing left" cannot be read off a sum
        for lp_ in [n_ for n_ in ast.walk(fn) if isinstance(n_, (ast.For, ast.While))]:
            for x_ in ast.walk(lp_):
                if isinstance(x_, (ast.Break, ast.Return)):
                    ctx.count(1)
                    ctx.finding(q, "fold cut short", f"{name} leaves the loop over the masks early (`{norm_text(x_)[:40]}`): the masks that were not reached are not combined", x_, m)
                    break
        # a plain `a - b` in a combinator: both operands must be results of sibling combinators (floating point by the rule above)
        for b_ in ast.walk(fn):
            if isinstance(b_, ast.BinOp) and isinstance(b_.op, ast.Sub):
                ctx.count(1)
                sib = lambda x: isinstance(x, ast.Call) and (ctx.prog.resolve(m, x.func) or "").split(".")[-1] in truth or \
                    (isinstance(x, ast.Name) and any(isinstance(a_, ast.Assign) and any(isinstance(t_, ast.Name) and t_.id == x.id for t_ in a_.targets)
                                                       and isinstance(a_.value, ast.Call) and (ctx.prog.resolve(m, a_.value.func) or "").split(".")[-1] in truth
                                                       for a_ in ast.walk(fn)))
                if not (sib(b_.left) and sib(b_.right)) and not ctx.cur.findings:
                    raise Unsupported(f"{name}: a subtraction whose operands are not results of the sibling combinators (element type not decided)", b_)


from .maskmodel import o_get_correct_format as o136, o_preprocess_params as o138  # noqa: E402


def o135(ctx):
    """ellipsoid: sum_k ((i_k - c_k) / r_k)^2 <= 1 for even box sizes (the documented domain), anisotropic radii, non-cubic boxes"""
    rng = np.random.default_rng(tm.SEED + 135)
    q = CM + "ellipsoid_mask"
    m, fn = ctx.prog.func(q)
    ctx.touched(q)
    radii = Arr([sym("r0"), sym("r1"), sym("r2")], 1)
    it, v = run_mask(ctx, "ellipsoid_mask", {"mask_size": SIZE, "radii": radii, "center": CEN, "gaussian": K(0)})
    ax = v.axes
    t = None
    for A, c, r in zip(ax, CEN.cols, radii.cols):
        d = mk("div", mk("sub", A.sym, c), r)
        t = mk("mul", d, d) if t is None else mk("add", t, mk("mul", d, d))
    want = mk("ite", mk("le", t, const(1.0)), const(1.0), const(0.0))
    got = mk("ite", v.term, const(1.0), const(0.0)) if v.term.op in ("le", "lt") else v.term
    envs = []
    for i in range(120 * tm.N_MULT):
        env = {"__salt__": float(rng.uniform(0, 1))}
        for k, A in enumerate(ax):
            n = float(2 * rng.integers(3, 25))  # even sizes
            for nm in tm.symbols(A.n):
                env[nm] = n
            env[f"c{k}"] = float(rng.integers(0, int(n)))
            env[f"r{k}"] = float(rng.integers(1, 30))
            env[A.sym.args[0]] = float(rng.integers(0, int(n)))
        if i % 3 == 0:
            # a voxel on one axis exactly on the surface: |i_k - c_k| == r_k, the others at the centre (anisotropy made visible)
            k = i % 3 if i % 2 else (i // 3) % 3
            for j, A in enumerate(ax):
                env[A.sym.args[0]] = env[f"c{j}"]
            env[ax[k].sym.args[0]] = env[f"c{k}"] + env[f"r{k}"] * (1 if i % 2 else -1)
        if i % 3 == 1:
            k = (i // 3) % 3
            for j, A in enumerate(ax):
                env[A.sym.args[0]] = env[f"c{j}"]
            env[ax[k].sym.args[0]] = env[f"c{k}"] + env[f"r{k}"] + 1  # one voxel beyond the semi-axis k
        envs.append(env)
    # voxels a relative eps outside / inside the surface (the radii are real numbers: r_k = d / sqrt(1 +- eps) puts the axis voxel at
    # offset d at sum = 1 +- eps): the membership test is <= 1 with no tolerance, at every scale
    for j, eps in enumerate((1e-2, 1e-3, 1e-4, 1e-5, 1e-6, 1e-7, 1e-8, 1e-9, 1e-10, 1e-11)):
        for sign in (1.0, -1.0):
            env = dict(envs[(7 * j) % len(envs)])
            k = j % 3
            for i_, A in enumerate(ax):
                env[A.sym.args[0]] = env[f"c{i_}"]
            off = float(rng.integers(2, 9))
            n_k = env[tm.symbols(ax[k].n)[0]]
            env[f"c{k}"] = float(min(env[f"c{k}"], n_k - 1 - off)) if n_k - 1 - off >= 0 else 0.0
            env[ax[k].sym.args[0]] = env[f"c{k}"] + off
            env[f"r{k}"] = off / float(np.sqrt(1.0 + sign * eps))
            envs.append(env)
    # with a soft edge: what goes into the Gaussian
    it_s, v_s = run_mask(ctx, "ellipsoid_mask", {"mask_size": SIZE, "radii": radii, "center": CEN, "gaussian": P("sigma"), "gaussian_outwards": K(False)},
                         assume={"gaussian != 0.0 and gaussian_outwards": False})
    pre_s = getattr(v_s, "blur_of", None)
    if pre_s is None:
        raise Unsupported("ellipsoid with a soft edge: solid before the Gaussian not found", fn)
    soft_input_ok(ctx, q, pre_s, m, fn, "ellipsoid with a soft edge")
    res = tm.equivalent(got, want, n=len(envs), extra_envs=envs, tol=1e-9, seed_tag=q, need=len(envs) // 2)
    ctx.count(len(envs), {"shape": "ellipsoid", "lattice points": len(envs), "equal": bool(res), "extracted": tm.show(v.term)[:200]})
    if not res:
        ctx.finding(q, "ellipsoid: sum(((i_k - c_k)/r_k)^2) <= 1", "ellipsoid: the mask value of a voxel differs from the analytic inequality "
                    "(each semi-axis r_k must act along its own array axis k, around centre c_k)", fn, m, witness=res.witness)


def _obligations():
    return [
        Obligation("O13.9", "map files given by path are read as written and masks are written as computed (shared with C11)", lambda ctx: (_c11.o111(ctx), _c11.o115(ctx)), floor=37),
        Obligation("O13.6", "get_correct_format returns 3-vectors as given (per axis) and box//2 by default; Gaussian edge options", o136, floor=9),
        Obligation("O13.8", "preprocess_params: radius unchanged unless the blur goes outwards (then ceil(r + 5 sigma)), for every r / sigma", o138, floor=4),
        Obligation("O13.7", "soft edges: the Gaussian runs with the requested sigma, 4-sigma support and the default border handling (shared with C12)",
                   _c12.o125, floor=2),
        Obligation("O13.5", "ellipsoid voxels satisfy sum(((i_k - c_k)/r_k)^2) <= 1 (even sizes, anisotropic radii, per-axis pairing)", o135, floor=100),
        Obligation("O13.1", "sphere / cylinder voxels satisfy the analytic inequalities (<=, floor(h/2)); outward blur grows the solid", o131, floor=300),
        Obligation("O13.2", "shells are outer minus inner solid with radii r +- t/2", o132, floor=90),
        Obligation("O13.3", "generate_mask passes each pattern group to the parameter the pattern names", o133, floor=12),
        Obligation("O13.4", "union/intersection/subtraction/difference truth tables, [0,1] range, in-place folds only on fresh arrays", o134, floor=150),
    ]


def obligations():
    return _obligations() + [labels_obligation("C13"), selectors_obligation("C13"), mutations_obligation("C13"), loopstate_obligation("C13"), effects_obligation("C13"), plumbing_obligation("C13"), overrides_obligation("C13"), options_obligation("C13"), handlers_obligation("C13")]
