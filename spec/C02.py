"""C02 -- STAR files read back to the same blocks, columns, rows and values"""
from .common import *
from sa import apicompat

TITLE = "STAR files read back to the same blocks, columns, rows and values"
EXPLANATION = (
    "Decided statically: (1) every pandas/numpy call on the Starfile.read / Starfile.write paths exists in the installed "
    "library with the keywords and literal option values used (introspection of the installed library, not of the "
    "repository); (2) writer/reader lexical agreement: the writer's output templates (file.write arguments, parsed from "
    "the syntax tree, holes filled with sample labels/cells) are tokenised by a model tokenizer parametrised by the "
    "constants the repository's tokenizer tests (label prefix, loop keyword, comment character, line separator) and "
    "must yield PROPERTY / COMMENT / LOOP / LITERAL tokens in the roles the parser expects; (3) writer semantics: "
    "round(float_precision=6) before formatting, the cell formatter's extracted term evaluated on sample floats / ints "
    "/ text must read back to the same value, rows iterate without the index, labels are numbered from 1, the "
    "numbered/un-numbered header choice is the documented truth table; (4) reader: the per-column numeric conversion is "
    "evaluated over the finite column-kind domain {numeric, text, mixed} and must be all-or-nothing, is applied to "
    "every block, and the row table is built with the parsed labels as columns (so an empty block keeps its labels).")
ASSUMPTIONS = TRUSTED + ["the structure of the recursive-descent parser and of the character tokenizer (beyond the constants "
                         "it tests) is not decided: the second sentence of the statement (arbitrary permitted STAR texts) is "
                         "out of reach for this family"]

RD, WR = "starfileio.Starfile.read", "starfileio.Starfile.write"


def o21(ctx):
    roots = [RD, WR]
    quals = sorted(q for q in ctx.prog.reachable(roots) if q.startswith("starfileio."))
    total = 0
    for q in quals:
        issues, n = apicompat.check_function(ctx.prog, q)
        total += n
        ctx.touched(q)
        m, fn = ctx.prog.func(q)
        for i in issues:
            ctx.finding(q, i.node, f"[{i.rule}] {i.message}", i.node, m)
    ctx.count(total, {"functions": quals, "library call sites checked": total})


# ---------------------------------------------------------------------------------------------- lexical agreement
def _reorders(v_):
    """does the expression permute a sequence (sorted / reversed / argsort / step slices / indexing through a computed order)?"""
    return any(isinstance(x, ast.Call) and isinstance(x.func, ast.Name) and x.func.id in ("sorted", "reversed") for x in ast.walk(v_)) \
        or any(isinstance(x, ast.Call) and isinstance(x.func, ast.Attribute) and x.func.attr in ("argsort", "sort_values", "sort") for x in ast.walk(v_)) \
        or any(isinstance(x, ast.Slice) and x.step is not None for x in ast.walk(v_))


class CommentWeakened(Exception):
    def __init__(self, node):
        super().__init__("comment character conditionally ordinary")
        self.node = node


class LinesDropped(Exception):
    def __init__(self, node):
        super().__init__("lines dropped")
        self.node = node


def reader_constants(prog):
    m, fn = prog.func("starfileio.Token.tokenize")
    consts = {"property": set(), "loop": set(), "comment": set(), "linesep": set()}
    for n in ast.walk(fn):
        if isinstance(n, ast.Compare) and len(n.ops) == 1 and isinstance(n.comparators[0], ast.Constant) \
                and isinstance(n.comparators[0].value, str):
            v = n.comparators[0].value
            left = ast.unparse(n.left)
            if isinstance(n.ops[0], (ast.Eq, ast.NotEq)):
                if isinstance(n.left, ast.Subscript) and isinstance(n.left.slice, ast.Slice):
                    consts["loop"].add(v)
                elif isinstance(n.left, ast.Subscript):
                    consts["property"].add(v)
                elif isinstance(n.left, ast.Name):
                    consts["comment"].add(v)
        if isinstance(n, ast.Call) and isinstance(n.func, ast.Attribute) and n.func.attr == "split" and n.args \
                and isinstance(n.args[0], ast.Constant):
            consts["linesep"].add(n.args[0].value)
    for k, v in consts.items():
        if len(v) != 1:
            raise Unsupported(f"tokenizer constant for {k} not unique: {sorted(v)}", fn)
    # every line of the text reaches the tokenizer: the iterated sequence is the split itself, nothing sliced off it
    splits = [n for n in ast.walk(fn) if isinstance(n, ast.Call) and isinstance(n.func, ast.Attribute) and n.func.attr in ("split", "splitlines")]
    if len(splits) != 1:
        raise Unsupported("line split of the tokenizer not unique", fn)
    node = splits[0]
    par = m.parents.get(node)
    while isinstance(par, (ast.Subscript, ast.Call, ast.Starred)) and not isinstance(par, ast.stmt):
        if isinstance(par, ast.Subscript) and par.value is node and isinstance(par.slice, ast.Slice) and (par.slice.lower is not None or par.slice.upper is not None
                                                                                                       or par.slice.step is not None):
            raise LinesDropped(par)
        if isinstance(par, ast.Call) and not (isinstance(par.func, ast.Name) and par.func.id in ("enumerate", "list", "iter")):
            break
        node, par = par, m.parents.get(par)
    # the comment character ends a token wherever it stands (labels may carry a glued `#n`): its test is a plain conjunct of the
    # "character belongs to a token" condition, never weakened by an `or`
    for n in ast.walk(fn):
        if isinstance(n, ast.Compare) and len(n.ops) == 1 and isinstance(n.ops[0], (ast.NotEq, ast.Eq)) and isinstance(n.comparators[0], ast.Constant) \
                and n.comparators[0].value in consts["comment"] and isinstance(n.left, ast.Name):
            par = m.parents.get(n)
            while isinstance(par, (ast.BoolOp, ast.UnaryOp)):
                if isinstance(par, ast.BoolOp) and isinstance(par.op, ast.Or) and isinstance(n.ops[0], ast.NotEq):
                    raise CommentWeakened(par)
                par = m.parents.get(par)
    uses_isspace = any(isinstance(n, ast.Attribute) and n.attr == "isspace" for n in ast.walk(fn))
    if not uses_isspace:
        raise Unsupported("tokenizer does not classify separators with str.isspace", fn)
    return {k: next(iter(v)) for k, v in consts.items()}, m, fn


def model_tokenize(text, c):
    toks = []
    for line in text.split(c["linesep"]):
        first = None
        for i, ch in enumerate(line):
            if not ch.isspace() and ch != c["comment"]:
                if first is None:
                    first = i
                continue
            elif first is not None:
                toks.append(_classify(line[first:i], c))
                first = None
            if ch == c["comment"]:
                toks.append(("COMMENT", line[i + 1:].strip()))
                break
        else:
            if first is not None:
                toks.append(_classify(line[first:], c))
            toks.append(("NEWLINE", None))
            continue
        toks.append(("NEWLINE", None))
    return toks[:-1] if toks and toks[-1][0] == "NEWLINE" and not text.endswith(c["linesep"]) else toks[:-1]


def _classify(s, c):
    if s[0] == c["property"]:
        return ("PROPERTY", s)
    if s == c["loop"]:
        return ("LOOP", s)
    return ("LITERAL", s)


def template(node):
    """file.write argument -> list of ('lit', text) / ('hole', source, extra)"""
    if isinstance(node, ast.Constant) and isinstance(node.value, str):
        return [("lit", node.value)]
    if isinstance(node, ast.JoinedStr):
        out = []
        for v in node.values:
            if isinstance(v, ast.Constant):
                out.append(("lit", v.value))
            else:
                out.append(("hole", ast.unparse(v.value), None))
        return out
    if isinstance(node, ast.BinOp) and isinstance(node.op, ast.Add):
        return template(node.left) + template(node.right)
    if isinstance(node, ast.Call) and isinstance(node.func, ast.Attribute) and node.func.attr == "join" \
            and isinstance(node.func.value, ast.Constant):
        return [("hole", "<row cells>", node.func.value.value)]
    return [("hole", ast.unparse(node), "?")]


def o22(ctx):
    try:
        c, mt, ft = reader_constants(ctx.prog)
    except CommentWeakened as e:
        mt, ft = ctx.prog.func("starfileio.Token.tokenize")
        ctx.count(1)
        ctx.finding("starfileio.Token.tokenize", e.node, "the comment character is treated as an ordinary character under some condition: a label "
                    "written with its numbering comment glued on (`_rlnCoordinateX#1`) is then read as a column named with the comment", e.node, mt)
        return
    except LinesDropped as e:
        mt, ft = ctx.prog.func("starfileio.Token.tokenize")
        ctx.count(1)
        ctx.finding("starfileio.Token.tokenize", e.node, "the tokenizer does not see every line of the text: the split is sliced, so a last line "
                    "without a final line break (files written by other programs, texts held in memory) is silently dropped", e.node, mt)
        return
    ctx.touched("starfileio.Token.tokenize", WR)
    ctx.count(1, {"tokenizer constants": c})
    # labels are returned in the order they stand in the file (a trailing `#n` is a comment, not a position)
    mp_, fp_ = ctx.prog.func("starfileio.Token.parse_columns")
    ctx.touched("starfileio.Token.parse_columns")
    ret_names = {x.id for r_ in ast.walk(fp_) if isinstance(r_, ast.Return) and r_.value is not None for x in ast.walk(r_.value) if isinstance(x, ast.Name)}
    for st in ast.walk(fp_):
        if isinstance(st, ast.Assign) and any(isinstance(t, ast.Name) and t.id in ret_names for t in st.targets):
            ctx.count(1)
            if _reorders(st.value):
                ctx.finding("starfileio.Token.parse_columns", st, "the column labels are re-ordered after parsing: the k-th label of the header names the "
                            "k-th entry of every data row, whatever number its trailing comment carries", st, mp_)
    # reader and writer open the file with the same text encoding
    mrd, frd = ctx.prog.func("starfileio.Starfile.read")
    opens = {}
    mwr_, fwr_ = ctx.prog.func(WR)
    for nm_, f_ in (("read", frd), ("write", fwr_)):
        calls_ = [n for n in ast.walk(f_) if isinstance(n, ast.Call) and isinstance(n.func, ast.Name) and n.func.id == "open"]
        if len(calls_) != 1:
            raise Unsupported(f"file opening in Starfile.{nm_} not recognised", f_)
        enc = kwarg(calls_[0], "encoding")
        opens[nm_] = (ast.unparse(enc) if enc is not None else None, calls_[0])
    ctx.count(1, {"encodings": {k_: v_[0] for k_, v_ in opens.items()}})
    if opens["read"][0] != opens["write"][0]:
        ctx.finding("starfileio.Starfile.read", opens["read"][1], f"the file is read with encoding {opens['read'][0]} but written with "
                    f"{opens['write'][0]}: text values with non-ASCII characters (paths, units) are written correctly and read back garbled",
                    opens["read"][1], mrd)
    # a token carries the characters it was cut from: Token.__init__ stores its value argument as it is
    mi, fi = ctx.prog.func("starfileio.Token.__init__")
    ctx.touched("starfileio.Token.__init__")
    vparam = fi.args.args[2].arg if len(fi.args.args) > 2 else None
    sets = [n for n in ast.walk(fi) if isinstance(n, ast.Assign) and any(isinstance(t, ast.Attribute) and t.attr == "value" for t in n.targets)]
    rebinding = [n for n in ast.walk(fi) if isinstance(n, (ast.Assign, ast.AugAssign)) and any(
        isinstance(t, ast.Name) and t.id == vparam for t in (n.targets if isinstance(n, ast.Assign) else [n.target]))]
    ctx.count(1)
    if vparam is None or len(sets) != 1 or not (isinstance(sets[0].value, ast.Name) and sets[0].value.id == vparam) or rebinding:
        bad = (rebinding or sets or [fi])[0]
        ctx.finding("starfileio.Token.__init__", bad, "a token must keep the text it was cut from unchanged: text values (quoted names, "
                    "values with leading or trailing characters) are otherwise altered on read while the file is intact", bad, mi)
    m, fn = ctx.prog.func(WR)
    fvar = None
    for n in ast.walk(fn):
        if isinstance(n, ast.With):
            for it_ in n.items:
                if isinstance(it_.optional_vars, ast.Name):
                    fvar = it_.optional_vars.id
    if fvar is None:
        raise Unsupported("output file variable of Starfile.write not found", fn)
    writes = [n for n in ast.walk(fn) if isinstance(n, ast.Call) and isinstance(n.func, ast.Attribute)
              and n.func.attr == "write" and isinstance(n.func.value, ast.Name) and n.func.value.id == fvar]
    if len(writes) < 5:
        raise Unsupported(f"only {len(writes)} file.write call(s) found in Starfile.write", fn)
    # roles of holes: parameters of the nested label writers
    label_fns = {}
    for n in ast.walk(fn):
        if isinstance(n, ast.FunctionDef) and n is not fn and len(n.args.args) == 2:
            label_fns[n.name] = [a.arg for a in n.args.args]
    seen_roles = set()
    for w in writes:
        enc = w
        owner = None
        p = m.parents.get(w)
        while p is not None and p is not fn:
            if isinstance(p, ast.FunctionDef):
                owner = p
                break
            p = m.parents.get(p)
        tpl = template(w.args[0])
        fill, roles = "", []
        for part in tpl:
            if part[0] == "lit":
                fill += part[1]
                continue
            src, extra = part[1], part[2]
            if owner is not None and owner.name in label_fns and src in label_fns[owner.name]:
                role = "label" if label_fns[owner.name].index(src) == 0 else "number"
                val = "rlnCoordinateX" if role == "label" else "7"
            elif src == "<row cells>":
                role, val = "cells", extra.join(["1.5       ", "tomo_a    ", "3         "])
            elif extra == "?":
                raise Unsupported(f"file.write argument not recognised: {src}", w)
            else:
                # specifier / comment text: decided by what the surrounding literal makes of it
                role, val = "text", "data_particles"
            roles.append((role, val, len(fill)))
            fill += val
        toks = model_tokenize(fill, c)
        kinds = [t[0] for t in toks if t[0] != "NEWLINE"]
        ctx.count(1, {"template": ast.unparse(w.args[0])[:80], "model tokens": toks[:8]})
        for role, val, pos in roles:
            seen_roles.add(role)
            if role == "label":
                want = ("PROPERTY", c["property"] + val)
                if want not in toks or toks.index(want) != next((i for i, t in enumerate(toks) if t[0] != "NEWLINE"), None):
                    ctx.finding(WR, w, f"a column label is written as {fill!r}; the reader's tokenizer recognises a label only as "
                                f"a token starting with {c['property']!r} at the start of its line (and strips exactly one "
                                "character)", w, m, tokens=toks)
            elif role == "number":
                if any(t[0] in ("LITERAL", "LOOP") for t in toks) or not any(t[0] == "COMMENT" and val in t[1] for t in toks):
                    ctx.finding(WR, w, f"the column number must be written as a trailing comment ({c['comment']!r}n) after the label; "
                                f"{fill!r} tokenises to {kinds}", w, m)
            elif role == "cells":
                if kinds != ["LITERAL"] * 3 or not fill.endswith(c["linesep"]):
                    ctx.finding(WR, w, f"a data row must tokenise into one LITERAL per cell followed by a line end; separator "
                                f"{part[2]!r} gives {kinds}", w, m)
            elif role == "text":
                lit_before = fill[:pos]
                if c["comment"] in lit_before:
                    if kinds != ["COMMENT"]:
                        ctx.finding(WR, w, f"comment line {fill!r} is not tokenised as a comment", w, m)
                else:
                    if kinds != ["LITERAL"] or ("LITERAL", val) not in toks:
                        ctx.finding(WR, w, f"block specifier line {fill!r} must tokenise to a single LITERAL equal to the specifier",
                                    w, m, tokens=toks)
        if not roles:
            if kinds not in ([], ["LOOP"]):
                ctx.finding(WR, w, f"constant output {fill!r} tokenises to {kinds}; expected only line ends or the loop keyword "
                            f"{c['loop']!r}", w, m)
            if kinds == ["LOOP"]:
                seen_roles.add("loop")
                if not fill.endswith(c["linesep"]):
                    ctx.finding(WR, w, "the loop keyword must be followed by a line end", w, m)
    missing = {"label", "number", "cells", "loop", "text"} - seen_roles
    if missing:
        raise Unsupported(f"writer templates for roles {sorted(missing)} not found in Starfile.write", fn)
    # queue discipline of the token list: reversed once, consumed from the end
    rev = [n for n in ast.walk(ft) if isinstance(n, ast.Subscript) and ast.unparse(n.slice) == "::-1"] + \
          [n for n in ast.walk(ft) if isinstance(n, ast.Call) and ((isinstance(n.func, ast.Attribute) and n.func.attr == "reverse")
                                                                    or (isinstance(n.func, ast.Name) and n.func.id == "reversed"))]
    mc, fc = ctx.prog.func("starfileio.Token.consume")
    pops = [n for n in ast.walk(fc) if isinstance(n, ast.Call) and isinstance(n.func, ast.Attribute) and n.func.attr == "pop"
            and not n.args]
    ctx.count(1, {"token queue": "tokenize returns tokens[::-1]; consume pops from the end"})
    if len(rev) != 1 or len(pops) != 1:
        ctx.finding("starfileio.Token.tokenize", "token queue discipline", "the token list must be reversed exactly once by the "
                    "tokenizer and consumed with pop() from the end (first token first)", ft, mt)


# ---------------------------------------------------------------------------------------------- writer semantics
FLOATS = [0.0, 10.0, 250.0, -30.0, 1000000.0, 1234567.891, 2407.986, 161.398243, -1e-06, 0.1, 1e-05, 3.141593, -0.5,
          123456.789012, 99999.5, 1e-06, 7.0]
INTS = [0, 7, 10, 100, -20, 123456, 1234567, 100000000]
TEXTS = ["abc", "TS_01/rec_001.mrc", "A", "B", "e10", "1_2", "nan_x"]


def o23(ctx):
    m, fn = ctx.prog.func(WR)
    ctx.touched(WR)
    # (a) round(float_precision) on every frame, default 6
    d = dict(zip([a.arg for a in fn.args.args][-len(fn.args.defaults):], fn.args.defaults))
    fp = d.get("float_precision")
    ctx.count(1)
    if fp is None or not isinstance(fp, ast.Constant) or fp.value != 6:
        ctx.finding(WR, "default of float_precision", "values are documented to be rounded to 6 decimals by default", fn, m)
    rounds = [n for n in ast.walk(fn) if isinstance(n, ast.Call) and isinstance(n.func, ast.Attribute) and n.func.attr == "round"
              and n.args and isinstance(n.args[0], ast.Name) and n.args[0].id == "float_precision"]
    ctx.count(1)
    ok_round = False
    for r in rounds:
        p = m.parents.get(r)
        loop = p
        while loop is not None and not isinstance(loop, ast.For):
            loop = m.parents.get(loop)
        if stored_back_over_list(fn, p, loop):
            ok_round = True
    if not ok_round:
        ctx.finding(WR, "rounding of the tables", "every table must be rounded to float_precision decimals and stored back "
                    "before it is formatted (frames[i] = f.round(float_precision) for all frames)", fn, m)
    # (a2) blocks are written in the order given: the three parallel lists (tables, specifiers, comments) are not permuted
    list_params = [a.arg for a in fn.args.args if a.arg in ("frames", "specifiers", "comments")]
    if len(list_params) != 3:
        raise Unsupported("block list parameters of Starfile.write not found", fn)
    for st in ast.walk(fn):
        if not (isinstance(st, ast.Assign) and any(isinstance(t, ast.Name) and t.id in list_params for t in st.targets)):
            continue
        ctx.count(1)
        v_ = st.value
        reorder = any(isinstance(x, ast.Call) and isinstance(x.func, ast.Name) and x.func.id in ("sorted", "reversed") for x in ast.walk(v_)) \
            or any(isinstance(x, ast.Call) and isinstance(x.func, ast.Attribute) and x.func.attr in ("argsort", "sort_values") for x in ast.walk(v_)) \
            or any(isinstance(x, ast.Slice) and x.step is not None for x in ast.walk(v_)) \
            or any(isinstance(c_, ast.ListComp) and isinstance(c_.elt, ast.Subscript) and isinstance(c_.elt.value, ast.Name) and c_.elt.value.id in list_params
                   and not (isinstance(c_.generators[0].iter, ast.Call) and isinstance(c_.generators[0].iter.func, ast.Name)
                            and c_.generators[0].iter.func.id == "range") for c_ in ast.walk(v_))
        if reorder:
            ctx.finding(WR, st, "the blocks are re-ordered before writing: the file (and what Starfile.read returns) must hold the blocks in the "
                        "order the caller gave, so that position k of the three returned lists is the k-th table written", st, m)
    # (b) the cell formatter, evaluated
    fmt_calls = [n for n in ast.walk(fn) if isinstance(n, ast.Call) and isinstance(n.func, ast.Attribute)
                 and n.func.attr in ("map", "applymap") and n.args and isinstance(n.args[0], ast.Name)
                 and ctx.prog.has(f"{WR}.{n.args[0].id}")]
    if not fmt_calls:
        raise Unsupported("cell formatting call (frame.map(<nested function>)) not found", fn)
    fq = f"{WR}.{fmt_calls[0].args[0].id}"
    ctx.touched(fq)
    mf, ff = ctx.prog.func(fq)
    it = Interp(ctx.prog)
    r = it.run(fq, [Val(sym("cell"))], {})
    term = to_term(r.ret)
    try:
        c, _, _ = reader_constants(ctx.prog)
    except (LinesDropped, CommentWeakened):
        c = {"property": "_", "loop": "loop_", "comment": "#", "linesep": "\n"}  # reported by O2.2
    bad = []
    for v in FLOATS + INTS + TEXTS:
        try:
            out = tm.evaluate(term, {"cell": v, "float_precision": 6})
        except tm.EvalError as e:
            raise Unsupported(f"cell formatter uses an operation the term evaluator does not interpret: {e}", ff)
        ctx.count(1, {"cell": v, "formatted": out} if v in (10.0, 2407.986, 7, "abc") else None)
        tok = out.strip() if isinstance(out, str) else None
        okv = isinstance(out, str) and tok != "" and not any(ch.isspace() for ch in tok) and c["comment"] not in tok
        if okv:
            if isinstance(v, float):
                try:
                    okv = abs(float(tok) - round(v, 6)) <= 1e-9 * max(1.0, abs(v))
                except ValueError:
                    okv = False
            elif isinstance(v, int):
                try:
                    okv = float(tok) == v
                except ValueError:
                    okv = False
            else:
                okv = tok == v
        if not okv:
            bad.append((v, out))
    if bad:
        ctx.finding(fq, ff.body[-1] if ff.body else ff, "the cell text does not read back to the written value: "
                    + ", ".join(f"{v!r} -> {o!r}" for v, o in bad[:5]), ff, mf, formatter=tm.show(term)[:200])
    # (c) rows are iterated without the index; labels enumerated from 1 over frame.columns
    its = [n for n in ast.walk(fn) if isinstance(n, ast.Call) and isinstance(n.func, ast.Attribute) and n.func.attr == "itertuples"]
    ctx.count(1)
    if len(its) == 1:
        idx = kwarg(its[0], "index")
        if not (isinstance(idx, ast.Constant) and idx.value is False):
            ctx.finding(WR, its[0], "rows must be iterated with itertuples(index=False): otherwise the row index is written as an "
                        "extra first cell", its[0], m)
    else:
        # rows addressed one by one: by position (iloc / values) is fine, by label (.loc[i], i from range(n)) is a label lookup
        rng_loops = [n for n in ast.walk(fn) if isinstance(n, ast.For) and isinstance(n.iter, ast.Call) and isinstance(n.iter.func, ast.Name)
                     and n.iter.func.id == "range" and isinstance(n.target, ast.Name)
                     and any(isinstance(c, ast.Call) and isinstance(c.func, ast.Attribute) and c.func.attr == "write" for c in ast.walk(n))
                     and any(isinstance(x, ast.Subscript) and isinstance(x.slice, ast.Name) and x.slice.id == n.target.id for x in ast.walk(n))]
        if len(rng_loops) != 1:
            raise Unsupported("row iteration of Starfile.write not recognised (itertuples / positional loop)", fn)
        lp = rng_loops[0]
        for x in ast.walk(lp):
            if isinstance(x, ast.Subscript) and isinstance(x.slice, ast.Name) and x.slice.id == lp.target.id and isinstance(x.value, ast.Attribute):
                ctx.count(1)
                if x.value.attr in ("loc", "at"):
                    ctx.finding(WR, x, "rows are fetched with a label lookup (.loc[i], i = 0..n-1): for a table whose index is not 0..n-1 (after a "
                                "sort or a selection) the rows are written in label order, or the lookup fails -- rows must be taken by position",
                                x, m)
                elif x.value.attr not in ("iloc", "iat", "values"):
                    raise Unsupported("row access in the data loop of Starfile.write not recognised", x)
    enums = [n for n in ast.walk(fn) if isinstance(n, ast.Call) and isinstance(n.func, ast.Name) and n.func.id == "enumerate"
             and n.args and ast.unparse(n.args[0]).endswith(".columns")]
    ctx.count(1)
    if len(enums) != 1:
        raise Unsupported("label loop enumerate(frame.columns, 1) not found", fn)
    start = enums[0].args[1] if len(enums[0].args) > 1 else kwarg(enums[0], "start")
    if not (isinstance(start, ast.Constant) and start.value == 1):
        ctx.finding(WR, enums[0], "column labels are numbered from 1 (#1, #2, ...)", enums[0], m)
    # (d) header style truth table: numbered iff number_columns and the block is not a STOPGAP block
    sel = [n for n in ast.walk(fn) if isinstance(n, ast.Assign) and isinstance(n.value, ast.IfExp)
           and {x.id for x in ast.walk(n.value) if isinstance(x, ast.Name)} >= {"number_columns"}]
    if len(sel) != 1:
        raise Unsupported("header-style selection (numbered vs un-numbered) not recognised", fn)
    e = sel[0].value
    numbered_fn = None
    for name, params in ((n.name, n) for n in ast.walk(fn) if isinstance(n, ast.FunctionDef) and n is not fn):
        for w in ast.walk(params):
            if isinstance(w, ast.JoinedStr) and any(isinstance(v, ast.FormattedValue) and isinstance(v.value, ast.Name)
                                                   and v.value.id == params.args.args[-1].arg for v in w.values if True) \
                    and len(params.args.args) == 2:
                numbered_fn = name
    names_in = sorted({x.id for x in ast.walk(e.test) if isinstance(x, ast.Name)} - {"number_columns"})
    if len(names_in) != 1 or numbered_fn is None:
        raise Unsupported("header-style selection uses unexpected variables", sel[0])
    sg = names_in[0]
    for nc in (True, False):
        for st in (True, False):
            chosen = eval(compile(ast.Expression(e), "<sel>", "eval"), {"__builtins__": {}},
                          {"number_columns": nc, sg: st, **{f: f for f in (n.name for n in ast.walk(fn) if isinstance(n, ast.FunctionDef))}})
            want_numbered = nc and not st
            ctx.count(1, {"number_columns": nc, "stopgap block": st, "header": chosen})
            if (chosen == numbered_fn) != want_numbered:
                ctx.finding(WR, sel[0], f"with number_columns={nc} and a {'STOPGAP' if st else 'RELION'} block the labels must be "
                            f"{'numbered' if want_numbered else 'un-numbered'}; the code selects {chosen}", sel[0], m)
    sgdef = [n for n in ast.walk(fn) if isinstance(n, ast.Assign) and isinstance(n.targets[0], ast.Name) and n.targets[0].id == sg]
    ctx.count(1)
    if len(sgdef) != 1 or not (isinstance(sgdef[0].value, ast.Compare) and isinstance(sgdef[0].value.ops[0], ast.In)
                               and isinstance(sgdef[0].value.left, ast.Constant) and sgdef[0].value.left.value == "stopgap"):
        ctx.finding(WR, sgdef[0] if sgdef else "stopgap flag", "the un-numbered STOPGAP header style must be chosen by the block "
                    "specifier containing 'stopgap'", sgdef[0] if sgdef else fn, m)


# ---------------------------------------------------------------------------------------------- reader semantics
class ColEval:
    """finite-domain evaluation of the per-column numeric conversion: column kind in {numeric, text, mixed}"""

    class Raise(Exception):
        pass

    def __init__(self, prog, mod, fn, kind):
        self.prog, self.mod, self.fn, self.kind = prog, mod, fn, kind
        self.env = {fn.args.args[0].arg: ("col", kind)}

    def run(self):
        return self.block(self.fn.body)

    def block(self, stmts):
        for st in stmts:
            r = self.stmt(st)
            if r is not None:
                return r
        return None

    def stmt(self, st):
        if isinstance(st, ast.Return):
            return self.expr(st.value)
        if isinstance(st, ast.Assign) and isinstance(st.targets[0], ast.Name):
            self.env[st.targets[0].id] = self.expr(st.value)
            return None
        if isinstance(st, ast.Expr):
            self.expr(st.value)
            return None
        if isinstance(st, ast.Try):
            saved = dict(self.env)
            try:
                r = self.block(st.body)
                if r is None and st.orelse:
                    r = self.block(st.orelse)
                return r
            except ColEval.Raise:
                self.env = saved
                for h in st.handlers:
                    names = ast.unparse(h.type) if h.type is not None else "Exception"
                    if "ValueError" in names or "Exception" in names or h.type is None:
                        return self.block(h.body)
                raise
        if isinstance(st, ast.If):
            c = self.expr(st.test)
            if not isinstance(c, bool):
                raise Unsupported("condition not decidable over the column-kind domain", st)
            return self.block(st.body if c else st.orelse)
        raise Unsupported(f"statement {type(st).__name__} in the column conversion function", st)

    def expr(self, e):
        if isinstance(e, ast.Name):
            if e.id in self.env:
                return self.env[e.id]
            raise Unsupported(f"unknown name {e.id}", e)
        if isinstance(e, ast.IfExp):
            c = self.expr(e.test)
            if not isinstance(c, bool):
                raise Unsupported("condition not decidable over the column-kind domain", e)
            return self.expr(e.body if c else e.orelse)
        if isinstance(e, ast.UnaryOp) and isinstance(e.op, ast.Not):
            return not self.expr(e.operand)
        if isinstance(e, ast.Call):
            d = self.prog.resolve(self.mod, e.func)
            if d == "pandas.to_numeric":
                src = self.expr(e.args[0])
                mode = "raise"
                for k in e.keywords:
                    if k.arg == "errors" and isinstance(k.value, ast.Constant):
                        mode = k.value.value
                if src[0] != "col":
                    raise Unsupported("to_numeric of a converted column", e)
                kind = src[1]
                if mode == "raise":
                    if kind != "numeric":
                        raise ColEval.Raise()
                    return ("num", "none")  # converted, no NaN
                if mode == "coerce":
                    return ("num", {"numeric": "none", "text": "all", "mixed": "some"}[kind])
                raise Unsupported(f"to_numeric(errors={mode!r})", e)
            if isinstance(e.func, ast.Attribute):
                base = self.expr(e.func.value)
                a = e.func.attr
                if a in ("isna", "isnull") and isinstance(base, tuple) and base[0] == "num":
                    return ("mask", base[1])
                if a in ("notna", "notnull") and isinstance(base, tuple) and base[0] == "num":
                    return ("mask", {"none": "all", "all": "none", "some": "some"}[base[1]])
                if a == "all" and isinstance(base, tuple) and base[0] == "mask":
                    return base[1] == "all"
                if a == "any" and isinstance(base, tuple) and base[0] == "mask":
                    return base[1] in ("all", "some")
            raise Unsupported("call not modelled in the column conversion function: " + ast.unparse(e)[:60], e)
        raise Unsupported("expression not modelled in the column conversion function: " + ast.unparse(e)[:60], e)


def o24(ctx):
    m, fn = ctx.prog.func(RD)
    ctx.touched(RD)
    applies = [n for n in ast.walk(fn) if isinstance(n, ast.Call) and isinstance(n.func, ast.Attribute) and n.func.attr == "apply"
               and n.args]
    if len(applies) != 1:
        raise Unsupported("per-column conversion call (f.apply(...)) not found in Starfile.read", fn)
    ap = applies[0]
    target = ap.args[0]
    conv = None
    if isinstance(target, ast.Name) and ctx.prog.has(f"{RD}.{target.id}"):
        conv = ctx.prog.func(f"{RD}.{target.id}")
        ctx.touched(f"{RD}.{target.id}")
    elif ctx.prog.resolve(m, target) == "pandas.to_numeric":
        conv = None
    else:
        raise Unsupported("conversion function passed to apply not recognised", ap)
    want = {"numeric": ("num", "none"), "text": ("col", "text"), "mixed": ("col", "mixed")}
    for kind in ("numeric", "text", "mixed"):
        if conv is None:
            # plain pd.to_numeric: raises for text / mixed columns
            got = ("num", "none") if kind == "numeric" else "raises"
        else:
            try:
                got = ColEval(ctx.prog, conv[0], conv[1], kind).run()
            except ColEval.Raise:
                got = "raises"
        ctx.count(1, {"column kind": kind, "result": got})
        if got != want[kind]:
            ctx.finding(RD if conv is None else f"{RD}.{target.id}", conv[1] if conv else ap,
                        f"a {kind} column must come back as {'numbers' if kind == 'numeric' else 'the unchanged text column'}; "
                        f"the conversion yields {got}" + (" (text tokens silently become NaN)" if isinstance(got, tuple) and got[0] == "num" and kind != "numeric" else ""),
                        conv[1] if conv else ap, conv[0] if conv else m)
    # applied to every frame and stored back
    par = m.parents.get(ap)
    loop = par
    while loop is not None and not isinstance(loop, ast.For):
        loop = m.parents.get(loop)
    ctx.count(1)
    if not stored_back_over_list(fn, par, loop):
        ctx.finding(RD, ap, "the numeric conversion must be applied to every block and stored back (frames[i] = ...)", ap, m)
    # parse_rows: the table carries the parsed labels as columns even when it has no rows
    q = "starfileio.Token.parse_rows"
    mp, fp = ctx.prog.func(q)
    ctx.touched(q)
    ctors = [n for n in ast.walk(fp) if isinstance(n, ast.Call) and ctx.prog.resolve(mp, n.func) == "pandas.DataFrame"]
    if len(ctors) != 1:
        raise Unsupported("DataFrame construction in parse_rows not found", fp)
    cols = kwarg(ctors[0], "columns") or (ctors[0].args[2] if len(ctors[0].args) > 2 else None)
    param = fp.args.args[-1].arg
    ctx.count(1, {"parse_rows table": ast.unparse(ctors[0])[:80]})
    if cols is None or not (isinstance(cols, ast.Name) and cols.id == param):
        ctx.finding(q, ctors[0], f"the block table must be built with columns={param} (the parsed labels): a loop with labels but "
                    "no rows otherwise loses its columns", ctors[0], mp)
    data = ctors[0].args[0] if ctors[0].args else kwarg(ctors[0], "data")
    if not (isinstance(data, ast.Name)):
        raise Unsupported("data argument of the block table is not the collected row list", ctors[0])


def _obligations():
    return [
        Obligation("O2.1", "library calls on the read/write paths exist in the installed pandas with these keywords/options", o21, floor=3),
        Obligation("O2.2", "writer output templates are tokenised by the reader's constants into the expected token roles", o22, floor=8),
        Obligation("O2.3", "writer: round(6) before formatting, cell text reads back to the value, no index cell, numbering", o23, floor=30),
        Obligation("O2.4", "reader: all-or-nothing numeric conversion per column on every block; empty block keeps labels", o24, floor=5),
    ]


def obligations():
    return _obligations() + [labels_obligation("C02"), selectors_obligation("C02"), effects_obligation("C02")]
