"""C02 -- STAR files read back to the same blocks, columns, rows and values"""
from .common import *
from sa import apicompat
from . import starsem as _sem

TITLE = "STAR files read back to the same blocks, columns, rows and values"
EXPLANATION = (
    "Decided statically: (1) every pandas/numpy call on the Starfile.read / Starfile.write paths exists in the installed "
    "library with the keywords and literal option values used (introspection of the installed library, not of the "
    "repository); (2) writer/reader lexical agreement: the writer's output templates (file.write arguments, parsed from "
    "the syntax tree, holes filled with sample labels/cells) are tokenised by a model tokenizer parametrised by the "
    "constants the repository's tokenizer tests (label prefix, loop keyword, comment character, line separator) and "
    "must yield PROPERTY / COMMENT / LOOP / LITERAL tokens in the roles the parser expects; (3) writer semantics: "
    "round(float_precision=6) before formatting, the cell formatter's extracted term evaluated on sample floats / ints "
    "/ text must read back to the same value, rows iterate without the index, labels are numbered from 1, the "
    "numbered/un-numbered header choice is the documented truth table; (4) reader: the per-column numeric conversion is "
    "evaluated over the finite column-kind domain {numeric, text, mixed} and must be all-or-nothing, is applied to "
    "every block, and the row table is built with the parsed labels as columns (so an empty block keeps its labels); (5) the "
    "reader followed on literal texts (constant propagation through the tokenizer's character loop and the parser's while "
    "loops, nothing executed): tokens of 250 probe texts covering every (state, character class, position) of the tokenizer, "
    "blocks / labels / rows / comments of 20 probe files covering the parser's productions, and the text Starfile.write "
    "produces read back by Starfile.read.")
ASSUMPTIONS = TRUSTED + ["the tokenizer and the recursive-descent parser are decided on a finite cover of probe texts (every "
                         "transition of the tokenizer over its character classes, every production of the parser with and "
                         "without its optional parts), not on all texts: the second sentence of the statement (arbitrary "
                         "permitted STAR texts) is out of reach for this family"]

RD, WR = "starfileio.Starfile.read", "starfileio.Starfile.write"


def o21(ctx):
    roots = [RD, WR]
    quals = sorted(q for q in ctx.prog.reachable(roots) if q.startswith("starfileio."))
    total = 0
    for q in quals:
        issues, n = apicompat.check_function(ctx.prog, q)
        total += n
        ctx.touched(q)
        m, fn = ctx.prog.func(q)
        for i in issues:
            ctx.finding(q, i.node, f"[{i.rule}] {i.message}", i.node, m)
    ctx.count(total, {"functions": quals, "library call sites checked": total})


# ---------------------------------------------------------------------------------------------- lexical agreement
def _reorders(v_):
    """does the expression permute a sequence (sorted / reversed / argsort / step slices / indexing through a computed order)?"""
    return any(isinstance(x, ast.Call) and isinstance(x.func, ast.Name) and x.func.id in ("sorted", "reversed") for x in ast.walk(v_)) \
        or any(isinstance(x, ast.Call) and isinstance(x.func, ast.Attribute) and x.func.attr in ("argsort", "sort_values", "sort") for x in ast.walk(v_)) \
        or any(isinstance(x, ast.Slice) and x.step is not None for x in ast.walk(v_))


def tokenizer(prog):
    """the function that holds the tokenizer's code (Token.tokenize, or what it delegates to)"""
    return prog.implementation("starfileio.Token.tokenize")


def _reading_order(prog, text):
    """tokens of a text as the reader sees them (the tokenizer hands the queue over reversed; the parser takes from its end)"""
    t = _sem.tokens_of(prog, text)
    if isinstance(t, tuple) and t and t[0] == "raise":
        return t
    return t[::-1]


def reader_constants(prog):
    """the lexical constants of the reader, found by asking the tokenizer itself (followed on literal one-word texts): which single
    character makes a word a label, which one starts a comment, which word is the loop keyword.  -> (constants, module, function)"""
    import string
    m, fn = prog.func(tokenizer(prog))
    words = lambda text: [t for t in _reading_order(prog, text) if t[0] != "NEWLINE"]
    prop = [ch for ch in string.punctuation if words(ch + "ab\n") == [("PROPERTY", ch + "ab")]]
    com = [ch for ch in string.punctuation if words("x " + ch + "y\n") == [("LITERAL", "x"), ("COMMENT", "y")]]
    # the loop keyword is a string constant of the reader: every one of them is tried as a one-word text
    cands = set()
    for q in prog.reachable([tokenizer(prog)]):
        if q.startswith("starfileio."):
            cands |= {n.value for n in ast.walk(prog.func(q)[1]) if isinstance(n, ast.Constant) and isinstance(n.value, str) and 1 < len(n.value) < 20
                      and not any(ch.isspace() for ch in n.value)}
    loop = [w for w in sorted(cands) if words(w + "\n") == [("LOOP", w)]]
    consts = {"property": prop, "loop": loop, "comment": com}
    for k, v in consts.items():
        if len(v) != 1:
            raise Unsupported(f"tokenizer constant for {k} not unique: {sorted(v)}", fn)
    c = {k: v[0] for k, v in consts.items()}
    two = _reading_order(prog, "a\nb\n")
    if [t[0] for t in two][:4] != ["LITERAL", "NEWLINE", "LITERAL", "NEWLINE"]:
        raise Unsupported("the tokenizer does not end a line at a line feed", fn)
    c["linesep"] = "\n"
    return c, m, fn


def model_tokenize(text, c):
    t = _sem.ref_tokens(text, c)
    return t[:-1]


def o26(ctx):
    """the reader followed on literal texts (see spec/starsem.py): tokens of every probe text, blocks / labels / rows / comments of every
    probe file, block selection by number, and the text Starfile.write produces read back by Starfile.read"""
    prog = ctx.prog
    tq = tokenizer(prog)
    mt, ft = prog.func(tq)
    mr, fr_ = prog.func(RD)
    ctx.touched(tq, RD, "starfileio.Token.parse_columns", "starfileio.Token.parse_column", "starfileio.Token.parse_rows", "starfileio.Token.consume")
    c, _, _ = reader_constants(prog)
    ctx.count(1, {"reader constants (asked from the tokenizer)": c})
    show = lambda toks: toks if isinstance(toks, tuple) else [t for t in toks][:8]
    bad = []
    probes = _sem.token_probes(c)
    def lines_of(toks):
        """the tokens line by line; empty lines and how many line ends follow each other carry no information for the parser"""
        if isinstance(toks, tuple):
            return toks
        out, cur = [], []
        for t in toks:
            if t[0] == "NEWLINE":
                if cur:
                    out.append(cur)
                cur = []
            else:
                cur.append(t)
        return out + ([cur + [("NO LINE END", None)]] if cur else [])

    for text in probes:
        got, want = _reading_order(prog, text), _sem.ref_tokens(text, c)
        ctx.count(1)
        if lines_of(got) != lines_of(want):
            bad.append((text, got, want))
    if bad:
        text, got, want = min(bad, key=lambda b_: len(b_[0]))
        k_ = next((i for i, (g_, w_) in enumerate(zip(got, want)) if g_ != w_), min(len(got), len(want))) if not isinstance(got, tuple) else 0
        ctx.finding(tq, ft, f"the text {text!r} is cut into {show(got)}; the format reads it as {show(want)} (first difference at token {k_}; "
                    f"{len(bad)} of {len(probes)} probe texts differ: words end at blanks, tabs, the comment character and the end of the line, "
                    "with or without a final line break; a word is a label iff it starts with the label prefix, the loop keyword iff it is "
                    "exactly that word)", ft, mt, probes_differing=[b_[0] for b_ in bad[:8]])
    # files
    badr = []
    rp = _sem.read_probes(c)
    for label, text in rp:
        try:
            want = _sem.ref_read(text, c)
        except _sem.ReadError as e:
            want = {"raise": str(e)}
        got = _sem.read_text(prog, text)
        ctx.count(1, {"probe": label, "blocks": [(b_[0], b_[1], len(b_[2])) for b_ in got.get("blocks", [])]} if "blocks" in got else None)
        if "raise" in want:
            continue  # texts the format does not accept: what the reader does with them is not part of the statement
        if got != want:
            badr.append((label, text, got, want))
    for label, text, got, want in badr[:3]:
        if "raise" in got:
            what = f"is rejected (raise at line {got['raise']} of {got.get('where')})"
        else:
            gb, wb = got["blocks"], want["blocks"]
            what = (f"comes back as {len(gb)} block(s) instead of {len(wb)}" if len(gb) != len(wb) else
                    "; ".join(f"block {g_[0]!r}: labels {g_[1]} rows {g_[2][:3]} instead of {w_[0]!r}: labels {w_[1]} rows {w_[2][:3]}"
                              for g_, w_ in zip(gb, wb) if g_ != w_) or f"comments {got['comments']} instead of {want['comments']}")
        ctx.finding(RD, fr_, f"a file with {label} {what}"[:600] + f" ({len(badr)} of {len(rp)} probe files differ)", fr_, mr, text=text[:200])
    # one block picked by its number
    two = next(t for l_, t in rp if l_ == "two blocks")
    for k_, want in ((0, "data_optics"), (1, "data_particles")):
        got = _sem.read_text(prog, two, data_id=k_)
        ctx.count(1, {"data_id": k_, "picked": got})
        if got.get("picked") != want:
            ctx.finding(RD, fr_, f"Starfile.read(path, data_id={k_}) of a file with the blocks data_optics, data_particles hands back "
                        f"{got.get('picked', got)!r}", fr_, mr)
    # what the writer writes, read by the reader
    m, fn = prog.func(WR)
    COLS = ["rlnCoordinateX", "rlnImageName", "rlnClassNumber"]
    CELLS = ((1.5, "tomo_a", 3), (-20.25, "TS_01/rec_001.mrc", 12), (1234567.891, "B", 0))
    for number_columns, spec_, comments in ((True, "data_particles", None), (False, "data_particles", None), (True, "data_stopgap_motivelist", None),
                                           (False, "data_stopgap_motivelist", None),
                                           (True, "data_particles", Seq([Seq([K("written by a test"), K("twice")], "list")], "list"))):
        text, node = _written_text(ctx, [(spec_, COLS)], number_columns, comments, [CELLS])
        got = _sem.read_text(prog, text)
        want_rows = [[format(a_, "g") if False else str(a_), b_, str(c_)] for a_, b_, c_ in CELLS]
        ctx.count(1, {"number_columns": number_columns, "block": spec_, "read back": got.get("blocks", got)})
        ok = "blocks" in got and len(got["blocks"]) == 1 and got["blocks"][0][0] == spec_ and got["blocks"][0][1] == COLS \
            and len(got["blocks"][0][2]) == len(CELLS) \
            and all(r_[1] == w_[1] and _same_number(r_[0], w_[0]) and _same_number(r_[2], w_[2]) for r_, w_ in zip(got["blocks"][0][2], want_rows))
        if ok and comments is not None and got["comments"] != [["written by a test", "twice"]]:
            ok = False
        if not ok:
            ctx.finding(WR, node, f"a table written with number_columns={number_columns} as block {spec_!r}"
                        f"{' with comments' if comments is not None else ''} is read back by Starfile.read as "
                        f"{got if 'raise' in got else [(b_[0], b_[1], b_[2][:3]) for b_ in got['blocks']]}"[:500]
                        + f"{'; comments ' + str(got.get('comments')) if comments is not None and 'blocks' in got else ''}; written: labels {COLS}, "
                        f"rows {want_rows}", node, m, text=text[:300])
    # a table with its labels and no rows (allowed as the last block): its block and labels are written and read back
    for blocks_, cells_ in (([("data_particles", COLS)], [()]),):
        text, node = _written_text(ctx, blocks_, True, None, cells_)
        got = _sem.read_text(prog, text)
        ctx.count(1, {"table without rows read back": got.get("blocks", got)})
        if "blocks" not in got or [(b_[0], b_[1], len(b_[2])) for b_ in got["blocks"]] != [(s_, c_, 0) for s_, c_ in blocks_]:
            ctx.finding(WR, node, f"a table with the labels {COLS} and no rows is read back as "
                        f"{got if 'raise' in got else [(b_[0], b_[1], len(b_[2])) for b_ in got['blocks']]}: its block name and labels must be "
                        f"written (text written: {text[:80]!r})", node, m, text=text[:300])
    # two blocks
    text, node = _written_text(ctx, [("data_optics", ["grp", "apix"]), ("data_particles", COLS)], True, None, [(("opt1", 2.5),), CELLS[:2]])
    got = _sem.read_text(prog, text)
    ctx.count(1, {"two blocks read back": got.get("blocks", got)})
    if "blocks" not in got or [(b_[0], b_[1], len(b_[2])) for b_ in got["blocks"]] != [("data_optics", ["grp", "apix"], 1), ("data_particles", COLS, 2)]:
        ctx.finding(WR, node, f"two tables written as data_optics (1 row) and data_particles (2 rows) are read back as "
                    f"{got if 'raise' in got else [(b_[0], b_[1], len(b_[2])) for b_ in got['blocks']]}", node, m, text=text[:300])


def _same_number(a, b):
    try:
        return abs(float(a) - float(b)) <= 1e-6 * max(1.0, abs(float(b)))
    except ValueError:
        return a == b


def _written_text(ctx, blocks, number_columns, comments, cells):
    """the text Starfile.write hands to the file for tables with the given rows of cells (one list of rows per block)"""
    m, fn = ctx.prog.func(WR)
    empty = all(len(c_) == 0 for c_ in cells)
    pieces = _run_writer(ctx, WR, blocks, number_columns, comments, assume=_empty_tables if empty else None)
    if empty:
        # no rows: whatever depends on a row's cells is not written
        return "".join(p_[1] for p_ in pieces if p_[0]), fn
    var = [p_ for p_ in pieces if not p_[0]]
    if len(var) != len(blocks):
        raise Unsupported(f"Starfile.write: expected one row line per block depending on the cells, found {len(var)} variable pieces", fn)
    text, k_ = "", 0
    for p_ in pieces:
        if p_[0]:
            text += p_[1]
            continue
        cols = blocks[k_][1]
        for row in cells[k_]:
            try:
                ln = tm.evaluate(p_[1], dict(zip([f"cell{k_}:{x}" for x in cols], row)))
            except tm.EvalError as e:
                raise Unsupported(f"row line of Starfile.write uses an operation the term evaluator does not interpret: {e}", p_[2])
            if not isinstance(ln, str):
                raise Unsupported("row line of Starfile.write is not a string expression", p_[2])
            text += ln
        k_ += 1
    return text, var[0][2]


def o22(ctx):
    prog = ctx.prog
    c, mt, ft = reader_constants(prog)
    ctx.touched(tokenizer(prog), WR)
    ctx.count(1, {"tokenizer constants": c})
    # labels are returned in the order they stand in the file (a trailing `#n` is a comment, not a position)
    mp_, fp_ = ctx.prog.func("starfileio.Token.parse_columns")
    ctx.touched("starfileio.Token.parse_columns")
    ret_names = {x.id for r_ in ast.walk(fp_) if isinstance(r_, ast.Return) and r_.value is not None for x in ast.walk(r_.value) if isinstance(x, ast.Name)}
    for st in ast.walk(fp_):
        if isinstance(st, ast.Assign) and any(isinstance(t, ast.Name) and t.id in ret_names for t in st.targets):
            ctx.count(1)
            if _reorders(st.value):
                ctx.finding("starfileio.Token.parse_columns", st, "the column labels are re-ordered after parsing: the k-th label of the header names the "
                            "k-th entry of every data row, whatever number its trailing comment carries", st, mp_)
    # reader and writer open the file with the same text encoding
    mrd, frd = ctx.prog.func("starfileio.Starfile.read")
    opens = {}
    mwr_, fwr_ = ctx.prog.func(WR)
    for nm_, f_ in (("read", frd), ("write", fwr_)):
        calls_ = [n for n in ast.walk(f_) if isinstance(n, ast.Call) and isinstance(n.func, ast.Name) and n.func.id == "open"]
        if len(calls_) != 1:
            raise Unsupported(f"file opening in Starfile.{nm_} not recognised", f_)
        enc = kwarg(calls_[0], "encoding")
        opens[nm_] = (ast.unparse(enc) if enc is not None else None, calls_[0])
    ctx.count(1, {"encodings": {k_: v_[0] for k_, v_ in opens.items()}})
    if opens["read"][0] != opens["write"][0]:
        ctx.finding("starfileio.Starfile.read", opens["read"][1], f"the file is read with encoding {opens['read'][0]} but written with "
                    f"{opens['write'][0]}: text values with non-ASCII characters (paths, units) are written correctly and read back garbled",
                    opens["read"][1], mrd)
    # the text the writer produces (its constant pieces plus the lines of two sample rows; see O2.5 for how it is obtained), cut by the
    # reader's own tokenizer, must come out as: [comments] specifier LITERAL, LOOP, one PROPERTY per column (each followed by its
    # numbering COMMENT when numbered), then one LITERAL per cell
    m, fn = ctx.prog.func(WR)
    COLS = ["rlnCoordinateX", "rlnImageName", "rlnClassNumber"]
    for number_columns, spec_, comments in ((True, "data_particles", None), (False, "data_particles", None), (True, "data_stopgap_motivelist", None),
                                           (True, "data_particles", Seq([Seq([K("written by a test")], "list")], "list"))):
        text, node = _written_text(ctx, [(spec_, COLS)], number_columns, comments, [((1.5, "tomo_a", 3), (-20.25, "TS_01/rec_001.mrc", 12))])
        toks = _reading_order(prog, text)
        if isinstance(toks, tuple):
            ctx.count(1)
            ctx.finding(WR, node, f"the text written for a block is rejected by the tokenizer (raise at line {toks[1]})", node, m, text=text[:200])
            continue
        toks = [t for t in toks if t[0] != "NEWLINE"]
        numbered = number_columns and "stopgap" not in spec_
        want = ([("COMMENT", "written by a test")] if comments is not None else []) + [("LITERAL", spec_), ("LOOP", c["loop"])]
        for i_, name in enumerate(COLS, 1):
            want.append(("PROPERTY", c["property"] + name))
            if numbered:
                want.append(("COMMENT", str(i_)))
        want += [("LITERAL", None)] * 6
        ctx.count(8, {"number_columns": number_columns, "block": spec_, "tokens": toks[:10]})
        same = len(toks) == len(want) and all(t[0] == w[0] and (w[1] is None or t[1] == w[1]) for t, w in zip(toks, want))
        if not same:
            k_bad = next((i_ for i_, (t, w) in enumerate(zip(toks, want)) if not (t[0] == w[0] and (w[1] is None or t[1] == w[1]))), min(len(toks), len(want)))
            ctx.finding(WR, node, f"the text written for a block ({'numbered' if numbered else 'un-numbered'} labels) is not cut by the reader's "
                        f"tokenizer into specifier, {c['loop']!r}, labels and one literal per cell: token {k_bad} is "
                        f"{toks[k_bad] if k_bad < len(toks) else None}, expected {want[k_bad] if k_bad < len(want) else 'end of text'}", node, m,
                        text=text[:200])
        lines_ = text.split(c["linesep"])
        ctx.count(1)
        if not any(ln.strip() == c["loop"] for ln in lines_):
            ctx.finding(WR, node, "the loop keyword must stand on a line of its own", node, m)


# ---------------------------------------------------------------------------------------------- writer semantics
FLOATS = [0.0, 10.0, 250.0, -30.0, 1000000.0, 1234567.891, 2407.986, 161.398243, -1e-06, 0.1, 1e-05, 3.141593, -0.5,
          123456.789012, 99999.5, 1e-06, 7.0, -0.05, -0.004217, -10.0, -0.0]
INTS = [0, 7, 10, 100, -20, 123456, 1234567, 100000000]
TEXTS = ["abc", "TS_01/rec_001.mrc", "ts_04_defocus-0.04.mrc", "B", "A", "e10", "1_2", "nan_x"]


def o23(ctx):
    m, fn = ctx.prog.func(WR)
    ctx.touched(WR)
    # (a) round(float_precision) on every frame, default 6
    d = dict(zip([a.arg for a in fn.args.args][-len(fn.args.defaults):], fn.args.defaults))
    fp = d.get("float_precision")
    ctx.count(1)
    if fp is None or not isinstance(fp, ast.Constant) or fp.value != 6:
        ctx.finding(WR, "default of float_precision", "values are documented to be rounded to 6 decimals by default", fn, m)
    rounds = [n for n in ast.walk(fn) if isinstance(n, ast.Call) and isinstance(n.func, ast.Attribute) and n.func.attr == "round"
              and n.args and isinstance(n.args[0], ast.Name) and n.args[0].id == "float_precision"]
    ctx.count(1)
    ok_round = False
    for r in rounds:
        p = m.parents.get(r)
        loop = p
        while loop is not None and not isinstance(loop, ast.For):
            loop = m.parents.get(loop)
        if stored_back_over_list(fn, p, loop):
            ok_round = True
    if not ok_round:
        ctx.finding(WR, "rounding of the tables", "every table must be rounded to float_precision decimals and stored back "
                    "before it is formatted (frames[i] = f.round(float_precision) for all frames)", fn, m)
    # (a2) blocks are written in the order given: the three parallel lists (tables, specifiers, comments) are not permuted
    list_params = [a.arg for a in fn.args.args if a.arg in ("frames", "specifiers", "comments")]
    if len(list_params) != 3:
        raise Unsupported("block list parameters of Starfile.write not found", fn)
    for st in ast.walk(fn):
        if not (isinstance(st, ast.Assign) and any(isinstance(t, ast.Name) and t.id in list_params for t in st.targets)):
            continue
        ctx.count(1)
        v_ = st.value
        reorder = any(isinstance(x, ast.Call) and isinstance(x.func, ast.Name) and x.func.id in ("sorted", "reversed") for x in ast.walk(v_)) \
            or any(isinstance(x, ast.Call) and isinstance(x.func, ast.Attribute) and x.func.attr in ("argsort", "sort_values") for x in ast.walk(v_)) \
            or any(isinstance(x, ast.Slice) and x.step is not None for x in ast.walk(v_)) \
            or any(isinstance(c_, ast.ListComp) and isinstance(c_.elt, ast.Subscript) and isinstance(c_.elt.value, ast.Name) and c_.elt.value.id in list_params
                   and not (isinstance(c_.generators[0].iter, ast.Call) and isinstance(c_.generators[0].iter.func, ast.Name)
                            and c_.generators[0].iter.func.id == "range") for c_ in ast.walk(v_))
        if reorder:
            ctx.finding(WR, st, "the blocks are re-ordered before writing: the file (and what Starfile.read returns) must hold the blocks in the "
                        "order the caller gave, so that position k of the three returned lists is the k-th table written", st, m)
    # (c) rows addressed one by one: by position (iloc / values) is fine, by label (.loc[i], i from range(n)) is a label lookup
    rng_loops = [n for n in ast.walk(fn) if isinstance(n, ast.For) and isinstance(n.iter, ast.Call) and isinstance(n.iter.func, ast.Name)
                 and n.iter.func.id == "range" and isinstance(n.target, ast.Name)
                 and any(isinstance(c, ast.Call) and isinstance(c.func, ast.Attribute) and c.func.attr in ("write", "append") for c in ast.walk(n))
                 and any(isinstance(x, ast.Subscript) and isinstance(x.slice, ast.Name) and x.slice.id == n.target.id for x in ast.walk(n))]
    for lp in rng_loops:
        for x in ast.walk(lp):
            if isinstance(x, ast.Subscript) and isinstance(x.slice, ast.Name) and x.slice.id == lp.target.id and isinstance(x.value, ast.Attribute):
                ctx.count(1)
                if x.value.attr in ("loc", "at"):
                    ctx.finding(WR, x, "rows are fetched with a label lookup (.loc[i], i = 0..n-1): for a table whose index is not 0..n-1 (after a "
                                "sort or a selection) the rows are written in label order, or the lookup fails -- rows must be taken by position",
                                x, m)


def o25(ctx):
    """the text written, decided on what write() hands to the file object (not on how the function is spelled): the function is
    interpreted with one symbolic block (a text, a float and an integer column, text first) per configuration, every file.write /
    writelines argument is collected in order, the constant pieces are the header and the one non-constant piece is the line of a
    generic row as a string expression of its three cells"""
    m, fn = ctx.prog.func(WR)
    ctx.touched(WR)
    writer_text(ctx, WR, m, fn)


def _empty_tables(fn_, node_, av_, module_=None):
    """configuration 'the tables have no rows': every test that only asks how many rows a table has is answered for zero rows"""
    t = to_term(av_) if av_ is not None else None
    if t is None or not any(n.op == "call" and n.args[0] == "nrows" for n in tm.walk(t)):
        return None
    t0 = tm.subst(t, {n: const(0) for n in tm.walk(t) if n.op == "call" and n.args[0] == "nrows"})
    if tm.symbols(t0) or tm.has_uninterpreted(t0):
        return None
    try:
        return bool(tm.evaluate(t0, {}))
    except Exception:  # noqa
        return None


def _run_writer(ctx, q, blocks, number_columns, comments, precision=None, assume=None):
    """-> list of (is_constant, python string | term, node) in the order written"""
    frames = []
    for k_, (spec_, cols) in enumerate(blocks):
        f_ = Frame({c: sym(f"cell{k_}:{c}") for c in cols}, list(cols), prefix=f"cell{k_}:", name=f"block{k_}")
        f_.space = Space(f"block{k_}", how="root")
        f_.kinds = {c: ("object" if c in ("txt", "rlnImageName", "grp") else "number") for c in cols}
        frames.append(f_)
    it = Interp(ctx.prog, assume=assume) if assume is not None else Interp(ctx.prog)
    kw = {"specifiers": Seq([K(s_) for s_, _ in blocks], "list"), "number_columns": K(number_columns)}
    if comments is not None:
        kw["comments"] = comments
    if precision is not None:
        kw["float_precision"] = K(precision)
    it.run(q, [Seq(frames, "list"), K("out.star")], kw)
    out = []
    for e in it.events:
        if e.kind != "call" or e.name not in ("method:write", "method:writelines"):
            continue
        if not (e.args and tm.has_call(to_term(e.args[0]), "open")):
            continue
        v = e.args[1] if len(e.args) > 1 else None
        if v is None:
            continue
        if e.name == "method:writelines":
            items = it.iter_items(v)
            if items is None:
                el = getattr(v, "elem", None)  # a comprehension over the rows: its generic element is the line of a row
                if el is None:
                    raise Unsupported("lines handed to file.writelines not recognised", e.node)
                items = [el]
            for x in items:
                out.append((is_pyconst(x), pyval(x) if is_pyconst(x) else to_term(x), e.node))
        else:
            out.extend(_pieces_of(v, e.node))
    return out


def _pieces_of(v, node):
    """the pieces of one write: a text collected in a list and joined (`sep.join(pieces)`) is the sequence of its pieces, a piece that
    comes from a comprehension / generator over the rows is the line of a generic row"""
    if is_pyconst(v):
        return [(True, pyval(v), node)]
    t = to_term(v)
    if t.op == "call" and t.args[0] == "str.join" and len(t.args) == 3 and t.args[1].op == "const" and isinstance(tm.cval(t.args[1]), str) \
            and t.args[2].op == "vec":
        sep, out = tm.cval(t.args[1]), []
        for k_, item in enumerate(t.args[2].args):
            if k_ and sep:
                out.append((True, sep, node))
            if item.op == "const" and isinstance(tm.cval(item), str):
                out.append((True, tm.cval(item), node))
            elif item.op == "call" and item.args[0] in ("extended", "listcomp") and len(item.args) >= 2:
                inner = item.args[1]
                if inner.op == "call" and inner.args[0] == "listcomp" and len(inner.args) >= 2:
                    inner = inner.args[1]
                out.append((False, inner, node))
            else:
                out.append((False, item, node))
        return out
    return [(False, t, node)]


def writer_text(ctx, q, m, fn):
    import re as _re
    COLS = ["txt", "flt", "num"]
    rc, _, _ = reader_constants(ctx.prog)
    for number_columns in (True, False):
        for spec_ in ("data_particles", "data_stopgap_motivelist"):
            for comments in (None, Seq([Seq([K("first remark"), K("second")], "list")], "list")):
                pieces = _run_writer(ctx, q, [(spec_, COLS)], number_columns, comments)
                var = [p_ for p_ in pieces if not p_[0]]
                if len(var) != 1:
                    raise Unsupported(f"Starfile.write: expected one row line depending on the cells, found {len(var)} variable pieces", fn)
                k_ = pieces.index(var[0])
                head = "".join(p_[1] for p_ in pieces[:k_])
                tail = "".join(p_[1] for p_ in pieces[k_ + 1:])
                lines = head.split("\n")
                stopgap = "stopgap" in spec_
                want_numbered = number_columns and not stopgap
                ctx.count(1, {"number_columns": number_columns, "block": spec_, "comments": comments is not None, "header": head[:120]})
                # header: [comment lines] specifier, loop_, one label line per column in the table's order
                body = [ln for ln in lines if ln.strip() and not ln.lstrip().startswith(rc["comment"])]
                labels = [ln for ln in body if ln.startswith(rc["property"])]
                if body[:2] != [spec_, rc["loop"]] or body[2:] != labels:
                    ctx.finding(q, var[0][2], f"the block must open with its specifier line and {rc['loop']!r} followed by the label lines; "
                                f"written: {body[:5]}", var[0][2], m)
                    continue
                parsed = [_re.fullmatch(_re.escape(rc["property"]) + r"(\S+?)(?:\s+" + _re.escape(rc["comment"]) + r"(\d+))?\s*", ln) for ln in labels]
                if any(p_ is None for p_ in parsed):
                    ctx.finding(q, var[0][2], f"label lines must read {rc['property']}<name> or {rc['property']}<name> {rc['comment']}<k>; written: {labels}",
                                var[0][2], m)
                    continue
                names = [p_.group(1) for p_ in parsed]
                nums = [p_.group(2) for p_ in parsed]
                if names != COLS:
                    ctx.finding(q, var[0][2], f"the labels must be the table's columns in the table's order {COLS}; written {names} "
                                "(the cells of a row follow the table's order: labels and values would no longer correspond)", var[0][2], m)
                if want_numbered and nums != [str(i_ + 1) for i_ in range(len(COLS))]:
                    ctx.finding(q, var[0][2], f"with number_columns={number_columns} and a {'STOPGAP' if stopgap else 'RELION'} block the labels "
                                f"must be numbered {rc['comment']}1, {rc['comment']}2, ... in column order; written {labels}", var[0][2], m)
                if not want_numbered and any(n_ is not None for n_ in nums):
                    ctx.finding(q, var[0][2], f"with number_columns={number_columns} and a {'STOPGAP' if stopgap else 'RELION'} block the labels "
                                f"must not be numbered; written {labels}", var[0][2], m)
                if comments is not None:
                    cl = [ln for ln in lines if ln.lstrip().startswith(rc["comment"])]
                    if [c_.lstrip()[len(rc["comment"]):].strip() for c_ in cl] != ["first remark", "second"] or lines.index(cl[0]) > lines.index(spec_):
                        ctx.finding(q, var[0][2], f"the block's comments must be written as '{rc['comment']} <text>' lines in front of the block; written {cl}",
                                    var[0][2], m)
                # the line of a row: one token per cell, in column order, each reading back to the value
                term = var[0][1]
                bad = []
                for tv in TEXTS[:4]:
                    for fv in FLOATS:
                        for iv in (INTS[1], INTS[3], INTS[6]) if fv in (10.0, 2407.986) else (INTS[2],):
                            env = {"cell0:txt": tv, "cell0:flt": fv, "cell0:num": iv}
                            try:
                                line = tm.evaluate(term, dict(env))
                            except tm.EvalError as e:
                                raise Unsupported(f"row line of Starfile.write uses an operation the term evaluator does not interpret: {e}", var[0][2])
                            ctx.count(1, {"cells": (tv, fv, iv), "line": line} if (tv, fv) == ("abc", 2407.986) and iv == 7 else None)
                            okl = isinstance(line, str) and line.endswith("\n") and "\n" not in line[:-1]
                            toks = line.split() if okl else []
                            okl = okl and len(toks) == 3 and all(rc["comment"] not in t_ for t_ in toks)
                            if okl:
                                try:
                                    okl = toks[0] == tv and abs(float(toks[1]) - round(fv, 6)) <= 1e-9 * max(1.0, abs(fv)) and float(toks[2]) == iv
                                except ValueError:
                                    okl = False
                            if not okl:
                                bad.append((env, line))
                if bad:
                    ctx.finding(q, var[0][2], "the text of a row does not read back to its cells (one whitespace-separated token per cell, in column "
                                "order, floats rounded to 6 decimals): " + "; ".join(f"{tuple(e_.values())!r} -> {l_!r}" for e_, l_ in bad[:3]),
                                var[0][2], m, line=tm.show(term)[:300])
                if not tail.endswith("\n"):
                    ctx.finding(q, var[0][2], "a block must end with an empty line", var[0][2], m)
    # the precision option reaches the rounding
    pieces = _run_writer(ctx, q, [("data_particles", COLS)], True, None, precision=2)
    var = [p_ for p_ in pieces if not p_[0]]
    if len(var) == 1:
        line = tm.evaluate(var[0][1], {"cell0:txt": "abc", "cell0:flt": 3.14159, "cell0:num": 4})
        ctx.count(1, {"float_precision": 2, "line": line})
        if not (isinstance(line, str) and len(line.split()) == 3 and line.split()[1] in ("3.14",)):
            ctx.finding(q, var[0][2], f"float_precision=2 must round the values to 2 decimals before they are written; 3.14159 is written as {line!r}",
                        var[0][2], m)
    # two blocks: written in the order given, each with its own columns
    pieces = _run_writer(ctx, q, [("data_optics", ["grp", "apix"]), ("data_particles", COLS)], True, None)
    consts = "".join(p_[1] for p_ in pieces if p_[0])
    ctx.count(1)
    if not (0 <= consts.find("data_optics") < consts.find("_grp") < consts.find("data_particles") < consts.find("_txt")):
        ctx.finding(q, fn, "several blocks must be written in the order given, each specifier followed by its own labels", fn, m)
    rows = [p_ for p_ in pieces if not p_[0]]
    ctx.count(1)
    if len(rows) == 2 and not (set(tm.symbols(rows[0][1])) <= {"cell0:grp", "cell0:apix", "float_precision"} and
                                set(tm.symbols(rows[1][1])) <= {"cell1:txt", "cell1:flt", "cell1:num", "float_precision"}):
        ctx.finding(q, fn, "each block's rows must hold the cells of that block's own table", fn, m)


# ---------------------------------------------------------------------------------------------- reader semantics
class ColEval:
    """finite-domain evaluation of the per-column numeric conversion: column kind in {numeric, text, mixed}"""

    class Raise(Exception):
        pass

    def __init__(self, prog, mod, fn, kind):
        self.prog, self.mod, self.fn, self.kind = prog, mod, fn, kind
        self.env = {fn.args.args[0].arg: ("col", kind)}

    def run(self):
        return self.block(self.fn.body)

    def block(self, stmts):
        for st in stmts:
            r = self.stmt(st)
            if r is not None:
                return r
        return None

    def stmt(self, st):
        if isinstance(st, ast.Return):
            return self.expr(st.value)
        if isinstance(st, ast.Assign) and isinstance(st.targets[0], ast.Name):
            self.env[st.targets[0].id] = self.expr(st.value)
            return None
        if isinstance(st, ast.Expr):
            self.expr(st.value)
            return None
        if isinstance(st, ast.Try):
            saved = dict(self.env)
            try:
                r = self.block(st.body)
                if r is None and st.orelse:
                    r = self.block(st.orelse)
                return r
            except ColEval.Raise:
                self.env = saved
                for h in st.handlers:
                    names = ast.unparse(h.type) if h.type is not None else "Exception"
                    if "ValueError" in names or "Exception" in names or h.type is None:
                        return self.block(h.body)
                raise
        if isinstance(st, ast.If):
            c = self.expr(st.test)
            if not isinstance(c, bool):
                raise Unsupported("condition not decidable over the column-kind domain", st)
            return self.block(st.body if c else st.orelse)
        raise Unsupported(f"statement {type(st).__name__} in the column conversion function", st)

    def expr(self, e):
        if isinstance(e, ast.Name):
            if e.id in self.env:
                return self.env[e.id]
            raise Unsupported(f"unknown name {e.id}", e)
        if isinstance(e, ast.IfExp):
            c = self.expr(e.test)
            if not isinstance(c, bool):
                raise Unsupported("condition not decidable over the column-kind domain", e)
            return self.expr(e.body if c else e.orelse)
        if isinstance(e, ast.UnaryOp) and isinstance(e.op, ast.Not):
            return not self.expr(e.operand)
        if isinstance(e, ast.Call):
            d = self.prog.resolve(self.mod, e.func)
            if d == "pandas.to_numeric":
                src = self.expr(e.args[0])
                mode = "raise"
                single = False
                for k in e.keywords:
                    if k.arg == "errors" and isinstance(k.value, ast.Constant):
                        mode = k.value.value
                    elif k.arg == "downcast" and isinstance(k.value, ast.Constant) and k.value.value in (None, "integer", "signed", "unsigned"):
                        pass  # whole numbers into the smallest integer type that holds them: every value kept
                    elif k.arg == "downcast" and isinstance(k.value, ast.Constant) and k.value.value == "float":
                        single = True  # float64 -> float32: about seven significant digits are left
                    else:
                        raise Unsupported(f"to_numeric option {k.arg} is outside the model of the conversion", e)
                if single:
                    if src[0] == "col" and src[1] != "numeric" and mode == "raise":
                        raise ColEval.Raise()
                    return ("num in single precision", "none")
                if src[0] != "col":
                    raise Unsupported("to_numeric of a converted column", e)
                kind = src[1]
                if mode == "raise":
                    if kind != "numeric":
                        raise ColEval.Raise()
                    return ("num", "none")  # converted, no NaN
                if mode == "coerce":
                    return ("num", {"numeric": "none", "text": "all", "mixed": "some"}[kind])
                raise Unsupported(f"to_numeric(errors={mode!r})", e)
            if isinstance(e.func, ast.Attribute):
                base = self.expr(e.func.value)
                a = e.func.attr
                if a in ("isna", "isnull") and isinstance(base, tuple) and base[0] == "num":
                    return ("mask", base[1])
                if a in ("notna", "notnull") and isinstance(base, tuple) and base[0] == "num":
                    return ("mask", {"none": "all", "all": "none", "some": "some"}[base[1]])
                if a == "all" and isinstance(base, tuple) and base[0] == "mask":
                    return base[1] == "all"
                if a == "any" and isinstance(base, tuple) and base[0] == "mask":
                    return base[1] in ("all", "some")
            raise Unsupported("call not modelled in the column conversion function: " + ast.unparse(e)[:60], e)
        raise Unsupported("expression not modelled in the column conversion function: " + ast.unparse(e)[:60], e)


def o24(ctx):
    m, fn = ctx.prog.func(RD)
    ctx.touched(RD)
    applies = [n for n in ast.walk(fn) if isinstance(n, ast.Call) and isinstance(n.func, ast.Attribute) and n.func.attr == "apply"
               and n.args]
    if len(applies) != 1:
        raise Unsupported("per-column conversion call (f.apply(...)) not found in Starfile.read", fn)
    ap = applies[0]
    target = ap.args[0]
    conv = None
    if isinstance(target, ast.Name) and ctx.prog.has(f"{RD}.{target.id}"):
        conv = ctx.prog.func(f"{RD}.{target.id}")
        ctx.touched(f"{RD}.{target.id}")
    elif ctx.prog.resolve(m, target) == "pandas.to_numeric":
        conv = None
    else:
        raise Unsupported("conversion function passed to apply not recognised", ap)
    want = {"numeric": ("num", "none"), "text": ("col", "text"), "mixed": ("col", "mixed")}
    for kind in ("numeric", "text", "mixed"):
        if conv is None:
            # plain pd.to_numeric: raises for text / mixed columns
            got = ("num", "none") if kind == "numeric" else "raises"
        else:
            try:
                got = ColEval(ctx.prog, conv[0], conv[1], kind).run()
            except ColEval.Raise:
                got = "raises"
        ctx.count(1, {"column kind": kind, "result": got})
        if got != want[kind]:
            ctx.finding(RD if conv is None else f"{RD}.{target.id}", conv[1] if conv else ap,
                        f"a {kind} column must come back as {'numbers' if kind == 'numeric' else 'the unchanged text column'}; "
                        f"the conversion yields {got}" + (" (text tokens silently become NaN)" if isinstance(got, tuple) and got[0] == "num" and kind != "numeric" else "")
                        + (" (values such as 2010.603132 come back as 2010.6031494: not equal after rounding to 6 decimals)" if isinstance(got, tuple) and "single" in got[0] else ""),
                        conv[1] if conv else ap, conv[0] if conv else m)
    # applied to every frame and stored back
    par = m.parents.get(ap)
    loop = par
    while loop is not None and not isinstance(loop, ast.For):
        loop = m.parents.get(loop)
    ctx.count(1)
    if not stored_back_over_list(fn, par, loop):
        ctx.finding(RD, ap, "the numeric conversion must be applied to every block and stored back (frames[i] = ...)", ap, m)
    # ... on every way out: no `return` hands out tables before the conversion has run (e.g. the one-block form read(path, data_id=k))
    from sa.dataflow import _own_nodes
    anchor = loop if loop is not None else par
    early = [r_ for r_ in _own_nodes(fn) if isinstance(r_, ast.Return) and r_.value is not None and r_.lineno < anchor.lineno
             and not (isinstance(r_.value, ast.Constant) and r_.value.value is None)]
    ctx.count(1, {"returns of Starfile.read before the conversion": len(early)})
    for r_ in early:
        ctx.finding(RD, r_, f"`{norm_text(r_)[:80]}` leaves Starfile.read before the per-column numeric conversion has run: the table(s) handed out on this path "
                    "hold every number as text ('3752' instead of 3752), while the same block read without this path is numeric", r_, m)
    # parse_rows: the table carries the parsed labels as columns even when it has no rows
    q = "starfileio.Token.parse_rows"
    mp, fp = ctx.prog.func(q)
    ctx.touched(q)
    ctors = [n for n in ast.walk(fp) if isinstance(n, ast.Call) and ctx.prog.resolve(mp, n.func) == "pandas.DataFrame"]
    if len(ctors) != 1:
        raise Unsupported("DataFrame construction in parse_rows not found", fp)
    cols = kwarg(ctors[0], "columns") or (ctors[0].args[2] if len(ctors[0].args) > 2 else None)
    param = fp.args.args[-1].arg
    ctx.count(1, {"parse_rows table": ast.unparse(ctors[0])[:80]})
    if cols is None or not (isinstance(cols, ast.Name) and cols.id == param):
        ctx.finding(q, ctors[0], f"the block table must be built with columns={param} (the parsed labels): a loop with labels but "
                    "no rows otherwise loses its columns", ctors[0], mp)
    data = ctors[0].args[0] if ctors[0].args else kwarg(ctors[0], "data")
    if not (isinstance(data, ast.Name)):
        raise Unsupported("data argument of the block table is not the collected row list", ctors[0])


def _obligations():
    return [
        Obligation("O2.5", "writer text: header parses into specifier / loop_ / labels in column order (numbered iff asked and not STOPGAP), a row's line reads back to its cells", o25, floor=200),
        Obligation("O2.6", "the reader followed on literal texts: tokens of every probe text, blocks / labels / rows / comments of every probe file, block selection, written text read back", o26, floor=230),
        Obligation("O2.1", "library calls on the read/write paths exist in the installed pandas with these keywords/options", o21, floor=3),
        Obligation("O2.2", "writer output templates are tokenised by the reader's constants into the expected token roles", o22, floor=8),
        Obligation("O2.3", "writer: tables rounded to float_precision (default 6) and stored back, block lists not permuted, rows taken by position", o23, floor=3),
        Obligation("O2.4", "reader: all-or-nothing numeric conversion per column on every block; empty block keeps labels", o24, floor=5),
    ]


def obligations():
    return _obligations() + [labels_obligation("C02"), selectors_obligation("C02"), mutations_obligation("C02"), loopstate_obligation("C02"), effects_obligation("C02"), plumbing_obligation("C02"), overrides_obligation("C02"), options_obligation("C02"), handlers_obligation("C02")]
