"""C19 -- chain tracing partitions particles into simple, distance-respecting chains (narrow claim)"""
from .common import *
from . import C05 as _c05
from . import C08 as _c08

TITLE = "Chain tracing partitions particles into simple, distance-respecting chains"
EXPLANATION = (
    "Narrow, structural claim. get_nn_dist is interpreted abstractly: the radius query must use max_distance and return the "
    "distances, candidates are restricted to the requested activity flag, then to distance > min_distance "
    "(strict: the statement's interval is (min, max]), index and distance are filtered by the same masks and the same element of "
    "both is returned (an admissible neighbour together with its own distance). add_chain_suffix is interpreted over "
    "symbolic tables: the order offset added to the appended chain must be the maximum order of the very chain whose "
    "object number the appended chain receives (key agreement on every path, including the tail-cut path); a cut-off tail keeps "
    "its order (old order numbers minus that of the particle hung behind, never numbers by table row position); in a connection "
    "on both ends the tail cut off by add_chain_suffix and the head cut off by add_chain_prefix get different object numbers. trace_chains "
    "(syntax-tree rules): trees, activity flags and the per-tomogram chain table are created inside the tomogram loop from "
    "that tomogram's subsets; a particle is appended only behind the 'still remaining' guard and both flags are cleared in "
    "the block that appends it; temporary re-activation is paired with de-activation; a finished chain takes the counter "
    "value and the counter is incremented unconditionally in the same block; the finished chain is concatenated into the "
    "tomogram's table on the end-of-chain path; the recorded distance is the one returned with the chosen neighbour; the "
    "forward search goes from the exit site of the current particle into the tree of entry sites.")
ASSUMPTIONS = TRUSTED + ["NOT decided: that the merge / prefix / tail-cut bookkeeping yields every particle exactly once with consecutive "
                         "order numbers for every spatial arrangement -- no sound static argument in reach; only the necessary "
                         "conditions above are checked"]

RB = "ribana."



def _nn_args(ctx, c):
    """arguments of a get_nn_dist call in the order of its signature (tree, point, max, min, flags, wanted flag), however the call
    spells them (by position or by keyword)"""
    from sa.plumbing import bind_call
    _, f = ctx.prog.func(RB + "get_nn_dist")
    bound, params, star = bind_call(c, f, False)
    out = [bound.get(p_) for p_ in params[:6]]
    if star or len(out) < 6 or any(x is None for x in out):
        raise Unsupported("call of get_nn_dist not bound to its six parameters", c)
    return out


def o191(ctx):
    q = RB + "get_nn_dist"
    m, fn = ctx.prog.func(q)
    ctx.touched(q)
    tree = Unk(sym("tree"))
    tree.is_tree = True
    tree.tree_space = Space("pts", how="root")
    tree.tree_data = None
    act = Val(sym("active"), space=tree.tree_space)
    pn = [a_.arg for a_ in fn.args.posonlyargs + fn.args.args]
    if len(pn) < 6 or len(pn) - len(fn.args.defaults) > 6:
        raise Unsupported("get_nn_dist: six required positional parameters expected", fn)
    if len(pn) > 6 or fn.args.kwonlyargs or fn.args.vararg or fn.args.kwarg:
        # a further input (candidates handed in by the caller, a cache) can replace the function's own radius query: where those candidates come from and
        # whether they belong to this query point is decided at the call sites, which this rule does not follow
        raise Unsupported(f"get_nn_dist takes further inputs ({', '.join(pn[6:]) or 'keyword / variadic'}): the candidates may come from elsewhere than its own radius query", fn)
    am = assume_map({f"{pn[3]} > 0": True, f"{pn[3]} >= 0": True})

    def assume(fn_, node_, av_, module_=None):
        # `<array>.size == 0` (no candidate left) is the early-return path; the rule is about the pair returned when there is one
        pol = empty_test_polarity(node_)  # any spelling of "is it empty": x.size == 0, not len(x), x.shape[0] < 1 ...
        if pol is not None:
            return not pol  # the arrays are not empty on the path the rule is about
        n_, neg_ = node_, False
        while isinstance(n_, ast.UnaryOp) and isinstance(n_.op, ast.Not):
            n_, neg_ = n_.operand, not neg_
        if isinstance(n_, ast.Call) and isinstance(n_.func, ast.Attribute) and n_.func.attr == "any" and not n_.args:
            return not neg_  # `mask.any()`: some candidate is admissible on the path the rule is about
        return am(fn_, node_, av_, module_)

    it = Interp(ctx.prog, assume=assume)
    r = it.run(q, [tree, Unk(sym("qp")), P("dist_max"), P("dist_min"), act, P("test_value")], {})
    qs = [e for e in it.events if e.kind == "call" and e.name == "method:query_radius"]
    if len(qs) != 1 or not (isinstance(r.ret, Seq) and len(r.ret.items) == 2):
        raise Unsupported("get_nn_dist structure not recognised", fn)
    ev = qs[0]
    rad = ev.kwargs.get("r", ev.args[2] if len(ev.args) > 2 else None)
    ctx.count(1, {"radius query": {k: tm.show(to_term(v)) for k, v in ev.kwargs.items()}, "radius": tm.show(to_term(rad)) if rad is not None else None})
    if rad is None or to_term(rad) != sym("dist_max"):
        ctx.finding(q, ev.node, "the candidate query must use max_distance as its radius", ev.node, m)
    # sort_results is NOT demanded: which admissible candidate becomes the successor is not part of the property (every link is tested against the
    # window on its own).  Until /repo 86ccbaf nearest-first happened to hide most of defect 26 (tails renumbered in table row order); with the tail
    # renumbered in chain order a tracer that takes another admissible candidate still yields a partition into chains with order numbers 1..k
    # (retired seed C19-zb: 17 000 random lists, none violated) -- a rule demanding the sort would alarm on code where the property holds.
    for kw in ("return_distance",):
        v = ev.kwargs.get(kw)
        ctx.count(1)
        if v is None or not (is_pyconst(v) and pyval(v) is True):
            ctx.finding(q, ev.node, f"the radius query must run with {kw}=True (every candidate with its own distance)", ev.node, m)
    QR = ev
    ids_t, dist_t = to_term(r.ret.items[0]), to_term(r.ret.items[1])

    def peel(t):
        """getitem(getitem(getitem(base, m1), m2), 0) -> (base, [m1, m2], 0)"""
        chain = []
        while t.op == "call" and t.args[0] == "getitem":
            chain.append(t.args[2])
            t = t.args[1]
        return t, chain[::-1]

    def conj(t):
        return [x for a_ in t.args for x in conj(a_)] if t.op == "and" else [t]

    def first_match(t):
        """the two spellings of 'the first element of <sorted result> that satisfies every filter':
             result[m1][m2][0]                   (m2 computed on the already filtered arrays)
             result[flatnonzero(m1 & m2)[0]]     (both masks on the unfiltered arrays)
           -> (result, [filters as predicates over the unfiltered result]) or None"""
        base, chain = peel(t)
        if len(chain) >= 2 and chain[-1].op == "call" and chain[-1].args[0] == "elem" and tm.cval(chain[-1].args[2]) == 0 \
                and chain[-1].args[1].op == "call" and chain[-1].args[1].args[0] == "where" and len(chain[-1].args[1].args) == 2:
            return (base, chain[:-1]), conj(chain[-1].args[1].args[1])
        if len(chain) >= 2 and tm.cval(chain[-1]) == 0:
            sel, masks, k_ = chain[:1], [], 1
            while k_ < len(chain) - 1:
                m_ = chain[k_]
                # a mask computed on arrays already filtered by the earlier masks: the same predicate on the unfiltered ones
                for prev in masks:
                    m_ = tm.subst(m_, {n: n.args[1] for n in tm.walk(m_) if n.op == "call" and n.args[0] == "getitem" and n.args[2] == prev})
                masks.append(chain[k_])
                sel.append(m_)
                k_ += 1
            preds = [x for m_ in sel[1:] for x in conj(m_)]
            return (base, sel[:1]), preds
        return None

    fi, fd = first_match(ids_t), first_match(dist_t)
    ctx.count(1, {"returned index": tm.show(ids_t)[:200]})
    ok = fi is not None and fd is not None and sorted(x.key() for x in fi[1]) == sorted(x.key() for x in fd[1]) and fi[1] \
        and all(tm.cval(x) == 0 for x in fi[0][1] + fd[0][1])
    if not ok and (fi is None or fd is None) and (tm.contains(ids_t, lambda n: n.op == "ite") or tm.contains(dist_t, lambda n: n.op == "ite")):
        raise Unsupported("get_nn_dist: the returned pair depends on a test the rule does not decide (several paths return different selections)", fn)
    if not ok:
        ctx.finding(q, "returned neighbour", "index and distance must be filtered by the same masks and element 0 of both returned "
                    "(the nearest admissible neighbour with its own distance)", fn, m, index=tm.show(ids_t)[:200], distance=tm.show(dist_t)[:200])
        return
    ctx.count(1)
    if not (tm.has_call(fi[0][0], ".query_radius") and not tm.has_call(fi[0][0], "unpack") or fi[0][0].args[-1:] == (const(0),)) \
            or not (fd[0][0].op == "call" and fd[0][0].args[0] == "unpack" and tm.cval(fd[0][0].args[2]) == 1):
        ctx.finding(q, "returned neighbour", "the index must come from the neighbour indices and the distance from the distances of the same "
                    "radius query", fn, m, index=tm.show(fi[0][0])[:120], distance=tm.show(fd[0][0])[:120])
    masks = fi[1]
    actm = [x for x in masks if tm.has_sym(x, "active") and not tm.has_sym(x, "dist_min")]
    dmin = [x for x in masks if tm.has_sym(x, "dist_min")]
    ctx.count(1, {"activity mask": tm.show(actm[0])[:120] if actm else None, "distance mask": tm.show(dmin[0])[:160] if dmin else None})
    looked_up = any(e.kind == "index" and to_term(e.args[0]) == sym("active") and tm.has_call(to_term(e.args[-1]), ".query_radius") for e in it.events)
    if len(actm) != 1 or actm[0].op != "eq" or actm[0].args[1] != sym("test_value") or not looked_up:
        ctx.finding(q, "activity filter", "candidates must be restricted to points whose activity flag equals the requested value "
                    "(flags looked up at the candidate indices)", fn, m)
    # the lower bound is open for EVERY min_distance >= 0: with min_distance = 0 a site at distance exactly 0 (an exit site lying on another
    # particle's entry site: integer coordinates) is not in (0, max] either -- the filter may not be switched off for min_distance == 0
    am0 = assume_map({f"{pn[3]} > 0": False, f"{pn[3]} >= 0": True})

    def assume0(fn_, node_, av_, module_=None):
        pol = empty_test_polarity(node_)
        if pol is not None:
            return not pol
        n_, neg_ = node_, False
        while isinstance(n_, ast.UnaryOp) and isinstance(n_.op, ast.Not):
            n_, neg_ = n_.operand, not neg_
        if isinstance(n_, ast.Call) and isinstance(n_.func, ast.Attribute) and n_.func.attr == "any" and not n_.args:
            return not neg_
        return am0(fn_, node_, av_, module_)

    it0 = Interp(ctx.prog, assume=assume0)
    r0 = it0.run(q, [tree, Unk(sym("qp")), P("dist_max"), P("dist_min"), act, P("test_value")], {})
    ctx.count(1, {"min_distance == 0 path consulted": bool(getattr(am0, "used", True))})
    if getattr(am0, "used", None) and isinstance(r0.ret, Seq) and len(r0.ret.items) == 2:
        t0 = to_term(r0.ret.items[0])
        strict0 = tm.contains(t0, lambda n: n.op in ("lt", "gt") and (tm.has_sym(n, "dist_min") or any(tm.cval(a_) == 0 for a_ in n.args)) and tm.has_call(n, ".query_radius"))
        if not strict0:
            ctx.finding(q, "minimum-distance filter for min_distance = 0", "the strict lower bound is applied only when min_distance > 0: with min_distance = 0 a neighbour at "
                        "distance exactly 0 (an exit site that coincides with another particle's entry site) is linked, and 0 is not in (0, max_distance]", fn, m,
                        returned=tm.show(t0)[:160])
    if len(dmin) != 1 or dmin[0].op != "lt" or dmin[0].args[0] != sym("dist_min") or not tm.has_call(dmin[0].args[1], ".query_radius"):
        ctx.finding(q, "minimum-distance filter", "admissible neighbours must be strictly farther than min_distance (distance > "
                    "min_distance: the interval is (min_distance, max_distance])", fn, m, extracted=tm.show(dmin[0])[:160] if dmin else None)


def opf(name, prefix):
    f = Frame(name=name, open_=True, prefix=prefix)
    f.space = Space(name, how="root")
    return f


def o192(ctx):
    q = RB + "add_chain_suffix"
    m, fn = ctx.prog.func(q)
    ctx.touched(q)
    for cut in (False, True):
        it = Interp(ctx.prog, assume=assume_map({"chain_max_order != order_id": cut, "previous_dist <= current_dist": False}))
        chain, traced = opf("chain_df", "ch:"), opf("traced_df", "tr:")
        motl = Obj("cryomotl.Motl", {"df": opf("mdf", "m:")})
        it.run(q, [chain, motl, traced, P("subtomo_pos"), P("current_dist")], {})
        label = "tail of the existing chain cut off" if cut else "appending behind the last particle"
        cls = chain.cols.get("object_id")
        off = chain.cols.get("geom2")
        ctx.count(1, {"path": label, "class assigned": tm.show(cls)[:100] if cls is not None else None})
        if cls is None or off is None or "object_id" not in chain.written or "geom2" not in chain.written:
            raise Unsupported("add_chain_suffix does not set class and order of the appended chain", fn)
        if off.op != "add" or off.args[0] != sym("ch:geom2"):
            ctx.finding(q, last_store(it, chain, "geom2") or fn, f"{label}: the appended chain's order numbers must be shifted by an offset",
                        last_store(it, chain, "geom2") or fn, m)
            continue
        offset = off.args[1]
        # the order number of the particle the chain is hung behind IS the maximum of what is left of the existing chain: on the append path by the
        # branch condition (chain_max_order == order_id), on the cut path because the tail holds exactly the rows with a greater order number
        anchor_ = call("rowelem", mk("sel", sym("tr:geom2"), mk("eq", sym("tr:subtomo_id"), sym("m:subtomo_id"))), const(0))
        if offset == anchor_:
            ctx.count(2, {"path": label, "offset": "order number of the particle hung behind"})
        elif not tm.has_call(offset, "reduce:max") and not tm.contains(offset, lambda n: n.op == "call" and "max" in str(n.args[0])):
            ctx.finding(q, last_store(it, chain, "geom2") or fn, f"{label}: the offset must be the maximum order number of the chain appended to",
                        last_store(it, chain, "geom2") or fn, m)
            continue
        # outermost selection of the max: the rows whose (current) class equals the class the appended chain receives
        sels = [n for n in tm.walk(offset) if n.op == "sel"]
        top = sels[0] if sels else None
        if offset != anchor_:
            ctx.count(1, {"path": label, "offset key": tm.show(top.args[1])[-120:] if top is not None else None})
        ok = offset == anchor_ or (top is not None and len(top.args) == 2 and top.args[1].op == "eq" and top.args[1].args[1] == cls)
        if not ok:
            node = last_store(it, chain, "geom2") or fn
            key = tm.show(top.args[1].args[1])[:80] if top is not None and top.args[1].op == "eq" else None
            ctx.finding(q, "order offset of the appended chain", f"{label}: the order offset must be the maximum order of the chain whose object "
                        f"number the appended chain receives ({tm.show(cls)[:60]}); the code takes the maximum over the chain keyed by {key}: "
                        "the order numbers of the merged chain get a gap or overlap", node, m)
        w = traced.written
        ctx.count(1)
        if "geom4" not in w:
            ctx.finding(q, fn, f"{label}: the link distance must be recorded on the particle the chain is appended to", fn, m)
        else:
            # ... unconditionally: whatever the slot held before (the distance of a link that was cut, or of a head cut off earlier) is replaced
            dst = [e for e in it.events if e.kind == "store" and e.fn == q and e.extra.get("frame") is traced and e.extra.get("names") == ["geom4"]]
            extra_g = [g_ for e in dst for g_ in e.guards if not (g_.op == "call" and g_.args[0] == "in_loop") and (tm.has_sym(g_, "tr:geom4") or tm.has_sym(g_, "current_dist"))]
            val_ok = dst and all(to_term(e.args[2]) == sym("current_dist") for e in dst)
            ctx.count(1, {"path": label, "distance stores": len(dst), "conditions on the old value": [tm.show(g_)[:60] for g_ in extra_g]})
            if extra_g or not val_ok:
                ctx.finding(q, dst[0].node if dst else fn, f"{label}: the distance of the new link is written only under a condition on what the slot held "
                            f"before ({tm.show(extra_g[0])[:80] if extra_g else 'another value is written'}): after a tail cut the slot still holds the distance "
                            "of the link that was cut, and the new link keeps that stale distance", dst[0].node if dst else fn, m)
        if cut:
            # the tail that is cut off starts *after* the particle the new chain is appended to: order > that particle's order (strict)
            relabel = [e for e in it.events if e.kind == "store" and e.extra.get("frame") is traced and e.extra.get("mask") is not None
                       and "object_id" in tm.show(to_term(e.args[1]))]
            ctx.count(1)
            if not relabel:
                raise Unsupported("tail relabelling store of add_chain_suffix not recognised", fn)
            mk_ = relabel[0].extra["mask"]
            cmps = [n for n in tm.walk(mk_) if n.op in ("lt", "le") and any(tm.has_sym(a, "tr:geom2") for a in n.args)
                    and tm.contains(n, lambda x: x.op == "call" and str(x.args[0]) == "rowelem")]
            strict = [n for n in cmps if n.op == "lt" and n.args[1] == sym("tr:geom2")]
            if not strict or len(cmps) != len(strict):
                ctx.finding(q, relabel[0].node, "the cut-off tail must hold the particles whose order number is greater than that of the particle the new "
                            "chain is appended to (strictly): with >= that particle itself moves into the tail, the chain is attached to its "
                            "predecessor and its own link distance is overwritten", relabel[0].node, m, mask=tm.show(mk_)[:200])


def o194(ctx):
    """add_chain_prefix: whenever the chain is merged (no early return), the link distance is recorded on the new chain's last particle"""
    q = RB + "add_chain_prefix"
    m, fn = ctx.prog.func(q)
    ctx.touched(q)
    for cm_none in (True, False):
        for first in (True, False):
            it = Interp(ctx.prog, assume=assume_map({"class_max is None": cm_none, "order_id != 1": not first, "previous_dist <= current_dist": False}))
            chain, traced = opf("chain_df", "ch:"), opf("traced_df", "tr:")
            motl = Obj("cryomotl.Motl", {"df": opf("mdf", "m:")})
            cmax = K(None) if cm_none else Seq([P("cmax0"), P("cmax1")], "list")
            try:
                it.run(q, [chain, motl, traced, P("subtomo_pos"), P("current_dist")], {"class_max": cmax})
            except Unsupported:
                raise
            label = f"{'only a prefix' if cm_none else 'suffix and prefix'}, closest particle {'is' if first else 'is not'} the first of its chain"
            dist = chain.cols.get("geom4")
            ctx.count(1, {"path": label, "distance stored on the new chain": tm.show(dist)[:80] if dist is not None else None})
            if "geom4" not in chain.written or dist is None or not tm.has_sym(dist, "current_dist"):
                ctx.finding(q, label, f"{label}: the distance of the new link must be recorded on the last particle of the chain that is put in "
                            "front (on every merging path)", fn, m)
            # the order numbers of the old chain are shifted while its rows still carry the number they are selected by: a shift that comes after the
            # re-labelling (`object_id == old number` evaluated on the re-labelled column) selects no row, and the chain put behind keeps 1, 2, 3 ...
            ev_ = [e for e in it.events if e.kind == "store" and e.name == "columns" and e.fn == q and e.extra.get("frame") is traced]
            shifts = [(i_, e) for i_, e in enumerate(ev_) if e.extra.get("names") == ["geom2"] and e.extra.get("mask") is not None]
            ctx.count(1, {"path": label, "order-number shifts": len(shifts)})
            for i_, e in shifts:
                mk_ = e.extra["mask"]
                olds = [n.args[1] for n in tm.walk(mk_) if n.op == "eq" and n.args[1].op == "call" and n.args[1].args[0] == "elem"
                        and tm.has_sym(n.args[1], "tr:object_id")]
                for j_, e2 in enumerate(ev_[:i_]):
                    if e2.extra.get("names") != ["object_id"] or e2.extra.get("mask") is None:
                        continue
                    v2 = to_term(e2.args[2])
                    m2_ = e2.extra["mask"]
                    whole = not any(c_.op in ("lt", "le") for c_ in tm.walk(m2_) if c_.op in ("lt", "le") and c_.args[0] == sym("tr:geom2")) or j_ > 0
                    if olds and tm.cval(v2) is None and whole and tm.contains(mk_, lambda n, v2=v2: n == v2):
                        ctx.finding(q, e.node, f"{label}: the order numbers of the chain that is put behind are shifted (`{norm_text(e.node)[:70]}`) after its rows were "
                                    f"re-labelled (`{norm_text(e2.node)[:70]}`): the selection by the old object number then matches no row, the chain keeps its "
                                    "order numbers 1, 2, ... and the merged object carries every one of them twice", e.node, m)
                        break
            if cm_none:
                # object numbers after a plain prefix: the new chain and the part of the old chain it is put in front of carry ONE number, and a
                # head that is cut off the old chain (closest particle not its first) carries ANOTHER one
                st_ = [e for e in it.events if e.kind == "store" and e.name == "columns" and e.fn == q and e.extra.get("names") == ["object_id"]]
                cls_old = traced.col("object_id") if False else None
                v_chain = chain.cols.get("object_id")
                def conj_(t_):
                    return [x for a_ in t_.args for x in conj_(a_)] if t_.op == "and" else [t_]
                head = [e for e in st_ if e.extra.get("frame") is traced and e.extra.get("mask") is not None
                        and any(c_.op in ("lt", "le") and c_.args[0] == sym("tr:geom2") for c_ in conj_(e.extra["mask"]))]
                rest = [e for e in st_ if e.extra.get("frame") is traced and e not in head]
                # the old chain's number: what the rows of the closest particle's chain are selected by
                sel_cls = None
                for e in st_ + [e for e in it.events if e.kind == "store" and e.name == "columns" and e.fn == q and e.extra.get("frame") is traced]:
                    mk_ = e.extra.get("mask")
                    if mk_ is None:
                        continue
                    for n in tm.walk(mk_):
                        if n.op == "eq" and n.args[0] == sym("tr:object_id") and sel_cls is None:
                            sel_cls = n.args[1]
                if sel_cls is None or v_chain is None:
                    raise Unsupported("add_chain_prefix: object number of the old chain / the new chain not recognised", fn)
                # every row of the new chain's table carries the chain's own number: its first element and the column are the same number
                one = lambda t_: tm.subst(t_, {n: n.args[1] for n in tm.walk(t_) if n.op == "call" and n.args[0] == "elem" and n.args[1] == sym("ch:object_id")})
                v_rest = one(to_term(rest[-1].args[2]) if rest else sel_cls)
                v_chain = one(v_chain)
                ctx.count(1, {"path": label, "number of the new chain": tm.show(v_chain)[:60], "number of the old chain's remaining part": tm.show(v_rest)[:60],
                              "number of a cut-off head": tm.show(to_term(head[-1].args[2]))[:60] if head else None})
                if v_chain != v_rest:
                    ctx.finding(q, label, f"{label}: the new chain and the chain it is put in front of must end up with one object number "
                                f"(new chain: {tm.show(v_chain)[:60]}, old chain: {tm.show(v_rest)[:60]})", fn, m)
                if not first and head and one(to_term(head[-1].args[2])) == v_rest:
                    ctx.finding(q, head[-1].node, f"{label}: the head cut off the old chain gets the same object number as the merged chain "
                                f"({tm.show(v_rest)[:60]}): head, new chain and the rest of the old chain are then one object with repeated order numbers",
                                head[-1].node, m)


def block_of(mod, node):
    p = mod.parents.get(node)
    for fld in ("body", "orelse", "finalbody"):
        b = getattr(p, fld, None)
        if isinstance(b, list) and node in b:
            return b
    return None


def _has_concat(prog, m, node):
    return any(isinstance(x, ast.Call) and prog.resolve(m, x.func) == "pandas.concat" for x in ast.walk(node))


def o193(ctx):
    q = RB + "trace_chains"
    m, fn = ctx.prog.func(q)
    ctx.touched(q)
    src = lambda n: " ".join(ast.unparse(n).split())
    # (a) per-tomogram construction
    floops = [n for n in ast.walk(fn) if isinstance(n, ast.For) and any(isinstance(c, ast.Call) and isinstance(c.func, ast.Attribute)
                                                                       and c.func.attr == "get_motl_subset" for s in n.body for c in ast.walk(s))]
    if len(floops) != 1:
        raise Unsupported("tomogram loop of trace_chains not recognised", fn)
    fl = floops[0]
    fvar = fl.target.id if isinstance(fl.target, ast.Name) else None
    top = {t.id: st for st in fl.body if isinstance(st, ast.Assign) for t in st.targets if isinstance(t, ast.Name)}
    ctx.count(1, {"per-tomogram state": sorted(top)})
    subsets = {k: v for k, v in top.items() if isinstance(v.value, ast.Call) and isinstance(v.value.func, ast.Attribute) and v.value.func.attr == "get_motl_subset"}
    for k, st in subsets.items():
        a0 = st.value.args[0] if st.value.args else None
        if not (isinstance(a0, ast.Name) and a0.id == fvar):
            ctx.finding(q, st, "each subset must be selected for the tomogram of the current iteration", st, m)
    coords = {k: v for k, v in top.items() if isinstance(v.value, ast.Call) and isinstance(v.value.func, ast.Attribute) and v.value.func.attr == "get_coordinates"
              and isinstance(v.value.func.value, ast.Name) and v.value.func.value.id in subsets}
    trees = {k: v for k, v in top.items() if isinstance(v.value, ast.Call) and src(v.value.func).endswith("KDTree") and v.value.args
             and isinstance(v.value.args[0], ast.Name) and v.value.args[0].id in coords}
    flags = {k: v for k, v in top.items() if isinstance(v.value, ast.Call) and (ctx.prog.resolve(m, v.value.func) or "") in ("numpy.full", "numpy.ones") and "True" in src(v.value)}
    tables = {k: v for k, v in top.items() if "create_empty_motl_df" in src(v.value)}
    ctx.count(4, {"subsets": sorted(subsets), "coordinates": sorted(coords), "trees": sorted(trees), "flags": sorted(flags), "tables": sorted(tables)})
    if len(subsets) != 2 or len(coords) != 2 or len(trees) != 2 or len(flags) != 2 or not tables:
        ctx.finding(q, fl, "entry/exit subsets, their coordinates, both KD-trees, both activity flag arrays and the chain table must be "
                    "created per tomogram inside the tomogram loop (chains never span tomograms)", fl, m)
        return
    cat = [st for st in fl.body if isinstance(st, ast.Assign) and _has_concat(ctx.prog, m, st.value) and any(t in src(st.value) for t in tables)]
    # or: the tomogram's table is appended to a list of parts that is concatenated after the loop
    after = fn.body[fn.body.index(fl) + 1:] if fl in fn.body else []
    for st in fl.body:
        if isinstance(st, ast.Expr) and isinstance(st.value, ast.Call) and isinstance(st.value.func, ast.Attribute) and st.value.func.attr == "append" \
                and isinstance(st.value.func.value, ast.Name) and len(st.value.args) == 1 and src(st.value.args[0]) in tables:
            parts_ = st.value.func.value.id
            if any(isinstance(x, ast.Call) and ctx.prog.resolve(m, x.func) == "pandas.concat" and x.args and src(x.args[0]) == parts_
                   for a_ in after for x in ast.walk(a_)):
                cat.append(st)
    ctx.count(1)
    if len(cat) != 1:
        ctx.finding(q, fl, "the tomogram's chains must be concatenated into the result once per tomogram", fl, m)

    def own_loop(n_):
        p_ = m.parents.get(n_)
        while p_ is not None and not isinstance(p_, (ast.For, ast.While)):
            p_ = m.parents.get(p_)
        return p_

    skips = [n_ for n_ in ast.walk(fl) if isinstance(n_, (ast.Continue, ast.Break)) and own_loop(n_) is fl]
    ctx.count(1)
    if skips:
        ctx.finding(q, skips[0], "an iteration of the tomogram loop is abandoned (continue / break) before its particles reach the result: every "
                    "particle of every tomogram must be returned exactly once, also the single particle of a one-particle tomogram", skips[0], m)
    # (b) append + flags cleared in the same block, behind the remaining-guard
    appends = [n for n in ast.walk(fl) if isinstance(n, ast.Assign) and _has_concat(ctx.prog, m, n.value) and ".iloc[[" in src(n.value)]
    if len(appends) != 1:
        raise Unsupported("chain append statement not recognised", fl)
    ap = appends[0]
    blk = block_of(m, ap)
    idx_name = src(ap.value).split(".iloc[[")[1].split("]]")[0]
    cleared = [src(s) for s in blk if isinstance(s, ast.Assign) and src(s).endswith("= False") and f"[{idx_name}]" in src(s)]
    ctx.count(1, {"append": src(ap)[:80], "flags cleared in the same block": cleared})
    # the flags may be flipped through a helper that stores into both arrays handed to it: followed when the helper's body is `p[i] = s` for each of the
    # two parameters the flag arrays are bound to, with the state parameter given as False here
    if len(cleared) != 2:
        from sa import dataflow as _df
        from sa.plumbing import bind_call as _bind
        for s_ in blk:
            c_ = s_.value if isinstance(s_, ast.Expr) and isinstance(s_.value, ast.Call) else None
            d_ = ctx.prog.resolve(m, c_.func) if c_ is not None else None
            t_ = ctx.prog.repo_qual(d_) if d_ else None
            if t_ is None:
                continue
            _, hf = ctx.prog.func(t_)
            bound, _, _ = _bind(c_, hf, False)
            stores = {}
            for a_ in ast.walk(hf):
                if isinstance(a_, ast.Assign) and len(a_.targets) == 1 and isinstance(a_.targets[0], ast.Subscript) and isinstance(a_.targets[0].value, ast.Name) \
                        and isinstance(a_.targets[0].slice, ast.Name) and isinstance(a_.value, ast.Name):
                    stores[a_.targets[0].value.id] = (a_.targets[0].slice.id, a_.value.id)
            for p_, (ip_, sp_) in stores.items():
                arg, ia, sa_ = bound.get(p_), bound.get(ip_), bound.get(sp_)
                if isinstance(arg, ast.Name) and arg.id in flags and ia is not None and src(ia) == idx_name and isinstance(sa_, ast.Constant) and sa_.value is False:
                    cleared.append(f"{arg.id}[{idx_name}] = False")
    if len(cleared) != 2 or not all(any(c.startswith(f"{fl_}[") for c in cleared) for fl_ in flags):
        ctx.finding(q, ap, "the block that appends a particle to the chain must clear both of its 'remaining' flags (entry and exit): "
                    "otherwise it can be appended again", ap, m)
    ploop = [n for n in ast.walk(fl) if isinstance(n, ast.For) and n is not fl and ap in list(ast.walk(n))]
    ctx.count(1)
    guard_ok = False
    if ploop:
        first = ploop[0].body[0]
        if isinstance(first, ast.If) and any(f in src(first.test) for f in flags):
            # polarity of the test w.r.t. the flag: every `~` / `not` flips it; the chain is built in the arm that runs when the flag is set
            neg = sum(1 for x in ast.walk(first.test) if isinstance(x, ast.UnaryOp) and isinstance(x.op, (ast.Invert, ast.Not))) % 2 == 1
            start_arm = first.orelse if neg else first.body
            skip_arm = first.body if neg else first.orelse
            in_start = any(ap in list(ast.walk(s_)) for s_ in start_arm)
            after = not start_arm and skip_arm and isinstance(skip_arm[-1], ast.Continue)  # if <flag unset>: continue ; <chain code follows>
            skips = (not skip_arm) or isinstance(skip_arm[-1], ast.Continue) or not any(ap in list(ast.walk(s_)) for s_ in skip_arm)
            guard_ok = (in_start or after) and skips
    if not guard_ok:
        ctx.finding(q, ploop[0] if ploop else fl, "a chain may only be started from a particle whose 'remaining' flag is still set", ploop[0] if ploop else fl, m)
    # (c) temporary re-activation paired with de-activation in the same block
    react = [n for n in ast.walk(fl) if isinstance(n, ast.Assign) and isinstance(n.value, ast.Constant) and n.value.value is True
             and isinstance(n.targets[0], ast.Subscript) and src(n.targets[0].value) in flags and isinstance(n.targets[0].slice, ast.Name)]
    ctx.count(1, {"temporary re-activation": [src(r)[:40] for r in react]})
    for r_ in react:
        b = block_of(m, r_)
        tgt = src(r_.targets[0])
        later = [s for s in b[b.index(r_) + 1:] if isinstance(s, ast.Assign) and src(s.targets[0]) == tgt and src(s).endswith("= False")]
        if not later:
            ctx.finding(q, r_, f"the temporary re-activation {tgt} = True must be undone in the same block", r_, m)
    # (d) finished chain: class from the counter, counter incremented unconditionally, chain concatenated
    def _is_col_assign(n):
        t = n.targets[0]
        return (isinstance(n.value, ast.Name) and isinstance(t, ast.Subscript) and isinstance(t.value, ast.Attribute) and t.value.attr == "loc"
                and isinstance(t.value.value, ast.Name) and isinstance(t.slice, ast.Tuple) and len(t.slice.elts) == 2
                and isinstance(t.slice.elts[0], ast.Slice) and src(t.slice.elts[1]) == "store_idx1")

    cls_assign = [n for n in ast.walk(fl) if isinstance(n, ast.Assign) and _is_col_assign(n)]
    if len(cls_assign) != 1:
        raise Unsupported("object-number assignment of the finished chain not recognised", fl)
    ca = cls_assign[0]
    chain_tbl = ca.targets[0].value.value.id
    counter = ca.value.id
    b = block_of(m, ca)
    after = b[b.index(ca) + 1:]
    inc = [s for s in after if isinstance(s, ast.AugAssign) and isinstance(s.target, ast.Name) and s.target.id == counter and isinstance(s.op, ast.Add)
           and isinstance(s.value, ast.Constant) and s.value.value == 1] + \
          [s for s in after if isinstance(s, ast.Assign) and len(s.targets) == 1 and isinstance(s.targets[0], ast.Name) and s.targets[0].id == counter
           and isinstance(s.value, ast.BinOp) and isinstance(s.value.op, ast.Add)
           and {src(s.value.left), src(s.value.right)} == {counter, "1"}]
    ctx.count(1, {"counter": counter, "unconditional increment in the same block": bool(inc)})
    if not inc:
        ctx.finding(q, ca, f"every finished chain must consume a fresh object number: {counter} must be incremented unconditionally in the block "
                    "that assigns it (a conditional increment lets two chains share a number)", ca, m)
    fin = [s for s in b if isinstance(s, ast.Assign) and _has_concat(ctx.prog, m, s.value) and chain_tbl in {x.id for x in ast.walk(s.value) if isinstance(x, ast.Name)} and any(t in src(s.value) for t in tables)]
    ctx.count(1)
    if len(fin) != 1:
        ctx.finding(q, ca, "the finished chain must be concatenated into the tomogram's chain table on the end-of-chain path", ca, m)
    # (e) forward search: exit site of the current particle against the tree of entry sites, flags of the entry list, distance recorded
    calls = [n for n in ast.walk(fl) if isinstance(n, ast.Call) and src(n.func) == "get_nn_dist"]
    A = lambda c_: _nn_args(ctx, c_)
    fwd = [c for c in calls if isinstance(A(c)[-1], ast.Constant) and A(c)[-1].value is True]
    ctx.count(1, {"forward search": src(fwd[0])[:120] if fwd else None})
    if len(fwd) != 1:
        raise Unsupported("forward neighbour search not recognised", fl)
    c = fwd[0]
    tree_arg, pt_arg = src(A(c)[0]), src(A(c)[1])
    entry_tree = [k for k, v in trees.items() if "entry" in src(v.value.args[0])]
    okf = tree_arg in entry_tree and src(A(c)[2]) == "max_distance" and src(A(c)[3]) == "min_distance" and "entry" in src(A(c)[4])
    pdef = [n for n in ast.walk(fl) if isinstance(n, ast.Assign) and src(n.targets[0]) == pt_arg]
    okf = okf and pdef and "exit" in src(pdef[0].value) and idx_name in src(pdef[0].value)
    if not okf:
        ctx.finding(q, c, "the next particle must be searched from the exit site of the current particle in the tree of entry sites, among the "
                    "still remaining entries, with (max_distance, min_distance)", c, m)
    par = m.parents.get(c)
    ctx.count(1)
    okd = isinstance(par, ast.Assign) and isinstance(par.targets[0], ast.Tuple) and len(par.targets[0].elts) == 2
    if okd:
        i_name, d_name = (e.id for e in par.targets[0].elts)
        rec = [n for n in ast.walk(fl) if isinstance(n, ast.Assign) and "store_dist" in src(n.targets[0]) and isinstance(n.value, ast.Name) and n.value.id == d_name]
        nxt = [n for n in ast.walk(fl) if isinstance(n, ast.Assign) and src(n.targets[0]) == idx_name and isinstance(n.value, ast.Name) and n.value.id == i_name]
        okd = len(rec) == 1 and len(nxt) == 1 and block_of(m, rec[0]) is block_of(m, nxt[0])
    if not okd:
        ctx.finding(q, c, "the distance recorded for the former particle must be the one returned together with the chosen next particle", c, m)
    else:
        # the successor comes from the window search and from nowhere else: every other assignment to it is the "no successor" marker
        for n in ast.walk(fl):
            if n is par or not isinstance(n, (ast.Assign, ast.AugAssign, ast.AnnAssign)):
                continue
            tg_ = n.targets if isinstance(n, ast.Assign) else [n.target]
            if not any(isinstance(x, ast.Name) and x.id == i_name and isinstance(x.ctx, ast.Store) for t_ in tg_ for x in ast.walk(t_)):
                continue
            ctx.count(1)
            v_ = getattr(n, "value", None)
            marker = isinstance(n, ast.Assign) and len(tg_) == 1 and isinstance(tg_[0], ast.Name) and (
                (isinstance(v_, ast.UnaryOp) and isinstance(v_.op, ast.USub) and isinstance(v_.operand, ast.Constant) and v_.operand.value == 1)
                or (isinstance(v_, ast.Constant) and v_.value in (-1, None)))
            if not marker:
                ctx.finding(q, n, f"the next particle of a chain (`{i_name}`) is also chosen by `{src(n)[:80]}`, not by the search that applies the "
                            "window (get_nn_dist with max_distance, min_distance and the remaining flags): a successor found another way is not "
                            "tested against (min_distance, max_distance]", n, m)
    # the distance field of a chain row is written by the forward step (with the distance of the chosen link) and by the connection helpers
    # only: any other store into it (a reset, a default) can wipe the distance of a link that exists
    dist_param = next((a_.arg for a_ in fn.args.args + fn.args.kwonlyargs if a_.arg == "store_dist"), None)
    if dist_param is not None and okd:
        others = [n for n in ast.walk(fn) if isinstance(n, (ast.Assign, ast.AugAssign))
                  and any(dist_param in {x.id for x in ast.walk(t_) if isinstance(x, ast.Name)} for t_ in (n.targets if isinstance(n, ast.Assign) else [n.target]))
                  and n not in rec]
        conn = [x.lineno for x in ast.walk(fn) if isinstance(x, ast.Call) and src(x.func).split(".")[-1] in ("add_chain_suffix", "add_chain_prefix")]
        if not conn:
            raise Unsupported("connection step (add_chain_suffix / add_chain_prefix) of trace_chains not found", fn)
        # a reset when a chain is started (before any link exists) changes nothing a link has recorded; after the connection step it does
        others = [n for n in others if n.lineno > min(conn)]
        ctx.count(1, {"stores into the distance field in trace_chains": 1 + len(others)})
        for n in others:
            ctx.finding(q, n, f"trace_chains writes the distance field of a chain row a second time (`{src(n)[:70]}`): the field holds the distance of "
                        "the link to the next particle of the chain; after the chain has been put in front of / behind another one by the connection "
                        "step its last row does have a successor, and the recorded distance of that link is lost", n, m)
    # (g) the window is the caller's: the threshold parameters reach the searches as given (a conversion of the same value apart)
    own_nodes = [n for n in ast.walk(fn)]
    for p_ in ("max_distance", "min_distance"):
        if p_ not in [a_.arg for a_ in fn.args.args + fn.args.kwonlyargs]:
            continue
        for n in own_nodes:
            tg = n.targets if isinstance(n, ast.Assign) else [n.target] if isinstance(n, (ast.AugAssign, ast.AnnAssign)) else []
            if not any(isinstance(x, ast.Name) and x.id == p_ for t_ in tg for x in ast.walk(t_) if isinstance(x.ctx if hasattr(x, "ctx") else None, ast.Store)):
                continue
            ctx.count(1)
            v_ = getattr(n, "value", None)
            conv = isinstance(n, ast.Assign) and isinstance(v_, ast.Call) and len(v_.args) == 1 and not v_.keywords and isinstance(v_.args[0], ast.Name) \
                and v_.args[0].id == p_ and (ctx.prog.resolve(m, v_.func) or src(v_.func)) in ("builtins.float", "float", "numpy.float64", "numpy.float32", "numpy.double")
            if not conv and isinstance(n, ast.Assign):
                # `def f(p=None)` ... `if p is None: p = <the pinned default>`: the caller's value is kept, only "not given" is resolved
                from sa import plumbing as _pl
                from .defaults_baseline import DEFAULTS as _D
                par_ = m.parents.get(n)
                was_ = _D.get(q, {}).get(p_)
                if isinstance(par_, ast.If) and par_ in fn.body and _pl.filled_default(fn, p_) is not None and was_ is not None \
                        and _pl.filled_default(fn, p_) == was_ and src(n.value) == was_ and _pl.defaults_of(fn).get(p_) == "None":
                    conv = True
            if not conv:
                ctx.finding(q, n, f"trace_chains replaces the caller's `{p_}` (`{src(n)[:80]}`): two particles may be linked only if their sites are "
                            "within (min_distance, max_distance] as the caller gave them; an empty window links nothing", n, m)
    # (h) rows enter the result through the tomogram loop only (where object number, order number and link distance are written): the result
    #     table is started empty, extended once per tomogram and wrapped after the loop
    res_names = {t_.id for c_ in cat if isinstance(c_, ast.Assign) for t_ in c_.targets if isinstance(t_, ast.Name)}
    for rn in sorted(res_names):
        for n in fn.body:
            if n is fl:
                break
            for x in ast.walk(n):
                if isinstance(x, ast.Assign) and any(isinstance(t_, ast.Name) and t_.id == rn for t_ in x.targets):
                    ctx.count(1)
                    if "create_empty_motl_df" in src(x.value) or src(x.value) in ("pd.DataFrame()", "pandas.DataFrame()"):
                        continue
                    fields = [f_ for f_ in ("store_idx1", "store_idx2", "store_dist")
                              if not any(isinstance(y, ast.Assign) and any(isinstance(t_, ast.Subscript) and f_ in src(t_.slice) and src(t_.value) == rn for t_ in y.targets)
                                         for z in fn.body[:fn.body.index(fl)] for y in ast.walk(z))]
                    if fields:
                        ctx.finding(q, x, f"rows are put into the result before the tomogram loop (`{src(x)[:80]}`) without writing {', '.join(fields)}: every "
                                    "particle of the result carries the object number of its chain, its order number 1..k within the chain and the distance "
                                    "of its link; a shortcut has to write all three", x, m)
                    else:
                        raise Unsupported("rows are put into the result outside the tomogram loop", x)
    # (f) connection of a finished chain to existing ones: the chain's *first* particle (entry site) is looked up among the exit sites,
    #     the chain's *last* particle (exit site) among the entry sites
    back = [c_ for c_ in calls if isinstance(A(c_)[-1], ast.Constant) and A(c_)[-1].value is False]
    exit_tree = [k for k, v in trees.items() if "exit" in src(v.value.args[0])]
    ctx.count(1, {"connection searches": [src(b_)[:80] for b_ in back]})
    heads = [b_ for b_ in back if src(A(b_)[0]) in exit_tree]
    tails = [b_ for b_ in back if src(A(b_)[0]) in entry_tree]
    if len(heads) != 1 or len(tails) != 1:
        raise Unsupported("connection searches (one per tree, last argument False) not recognised", fl)
    hp = src(A(heads[0])[1])
    hdefs = [n for n in ast.walk(fl) if isinstance(n, ast.Assign) and src(n.targets[0]) == hp]

    def refers_first(n_):
        """row 0 of the chain table (<chain>.index[0] / .iloc[0]) or element 0 of the list of used indices"""
        for x in ast.walk(n_):
            if isinstance(x, ast.Subscript) and isinstance(x.slice, ast.Constant) and x.slice.value == 0:
                return True
        return False

    roots = set()
    todo = list(hdefs)
    seen_ = set()
    while todo:
        d_ = todo.pop()
        if id(d_) in seen_:
            continue
        seen_.add(id(d_))
        roots.add(d_)
        for x in ast.walk(d_.value):
            if isinstance(x, ast.Name) and x.id == hp:
                continue
    ctx.count(1)
    uses_current = any(isinstance(x, ast.Name) and x.id == idx_name for d_ in hdefs for x in ast.walk(d_.value))
    first_ok = any(refers_first(d_.value) for d_ in hdefs)
    if not hdefs or uses_current or not first_ok:
        ctx.finding(q, heads[0], "the search for a chain to append to must start from the entry site of the finished chain's FIRST particle (row 0 of "
                    f"the chain table); here the point is defined from {'the current (last) particle ' + idx_name if uses_current else 'something else'}",
                    heads[0], m, definition=[src(d_)[:100] for d_ in hdefs])
    ctx.count(1)
    if src(A(tails[0])[1]) != pt_arg:
        ctx.finding(q, tails[0], "the search for a chain to put in front of must start from the exit site of the finished chain's LAST particle "
                    "(the point used by the forward search)", tails[0], m)


def o195(ctx):
    """a chain connected on both ends: add_chain_suffix first renumbers the order of the finished chain (it continues the chain it is appended
    to); the largest order number handed to add_chain_prefix (class_max[0]) must be read after that step, not before"""
    src = lambda n: " ".join(ast.unparse(n).split())
    found = 0
    for q, m, fn in ctx.prog.functions():
        if not q.startswith("ribana.") or q.split(".")[-1] in ("add_chain_prefix", "add_chain_suffix"):
            continue
        own = [n for n in ast.walk(fn)]
        pre = [c for c in own if isinstance(c, ast.Call) and src(c.func).split(".")[-1] == "add_chain_prefix" and kwarg(c, "class_max") is not None]
        suf = [c for c in own if isinstance(c, ast.Call) and src(c.func).split(".")[-1] == "add_chain_suffix"]
        if not pre:
            continue
        if len(pre) != 1 or len(suf) != 1:
            raise Unsupported(f"{q}: suffix / prefix connection calls not recognised", fn)
        found += 1
        ctx.touched(q)

        def defs(name):
            return [a for a in own if isinstance(a, ast.Assign) and any(isinstance(t, ast.Name) and t.id == name for t in a.targets)]

        cm = kwarg(pre[0], "class_max")
        tuples = []
        todo, seen = [cm], set()
        while todo:
            e = todo.pop()
            if isinstance(e, ast.Tuple) and len(e.elts) == 2:
                tuples.append(e)
            elif isinstance(e, ast.IfExp):
                todo += [e.body, e.orelse]
            elif isinstance(e, ast.Name) and e.id not in seen:
                seen.add(e.id)
                todo += [a.value for a in defs(e.id)]
        if not tuples:
            raise Unsupported(f"{q}: value of class_max not recognised", pre[0])
        for tp in tuples:
            first = tp.elts[0]
            srcs = [first] if not isinstance(first, ast.Name) else [a for a in defs(first.id)]
            reads = [x for x in srcs if any(isinstance(c, ast.Call) and src(c.func).split(".")[-1] in ("max", "amax", "nanmax") for c in ast.walk(x))]
            ctx.count(1, {"function": q, "largest order read at line": [x.lineno for x in reads], "add_chain_suffix at line": suf[0].lineno})
            if not reads:
                raise Unsupported(f"{q}: the largest order number handed to add_chain_prefix is not a max(...) of the chain's order column", tp)
            if any(x.lineno < suf[0].lineno for x in reads):
                bad = [x for x in reads if x.lineno < suf[0].lineno][0]
                ctx.finding(q, bad, "the largest order number of the finished chain is read before add_chain_suffix has renumbered the chain: with "
                            "a connection on both ends the chain put behind it is shifted by the stale value and order numbers repeat "
                            "(1, 2, 3, 3)", bad, m)
    if not found:
        raise Unsupported("no call of add_chain_prefix with class_max found in ribana")


def o198(ctx):
    """a finished chain that finds a chain to append to (at its first particle) AND a chain to put in front of (at its last particle) may
    use both connections only if they lead to two different chains; if both lead to the same chain (in particular to the same particle) only
    the closer one is kept.  Decided as a decision table over the block's atomic tests, for chains of one and of several particles alike."""
    import itertools
    from sa.dectable import Table
    q = RB + "trace_chains"
    m, fn = ctx.prog.func(q)
    ctx.touched(q)
    src = lambda n: " ".join(ast.unparse(n).split())
    calls = [n for n in ast.walk(fn) if isinstance(n, ast.Assign) and isinstance(n.value, ast.Call) and src(n.value.func) == "get_nn_dist"
             and isinstance(_nn_args(ctx, n.value)[-1], ast.Constant) and _nn_args(ctx, n.value)[-1].value is False
             and isinstance(n.targets[0], ast.Tuple) and len(n.targets[0].elts) == 2 and all(isinstance(e, ast.Name) for e in n.targets[0].elts)]
    if len(calls) != 2:
        raise Unsupported("connection searches of trace_chains not recognised", fn)
    blk = None
    p_ = m.parents.get(calls[0])
    for fld in ("body", "orelse"):
        b = getattr(p_, fld, None)
        if isinstance(b, list) and any(x is calls[0] for x in b) and any(x is calls[1] for x in b):
            blk = b
    if blk is None:
        raise Unsupported("the two connection searches are not in one block", calls[0])
    head = [c for c in calls if "exit" in src(_nn_args(ctx, c.value)[0])]
    tail = [c for c in calls if "entry" in src(_nn_args(ctx, c.value)[0])]
    if len(head) != 1 or len(tail) != 1:
        raise Unsupported("which search looks for the chain to append to / to put in front of is not recognised", calls[0])
    h, hd = (e.id for e in head[0].targets[0].elts)
    t, td = (e.id for e in tail[0].targets[0].elts)
    start = max(blk.index(calls[0]), blk.index(calls[1])) + 1
    stop = next((i_ for i_ in range(start, len(blk)) if any(isinstance(x, ast.Call) and src(x.func) in ("add_chain_suffix", "add_chain_prefix")
                                                              for x in ast.walk(blk[i_]))), len(blk))
    body = blk[start:stop]
    # names holding the object number of a target particle: assigned from a lookup of the chain-number column
    chain_no = {st.targets[0].id for st in ast.walk(ast.Module(body=body, type_ignores=[])) if isinstance(st, ast.Assign)
                and isinstance(st.targets[0], ast.Name) and "store_idx1" in src(st.value)}

    def atom_of(text):
        norm = text.replace(" ", "")
        if norm in (f"{h}=={t}", f"{t}=={h}"):
            return "same_particle"
        if norm in (f"{h}!={t}", f"{t}!={h}"):
            return ("same_particle", True)
        for v_, name in ((h, "head_found"), (t, "tail_found")):
            if norm in (f"{v_}!=-1", f"-1!={v_}", f"{v_}>=0", f"{v_}>-1"):
                return name
            if norm in (f"{v_}==-1", f"-1=={v_}", f"{v_}<0"):
                return (name, True)
        if norm in (f"{hd}<={td}", f"{td}>={hd}"):
            return "head_closer_or_tie"
        if norm in (f"{hd}>{td}", f"{td}<{hd}"):
            return ("head_closer_or_tie", True)
        if norm.endswith("==1") and (".shape[0]" in norm or norm.startswith("len(")):
            return "single_particle_chain"
        if norm.endswith("!=1") and (".shape[0]" in norm or norm.startswith("len(")) or norm.endswith(">1") and (".shape[0]" in norm or norm.startswith("len(")):
            return ("single_particle_chain", True)
        mm_ = [x for x in norm.replace("!=", "==").split("==")]
        if len(mm_) == 2 and set(mm_) <= chain_no and mm_[0] != mm_[1]:
            return "same_chain" if "==" in norm and "!=" not in norm else ("same_chain", True)
        return None

    cur = {}

    def marker_of(st):
        if isinstance(st, ast.Assign) and len(st.targets) == 1 and isinstance(st.targets[0], ast.Name) and src(st.value) in ("-1", "- 1"):
            if st.targets[0].id == t:
                return "keep only the suffix connection"
            if st.targets[0].id == h:
                return "keep only the prefix connection"
        # the decision moved into a helper that returns the two indices: `h, t = helper(h, hd, t, td)`
        tg = st.targets[0] if isinstance(st, ast.Assign) and len(st.targets) == 1 else None
        names = [e.id for e in tg.elts] if isinstance(tg, ast.Tuple) and all(isinstance(e, ast.Name) for e in tg.elts) else \
            [tg.id] if isinstance(tg, ast.Name) else []
        if isinstance(st, ast.Assign) and (h in names or t in names):
            if not (isinstance(st.value, ast.Call) and all(isinstance(a_, ast.Name) for a_ in st.value.args) and not st.value.keywords):
                raise Unsupported(f"`{src(st)[:60]}` rebinds a connection index in a way the decision table does not follow", st)
            d = ctx.prog.resolve(m, st.value.func)
            hq = ctx.prog.repo_qual(d) if d else None
            if hq is None and isinstance(st.value.func, ast.Attribute):
                hq = ctx.prog.find_method(ctx.prog.enclosing_class(q) or "", st.value.func.attr) if ctx.prog.enclosing_class(q) else None
            if hq is None:
                raise Unsupported(f"helper `{src(st.value.func)}` that rebinds a connection index is not resolved", st)
            hm, hf = ctx.prog.func(hq)
            params = [a_.arg for a_ in hf.args.args]
            if len(params) != len(st.value.args):
                raise Unsupported("helper call does not bind its parameters one to one", st)
            ren = dict(zip(params, [a_.id for a_ in st.value.args]))

            def atom_h(text):
                import re as _re
                return atom_of(_re.sub(r"[A-Za-z_][A-Za-z_0-9]*", lambda mo: ren.get(mo.group(0), mo.group(0)), text))

            ret = Table(atom_h, lambda s_: None).run_function(hf, cur["assign"])
            elts = list(ret.elts) if isinstance(ret, ast.Tuple) else [ret]
            if ret is None or len(elts) != len(names):
                raise Unsupported("value returned by the helper not recognised", st)
            labs = []
            for nm_, e_ in zip(names, elts):
                txt_ = src(e_)
                if txt_ in ("-1", "- 1"):
                    if nm_ == t:
                        labs.append("keep only the suffix connection")
                    elif nm_ == h:
                        labs.append("keep only the prefix connection")
                elif not (isinstance(e_, ast.Name) and ren.get(e_.id, e_.id) == nm_):
                    raise Unsupported(f"helper returns `{txt_}` for `{nm_}`", st)
            return labs
        return None

    tab = Table(atom_of, marker_of)
    atoms = ["same_particle", "head_found", "tail_found", "head_closer_or_tie", "single_particle_chain", "same_chain"]
    n_rows, bad = 0, []
    for vals in itertools.product((False, True), repeat=len(atoms)):
        a = dict(zip(atoms, vals))
        if a["same_particle"] and not a["same_chain"]:
            continue  # the same particle is in the same chain
        if a["same_particle"] and a["head_found"] != a["tail_found"]:
            continue  # equal indices are found or missing together
        n_rows += 1
        cur["assign"] = a
        got = tab.run_block(body, a)
        want = []
        if a["head_found"] and a["tail_found"] and a["same_chain"]:
            want = ["keep only the suffix connection"] if a["head_closer_or_tie"] else ["keep only the prefix connection"]
        if got != want:
            bad.append((a, got, want))
    ctx.count(n_rows, {"decision table rows": n_rows, "atoms": atoms})
    if bad:
        a, got, want = bad[0]
        ctx.finding(q, body[0] if body else calls[1], "a finished chain that would be connected to ONE existing chain on both of its ends must keep only "
                    f"the closer connection, for chains of any length: with {', '.join(k for k, v in a.items() if v)} the block does "
                    f"{got or 'nothing'}, expected {want or 'nothing'} ({len(bad)} of {n_rows} rows of the decision table differ) -- the chain would "
                    "close on itself and its order numbers no longer run 1..k", body[0] if body else calls[1], m)


def o199(ctx):
    """a connection on both ends in which BOTH helpers cut a piece off an existing chain: the tail cut off by add_chain_suffix and the head cut
    off by add_chain_prefix must end up under different object numbers (each piece is a chain of its own, numbered from 1)"""
    src = lambda n: " ".join(ast.unparse(n).split())
    # (1) add_chain_suffix, tail cut: the number the cut-off tail receives
    qs = RB + "add_chain_suffix"
    ms, fs = ctx.prog.func(qs)
    it = Interp(ctx.prog, assume=assume_map({"chain_max_order != order_id": True, "previous_dist <= current_dist": False}))
    chain, traced = opf("chain_df", "ch:"), opf("traced_df", "tr:")
    it.run(qs, [chain, Obj("cryomotl.Motl", {"df": opf("mdf", "m:")}), traced, P("subtomo_pos"), P("current_dist")], {})
    rel = [e for e in it.events if e.kind == "store" and e.fn == qs and e.extra.get("frame") is traced and e.extra.get("names") == ["object_id"]
           and e.extra.get("mask") is not None]
    if len(rel) != 1:
        raise Unsupported("add_chain_suffix: relabelling of the cut-off tail not recognised", fs)
    one = lambda t_: tm.subst(t_, {n: n.args[1] for n in tm.walk(t_) if n.op == "call" and n.args[0] == "elem" and n.args[1] == sym("ch:object_id")})
    v_tail = one(to_term(rel[0].args[2]))
    tail_is_own = v_tail == sym("ch:object_id")
    # (2) add_chain_prefix, both ends + head cut: the number the cut-off head ends up with
    qp = RB + "add_chain_prefix"
    mp, fp = ctx.prog.func(qp)
    it2 = Interp(ctx.prog, assume=assume_map({"class_max is None": False, "order_id != 1": True, "previous_dist <= current_dist": False}))
    chain2, traced2 = opf("chain_df", "ch:"), opf("traced_df", "tr:")
    it2.run(qp, [chain2, Obj("cryomotl.Motl", {"df": opf("mdf", "m:")}), traced2, P("subtomo_pos"), P("current_dist")],
            {"class_max": Seq([P("cmax0"), P("cmax1")], "list")})
    st2 = [e for e in it2.events if e.kind == "store" and e.fn == qp and e.extra.get("frame") is traced2 and e.extra.get("names") == ["object_id"]]
    head_vals = [to_term(e.args[2]) for e in st2]
    head_is_cmax1 = any(v_ == sym("cmax1") for v_ in head_vals) and any(tm.cval(v_) == -1 for v_ in head_vals)
    # (3) trace_chains: what is handed over as class_max[1]
    qt = RB + "trace_chains"
    mt, ft = ctx.prog.func(qt)
    ctx.touched(qs, qp, qt)
    pre = [c for c in ast.walk(ft) if isinstance(c, ast.Call) and src(c.func).split(".")[-1] == "add_chain_prefix" and kwarg(c, "class_max") is not None]
    if len(pre) != 1:
        raise Unsupported("trace_chains: call of add_chain_prefix with class_max not recognised", ft)
    defs = lambda name: [a for a in ast.walk(ft) if isinstance(a, ast.Assign) and any(isinstance(t, ast.Name) and t.id == name for t in a.targets)]
    cm = kwarg(pre[0], "class_max")
    tuples = [a.value for a in defs(cm.id) if isinstance(a.value, ast.Tuple) and len(a.value.elts) == 2] if isinstance(cm, ast.Name) else \
        ([cm] if isinstance(cm, ast.Tuple) and len(cm.elts) == 2 else [])
    if not tuples:
        raise Unsupported("trace_chains: value of class_max not recognised", pre[0])
    second = tuples[0].elts[1]
    sdefs = [a.value for a in defs(second.id)] if isinstance(second, ast.Name) else [second]
    # the counter that numbers new chains: assigned to the finished chain's object column, then incremented
    counters = {a.value.id for a in ast.walk(ft) if isinstance(a, ast.Assign) and isinstance(a.value, ast.Name) and len(a.targets) == 1
                and isinstance(a.targets[0], ast.Subscript) and "store_idx1" in src(a.targets[0])}
    is_own = any(isinstance(v_, ast.BinOp) and isinstance(v_.op, ast.Sub) and isinstance(v_.left, ast.Name) and v_.left.id in counters
                 and isinstance(v_.right, ast.Constant) and v_.right.value == 1 for v_ in sdefs)
    ctx.count(3, {"number of a tail cut off by add_chain_suffix": tm.show(v_tail)[:60], "numbers written for a head cut off by add_chain_prefix (both ends)":
                  [tm.show(v_)[:40] for v_ in head_vals], "class_max[1] in trace_chains": [src(v_)[:60] for v_ in sdefs]})
    if not (tail_is_own or head_is_cmax1 or is_own):
        return
    # the repaired form: the name handed over as class_max[1] is rebound to a FRESH number (the counter itself, which is then advanced) when the
    # traced table already holds the former number, i.e. when add_chain_suffix gave it to a tail
    fresh = []
    if isinstance(second, ast.Name):
        for node in ast.walk(ft):
            if not isinstance(node, ast.If):
                continue
            reb = [a for a in node.body if isinstance(a, ast.Assign) and len(a.targets) == 1 and isinstance(a.targets[0], ast.Name)
                   and a.targets[0].id == second.id and isinstance(a.value, ast.Name) and a.value.id in counters]
            if not reb:
                continue
            cn = reb[0].value.id
            one_ = lambda x: isinstance(x, ast.Constant) and x.value == 1
            nm_ = lambda x: isinstance(x, ast.Name) and x.id == cn
            adv = [a for a in node.body if (isinstance(a, ast.AugAssign) and isinstance(a.op, ast.Add) and nm_(a.target) and one_(a.value))
                   or (isinstance(a, ast.Assign) and len(a.targets) == 1 and nm_(a.targets[0]) and isinstance(a.value, ast.BinOp) and isinstance(a.value.op, ast.Add)
                       and ((nm_(a.value.left) and one_(a.value.right)) or (one_(a.value.left) and nm_(a.value.right))))]
            t_ = node.test
            taken = isinstance(t_, ast.Call) and isinstance(t_.func, ast.Attribute) and t_.func.attr == "any" and not t_.args and any(
                isinstance(c, ast.Compare) and len(c.ops) == 1 and isinstance(c.ops[0], ast.Eq) and "store_idx1" in src(c)
                and any(isinstance(x, ast.Name) and x.id == second.id for x in [c.left] + c.comparators) for c in ast.walk(t_.func.value))
            # ... of the table add_chain_suffix relabelled the tail in (its third argument)
            sufc = [c for c in ast.walk(ft) if isinstance(c, ast.Call) and src(c.func).split(".")[-1] == "add_chain_suffix" and len(c.args) >= 3]
            tabs = {src(c.args[2]) for c in sufc}
            taken = taken and len(tabs) == 1 and any(isinstance(c, ast.Compare) and isinstance(c.left, ast.Subscript) and src(c.left.value) in tabs
                                                      for c in ast.walk(t_))
            fresh.append((node, bool(adv), taken))
    ctx.count(1, {"rebinding of class_max[1] to a fresh number": [(src(n.test)[:70], "counter advanced" if a else "counter NOT advanced", "under `number taken`" if t else "other test")
                                                                   for n, a, t in fresh]})
    if tail_is_own and head_is_cmax1 and is_own and fresh:
        if len(fresh) != 1 or not fresh[0][2] or fresh[0][0].lineno > pre[0].lineno:
            raise Unsupported("two-sided connection: class_max[1] is rebound under a test this rule does not follow", fresh[0][0])
        if not fresh[0][1]:
            ctx.finding(qt, "two-sided connection: fresh number of the cut-off head", "the cut-off head is given the chain counter's current value but the counter "
                        "is not advanced: the next finished chain receives the same object number", fresh[0][0], mt)
        return
    if tail_is_own and head_is_cmax1 and is_own:
        ctx.finding(qt, "two-sided connection: numbers of the cut-off pieces", "when the finished chain is hung behind a particle in the middle of one chain "
                    "(add_chain_suffix cuts that chain's tail off) and at the same connection put in front of a particle in the middle of another "
                    "(add_chain_prefix cuts that chain's head off), both cut-off pieces receive the finished chain's former object number: the tail through "
                    "`current_class` in add_chain_suffix, the head through class_max[1] = counter - 1 -- one object with two particles of order number 1",
                    pre[0], mt)
    elif not (tail_is_own and head_is_cmax1) or not is_own:
        # a different numbering scheme for the cut-off pieces: whether they can collide is not decided by this rule
        raise Unsupported("two-sided connection: the numbers given to a cut-off tail / head are assigned in a way this rule does not follow", pre[0])


def o1910(ctx):
    """add_chain_suffix, tail cut: the cut-off tail is a chain of its own whose particles keep their ORDER -- the new order numbers are the old
    ones minus the order number of the particle the new chain is hung behind.  Numbers dealt out by table row position follow the order in which
    the rows were stored, which is not chain order once add_chain_prefix has hung an earlier-stored chain behind a later-stored one"""
    q = RB + "add_chain_suffix"
    m, fn = ctx.prog.func(q)
    ctx.touched(q)
    it = Interp(ctx.prog, assume=assume_map({"chain_max_order != order_id": True, "previous_dist <= current_dist": False}))
    chain, traced = opf("chain_df", "ch:"), opf("traced_df", "tr:")
    it.run(q, [chain, Obj("cryomotl.Motl", {"df": opf("mdf", "m:")}), traced, P("subtomo_pos"), P("current_dist")], {})
    rel = [e for e in it.events if e.kind == "store" and e.fn == q and e.extra.get("frame") is traced and e.extra.get("names") == ["object_id"]
           and e.extra.get("mask") is not None]
    if len(rel) != 1:
        raise Unsupported("add_chain_suffix: relabelling of the cut-off tail not recognised", fn)
    # the order number of the particle the chain is hung behind: the term the tail's mask compares the order column with
    cmps = [n for n in tm.walk(rel[0].extra["mask"]) if n.op in ("lt", "le") and any(a == sym("tr:geom2") for a in n.args)]
    if len(cmps) != 1:
        raise Unsupported("add_chain_suffix: order test of the cut-off tail not recognised", rel[0].node)
    anchor = [a for a in cmps[0].args if a != sym("tr:geom2")][0]
    ren = [e for e in it.events if e.kind == "store" and e.fn == q and e.extra.get("frame") is traced and e.extra.get("names") == ["geom2"]]
    ctx.count(1, {"order number of the particle hung behind": tm.show(anchor)[:90], "renumbering stores": len(ren)})
    if not ren:
        ctx.finding(q, "order numbers of the cut-off tail", "the tail that is cut off keeps the order numbers it had in the old chain: they do not start at 1",
                    rel[0].node, m)
        return
    if len(ren) != 1 or ren[0].extra.get("mask") is None:
        raise Unsupported("add_chain_suffix: renumbering of the cut-off tail not recognised", ren[0].node)
    v = to_term(ren[0].args[2])
    ctx.count(1, {"new order numbers of the tail": tm.show(v)[:160]})
    positional = tm.contains(v, lambda n: n.op == "sym" and str(n.args[0]).startswith("idx")) if hasattr(tm, "contains") else False
    if positional and not tm.has_sym(v, "tr:geom2"):
        ctx.finding(q, "order numbers of the cut-off tail", "the cut-off tail is renumbered by table row position (1, 2, ... in the order its rows lie in the traced "
                    "table): the rows of one chain lie in the order its pieces were stored, not in chain order -- after add_chain_prefix hung an earlier-stored "
                    "chain behind a later-stored one the tail comes out in the wrong order and its links no longer join exit site to entry site; the new "
                    "numbers must be the old ones minus the order number of the particle the new chain is hung behind", ren[0].node, m)
        return
    ctx.count(1)
    if v.op == "sub" and v.args[0].op == "sel" and v.args[0].args[0] == sym("tr:geom2") and v.args[1] == anchor:
        return
    if v.op == "sub" and v.args[0].op == "sel" and v.args[0].args[0] == sym("tr:geom2"):
        ctx.finding(q, "order numbers of the cut-off tail", f"the cut-off tail's order numbers are shifted by {tm.show(v.args[1])[:80]}, not by the order number of "
                    "the particle the new chain is hung behind: they do not start at 1", ren[0].node, m)
        return
    raise Unsupported("add_chain_suffix: the new order numbers of the cut-off tail are computed in a way this rule does not follow", ren[0].node)


def _obligations():
    return [
        Obligation("O19.20", "accessors of the particle list: get_coordinates = (x,y,z) + shifts, get_angles / get_rotations = the stored zxz angles, fill stores values as given (shared with C05)", _c05.accessors, floor=20),
        Obligation("O19.8", "connection arbitration: both ends to the same chain -> only the closer connection is kept (decision table over the block's tests)", o198, floor=30),
        Obligation("O19.6", "per-tomogram subsets: get_motl_subset selects exactly feature == value (shared with C08)", _c08.o81, floor=10),
        Obligation("O19.7", "entry / exit sites: get_coordinates = (x,y,z) + shifts, nothing else (shared with C05)", _c05.o51, floor=9),
        Obligation("O19.9", "two-sided connection with a tail cut and a head cut: the two cut-off pieces get different object numbers", o199, floor=3),
        Obligation("O19.10", "add_chain_suffix, tail cut: the cut-off tail keeps its order (old order numbers minus that of the particle hung behind)", o1910, floor=3),
        Obligation("O19.5", "two-sided connection: the order offset for add_chain_prefix is read after add_chain_suffix renumbered the chain", o195, floor=1),
        Obligation("O19.1", "get_nn_dist: radius = max_distance, distances returned, active filter, strict > min_distance, same masks, same element of index and distance", o191, floor=4),
        Obligation("O19.2", "add_chain_suffix: order offset keyed by the class the appended chain receives (both paths)", o192, floor=6),
        Obligation("O19.4", "add_chain_prefix: the link distance is recorded on every merging path", o194, floor=4),
        Obligation("O19.3", "trace_chains: per-tomogram state, flags cleared on append, guards, counter discipline, forward search wiring", o193, floor=12),
    ]


def obligations():
    return _obligations() + [constructors_obligation(['cryomotl.Motl', 'cryomotl.EmMotl']), labels_obligation("C19"), selectors_obligation("C19"), mutations_obligation("C19"), loopstate_obligation("C19"), effects_obligation("C19"), plumbing_obligation("C19"), overrides_obligation("C19"), options_obligation("C19"), handlers_obligation("C19")]
