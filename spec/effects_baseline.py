"""In-place writes to caller-owned objects that exist on the confirmed tree, each read and judged harmless for the claimed
properties.  Key: (kind, reporting function, root object, function containing the write, kind of write) -- no local variable
names, no line numbers.  `*` in the reporting function / root matches any value (the same write reached through several
public entry points).  Anything not listed is reported."""

R_COLUMNS = ("names the columns of a caller-supplied table canonically (x, y, z / tomo_id, ...); no value is changed, and a "
             "table that already carries the names is left as it is")
R_TOKENS = "parser cursor: the token list is consumed by design (it is built by Token.tokenize for this one parse)"
R_KERNEL = "output buffers allocated by the only caller and passed in to be filled (numba kernel convention)"
R_CHAIN = "working tables of trace_chains, documented to be updated in place and returned; never a caller's particle list"

BASELINE = [
    ("E-param", "*", "*", "ioutils.dimensions_load", "setattr:columns", R_COLUMNS),
    ("E-param", "*", "*", "ioutils.z_shift_load", "setattr:columns", R_COLUMNS),
    ("E-param", "wedgeutils.load_wedge_list_em", "param:input_data", "wedgeutils.load_wedge_list_em", "setattr:columns", R_COLUMNS),
    ("E-param", "*", "*", "cryomotl.ModMotl.convert_to_motl.check_tomo_id_type", "setitem:'mod_id'",
     "IMOD model import (ModMotl), reached only through the class-hierarchy approximation of self.convert_to_motl; adds the helper "
     "column mod_id to the model table; not on the path of a particle-list property"),
    ("E-param", "cryomotl.Motl.shift_positions.shift_coords", "param:row", "cryomotl.Motl.shift_positions.shift_coords", "setitem:'shift_x'",
     "row callback of DataFrame.apply(axis=1): pandas hands in a row copy and uses the returned row"),
    ("E-param", "cryomotl.Motl.shift_positions.shift_coords", "param:row", "cryomotl.Motl.shift_positions.shift_coords", "setitem:'shift_y'",
     "row callback of DataFrame.apply(axis=1)"),
    ("E-param", "cryomotl.Motl.shift_positions.shift_coords", "param:row", "cryomotl.Motl.shift_positions.shift_coords", "setitem:'shift_z'",
     "row callback of DataFrame.apply(axis=1)"),
    ("E-param", "cryomotl.RelionMotl.convert_angles_to_relion", "param:relion_df", "cryomotl.RelionMotl.convert_angles_to_relion", "setitem:'rlnAngleRot'",
     "internal helper: fills the export table that its only caller create_relion_df has just built"),
    ("E-param", "cryomotl.RelionMotl.convert_angles_to_relion", "param:relion_df", "cryomotl.RelionMotl.convert_angles_to_relion", "setitem:'rlnAngleTilt'",
     "internal helper of create_relion_df"),
    ("E-param", "cryomotl.RelionMotl.convert_angles_to_relion", "param:relion_df", "cryomotl.RelionMotl.convert_angles_to_relion", "setitem:'rlnAnglePsi'",
     "internal helper of create_relion_df"),
    ("E-param", "cryomotl.StopgapMotl.sg_df_reset_index", "param:stopgap_df", "cryomotl.StopgapMotl.sg_df_reset_index", "setitem:'motl_idx'",
     "internal helper: renumbers the export table that convert_to_sg_motl has just built"),
    ("E-param", "memthick.find_all_possible_matches_kernel", "param:match_counts", "memthick.find_all_possible_matches_kernel", "setitem:*", R_KERNEL),
    ("E-param", "memthick.find_all_possible_matches_kernel", "param:match_distances", "memthick.find_all_possible_matches_kernel", "setitem:*", R_KERNEL),
    ("E-param", "memthick.find_all_possible_matches_kernel", "param:match_indices", "memthick.find_all_possible_matches_kernel", "setitem:*", R_KERNEL),
    ("E-param", "memthick.find_matches_parallel", "param:match_counts", "memthick.find_matches_parallel", "setitem:*", R_KERNEL),
    ("E-param", "memthick.find_matches_parallel", "param:match_distances", "memthick.find_matches_parallel", "setitem:*", R_KERNEL),
    ("E-param", "memthick.find_matches_parallel", "param:match_indices", "memthick.find_matches_parallel", "setitem:*", R_KERNEL),
    ("E-param", "memthick.process_matches_cpu2cpu", "param:flat_matches", "memthick.process_matches_cpu2cpu", "call:.sort",
     "sorts the candidate list that measure_thickness_cpu has just built; its order is not part of any caller's contract"),
    ("E-param", "ribana.add_chain_suffix", "param:chain_df", "ribana.add_chain_suffix", "setitem:*", R_CHAIN),
    ("E-param", "ribana.add_chain_suffix", "param:traced_df", "ribana.add_chain_suffix", "setitem:*", R_CHAIN),
    ("E-param", "starfileio.Starfile.write", "param:frames", "starfileio.Starfile.write", "setitem:*",
     "replaces each table in the caller's list by its copy rounded to float_precision before formatting: the list afterwards holds "
     "what the file holds (equal within the precision a STAR file carries); the tables themselves are not modified"),
    ("E-param", "starfileio.Token.*", "param:tokens", "starfileio.Token.*", "call:.pop", R_TOKENS),  # whichever method of the cursor class holds the pop
]


def match(item):
    import fnmatch
    # taking the next element off a queue is one kind of write, whichever end the queue is read from (list.pop of a reversed list,
    # deque.popleft of a list in text order)
    same_op = {"call:.popleft": "call:.pop"}
    k = (item["kind"], item["fn"], item["root"], item["src"], same_op.get(item["op"], item["op"]))
    for b in BASELINE:
        if b[0] == k[0] and fnmatch.fnmatchcase(k[1], b[1]) and fnmatch.fnmatchcase(k[2], b[2]) and b[4] == k[4] \
                and (b[3] == k[3] or ("*" in b[3] and fnmatch.fnmatchcase(k[3], b[3])) or (b[3] == b[1] and k[0] == "E-param" and "*" not in b[1])):
            # the same write of the same argument of the same entry function: confirmed harmless where it stands today, and no different when
            # the statement moves into a private helper the entry function calls (the effect is identified by entry, argument and kind of
            # write, not by the function whose body holds the statement)
            return b
    return None
