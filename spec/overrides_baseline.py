"""Overrides of the property's entry methods that exist on the pinned tree (subclass method, base method): confirmed by reading -- the
format classes specialise construction and writing, which the properties of their own formats analyse."""
OVERRIDES = {
    ("cryomotl.DynamoMotl.__init__", "cryomotl.Motl.__init__"),
    ("cryomotl.EmMotl.__init__", "cryomotl.Motl.__init__"),
    ("cryomotl.ModMotl.__init__", "cryomotl.Motl.__init__"),
    ("cryomotl.RelionMotl.__init__", "cryomotl.Motl.__init__"),
    ("cryomotl.StopgapMotl.__init__", "cryomotl.Motl.__init__"),
    ("cryomotl.DynamoMotl.write_out", "cryomotl.Motl.write_out"),
    ("cryomotl.EmMotl.write_out", "cryomotl.Motl.write_out"),
    ("cryomotl.ModMotl.write_out", "cryomotl.Motl.write_out"),
    ("cryomotl.RelionMotl.write_out", "cryomotl.Motl.write_out"),
    ("cryomotl.StopgapMotl.write_out", "cryomotl.Motl.write_out"),
}
