"""C17 -- tilt-series metadata: mdoc round-trip, loaders and wedge lists are consistent"""
from .common import *
from . import C02 as _star
from . import C09 as _c09
from sa import apicompat

TITLE = "Tilt-series metadata: mdoc round-trip, loaders and wedge lists are consistent"
EXPLANATION = (
    "Loaders: every pandas call of the tilt/dose/defocus loaders, the mdoc class and the wedge-list builders is checked "
    "against the installed pandas; gctf_read and ctffind4_read are interpreted abstractly and must scale exactly the U and V "
    "defocus columns by 1e-4 (Angstrom -> micrometre), pass angle and phase shift through and set mean = (U+V)/2; the mdoc "
    "dose must be ExposureDose + PriorRecordDose of the *same* row order (row-space typing: both columns fetched after the "
    "sort); tlt_load sorts only file input and only when asked. Wedge lists: create_wedge_list_sg is interpreted with the "
    "loaders as opaque calls and every output column must be wired to the like-named input; the batch variant must look up "
    "per-tomogram dimensions and z-shift by tomo_id == t for the tomogram being processed; the EM list pairs min/max with "
    "min_angle/max_angle. mdoc: the write filter is the truth table (written iff removed-requested or not flagged), "
    "writer format characters agree with the reader's split/strip characters, sort_by_tilt only sorts, removal goes from "
    "positions among kept images to index labels exactly once (label/position typing). defocus_load of an N x 5 array names the columns in the given order and keeps the rows as given for every N (no orientation guessed from the shape).")
ASSUMPTIONS = TRUSTED + ["the mdoc grammar round trip over generated texts (value formatting, section splitting) is not decided"]

IO = "ioutils."


def star_summary(it, args, kwargs, node, fr):
    f = Frame(name="star", open_=True, prefix="star:")
    f.space = Space("star", how="root")
    if "data_id" in kwargs:
        return Seq([f, K("data_"), K(None)], "tuple")
    return Seq([Seq([f], "list"), Seq([K("data_")], "list"), Seq([K(None)], "list")], "tuple")


def o171(ctx):
    quals = [q for q, m, fn in ctx.prog.functions() if q.startswith(("ioutils.tlt_load", "ioutils.total_dose_load", "ioutils.one_value_per_line_read",
             "ioutils.gctf_read", "ioutils.ctffind4_read", "ioutils.defocus_load", "ioutils.dimensions_load", "ioutils.z_shift_load",
             "mdoc.Mdoc.", "wedgeutils.create_wedge_list", "wedgeutils.wedge_list_sg_to_em", "wedgeutils.load_wedge_list"))]
    total = 0
    for q in sorted(quals):
        issues, n = apicompat.check_function(ctx.prog, q, df_params=("wedge_list_df", "defocus_df", "ctf_df"))
        total += n
        ctx.touched(q)
        m, fn = ctx.prog.func(q)
        for i in issues:
            ctx.finding(q, i.node, f"[{i.rule}] {i.message}", i.node, m)
    ctx.count(total, {"functions": len(quals), "library call sites checked": total})


def o172(ctx):
    """defocus readers"""
    res = {}
    for phase in (True, False):
        q = IO + "gctf_read"
        m, fn = ctx.prog.func(q)
        ctx.touched(q)
        it = Interp(ctx.prog, summaries={"cryocat.starfileio.Starfile.read": star_summary},
                    assume=assume_map({"'rlnPhaseShift' in gctf_df.columns": phase}))
        from sa.values import ColumnOrderUnknown
        try:
            r = it.run(q, [K("ctf.star")], {})
        except ColumnOrderUnknown as e:
            ctx.count(1)
            ctx.finding(q, e.node, f"{e}: the Angstrom -> micrometre conversion must address rlnDefocusU / rlnDefocusV by name (or after a "
                        "selection that fixes the column order)", e.node, m)
            continue
        if not isinstance(r.ret, Frame):
            raise Unsupported("gctf_read does not return a table", fn)
        U, V = sym("star:rlnDefocusU"), sym("star:rlnDefocusV")
        exp = {"defocus1": mk("mul", U, const(1e-4)), "defocus2": mk("mul", V, const(1e-4)), "astigmatism": sym("star:rlnDefocusAngle"),
               "phase_shift": sym("star:rlnPhaseShift") if phase else const(0.0),
               "defocus_mean": mk("div", mk("add", mk("mul", U, const(1e-4)), mk("mul", V, const(1e-4))), const(2.0))}
        expect_cols(ctx, it, q, r.ret, exp, what=f"gctf_read ({'with' if phase else 'without'} phase shift): Angstrom -> micrometre for U and V only, mean=(U+V)/2")
        rs_ = [e for e in it.events if e.kind == "call" and e.name == "cryocat.starfileio.Starfile.read"]
        src_ = rs_[0].extra.get("ret") if rs_ else None
        src_ = src_.items[0] if isinstance(src_, Seq) and src_.items else src_
        src_ = src_.items[0] if isinstance(src_, Seq) and src_.items else src_
        if isinstance(src_, Frame):
            same_rows_same_order(ctx, q, r.ret, src_, "gctf_read returns the entries in the order of the file's rows (entry i goes with tilt i)", fn, m)
        res["gctf"] = list(r.ret.order or [])
    q = IO + "ctffind4_read"
    m, fn = ctx.prog.func(q)
    ctx.touched(q)
    it = Interp(ctx.prog, summaries={"cryocat.ioutils.get_number_of_lines_with_character": lambda *a: Unk(sym("nskip"))})
    r = it.run(q, [K("ctf.txt")], {})
    if not isinstance(r.ret, Frame):
        raise Unsupported("ctffind4_read does not return a table", fn)
    U, V = sym("csv:1"), sym("csv:2")
    exp = {"defocus1": mk("mul", U, const(1e-4)), "defocus2": mk("mul", V, const(1e-4)), "astigmatism": sym("csv:3"), "phase_shift": sym("csv:4"),
           "defocus_mean": mk("div", mk("add", mk("mul", U, const(1e-4)), mk("mul", V, const(1e-4))), const(2.0))}
    expect_cols(ctx, it, q, r.ret, exp, what="ctffind4_read: columns 2-5 of the file; Angstrom -> micrometre for defocus 1 and 2 only, mean=(U+V)/2")
    rc = [e for e in it.events if e.kind == "call" and e.name == "pandas.read_csv"]
    # entry i of the result is line i of the file (every consumer pairs it with tilt i by position)
    src_ = rc[0].extra.get("ret") if rc else None
    if isinstance(src_, Frame):
        same_rows_same_order(ctx, q, r.ret, src_, "ctffind4_read returns the entries in the order of the file's lines (entry i goes with tilt i)", fn, m)
    else:
        raise Unsupported("table read by ctffind4_read not recognised", fn)
    ctx.count(1)
    sk = rc[0].kwargs.get("skiprows") if rc else None
    if not rc or sk is None or to_term(sk) != sym("nskip"):
        ctx.finding(q, rc[0].node if rc else fn, "the commented header lines (#) of a ctffind4 file must be skipped", rc[0].node if rc else fn, m)
    ctx.count(1)
    if res.get("gctf") != list(r.ret.order or []):
        ctx.finding(q, "column order", "both defocus readers must return the same columns in the same order", fn, m,
                    gctf=res.get("gctf"), ctffind4=r.ret.order)


def mdoc_summary(it, args, kwargs, node, fr):
    f = Frame(name="imgs", open_=True, prefix="img:")
    f.space = Space("mdoc-images", how="root")
    return Obj("mdoc.Mdoc", {"imgs": f, "titles": Unk(sym("titles")), "project_info": Unk(sym("project_info")), "section_id": K("ZValue"),
                             "file_path": args[0] if args else K(None)})


def o173(ctx):
    """doses and tilt angles"""
    q = IO + "total_dose_load"
    m, fn = ctx.prog.func(q)
    ctx.touched(q, "mdoc.Mdoc.sort_by_tilt", "mdoc.Mdoc.get_image_feature")
    for sort in (True, False):
        it = Interp(ctx.prog, summaries={"cryocat.mdoc.Mdoc": mdoc_summary},
                    assume=assume_map({"sort_mdoc": sort, "'PriorRecordDose' in mdoc_file.imgs": True}))
        r = it.run(q, [K("series.mdoc")], {"sort_mdoc": K(sort)})
        want = mk("add", sym("img:ExposureDose"), sym("img:PriorRecordDose"))
        v = tm.equivalent(to_term(r.ret), want, seed_tag=q + str(sort))
        ctx.count(1, {"sort_mdoc": sort, "dose": tm.show(to_term(r.ret))[:80]})
        if not v:
            ctx.finding(q, "mdoc dose", "the mdoc dose must be ExposureDose + PriorRecordDose", fn, m, extracted=tm.show(to_term(r.ret))[:120])
        for e in it.events:
            if e.kind == "space-mismatch":
                ctx.finding(q, e.node, "exposure dose and prior dose are combined across different row orders (one column is fetched "
                            "before the tilt sort, the other after): image i gets the dose of another image", e.node, m,
                            left=e.extra["left"].chain(), right=e.extra["right"].chain())
        sp = getattr(r.ret, "space", None)
        ctx.count(1)
        if sort and (sp is None or sp.how != "sort"):
            ctx.finding(q, "row order of the mdoc dose", "with sort_mdoc the doses must be in ascending-tilt order", fn, m)
        # the doses are handed on as a plain array: dose_filter reads total_dose[z] with the running image number and the wedge lists assign the
        # column by position -- a pandas column of the (sorted) image table carries the table's row labels, and [z] / assignment then go by label
        labelled = getattr(r.ret, "lab", None) is not None and getattr(r.ret, "lab")[0] != "pos"
        ctx.count(1, {"sort_mdoc": sort, "returned as": "labelled column" if labelled else "array (labels stripped)"})
        if labelled:
            ctx.finding(q, "type of the returned doses", "the mdoc doses come back as a labelled column of the image table (its row labels are the file positions, "
                        "permuted by the tilt sort): `total_dose[z]` in dose_filter is then a lookup by label, image z of the sorted stack gets the dose of the "
                        "z-th image of the file", fn, m)
        srt = [e for e in it.events if e.kind == "call" and e.name == "DataFrame.sort_values"]
        ctx.count(1)
        if sort and not (srt and is_pyconst(srt[0].kwargs.get("by", srt[0].arg(1))) and pyval(srt[0].kwargs.get("by", srt[0].arg(1))) == "TiltAngle"):
            ctx.finding("mdoc.Mdoc.sort_by_tilt", srt[0].node if srt else fn, "sort_by_tilt must sort by TiltAngle", srt[0].node if srt else fn, m)
    # the other branch: no PriorRecordDose in the file.  The accumulated dose of an image is its ExposureDose times its rank in order of
    # acquisition (DateTime), handed back in the order of the table's rows (file order, or tilt order with sort_mdoc)
    for sort in (True, False):
        am_ = assume_map({"sort_mdoc": sort, "'PriorRecordDose' in mdoc_file.imgs": False})
        it = Interp(ctx.prog, summaries={"cryocat.mdoc.Mdoc": mdoc_summary}, assume=am_)
        r = it.run(q, [K("series.mdoc")], {"sort_mdoc": K(sort)})
        if "'PriorRecordDose' in mdoc_file.imgs" not in am_.used:
            # the code decides in another way whether the file has prior doses (a lookup that may fail, a default): this branch is not reached
            # by setting the test, so the rule about it decides nothing
            raise Unsupported("total_dose_load: the test for a PriorRecordDose column is not the one the rule configures", fn)
        ev = [e for e in it.events if e.fn == q]
        srt = [e for e in ev if e.kind == "call" and e.name == "DataFrame.sort_values"]
        rst = [e for e in ev if e.kind == "call" and e.name == "DataFrame.reset_index"]
        by = [pyval(e.kwargs.get("by", e.arg(1))) if e.kwargs.get("by", e.arg(1)) is not None and is_pyconst(e.kwargs.get("by", e.arg(1))) else None for e in srt]
        sp = getattr(r.ret, "space", None)
        ctx.count(1, {"branch": "no PriorRecordDose", "sort_mdoc": sort, "dose": tm.show(to_term(r.ret))[:80], "sorts": by, "rows": sp.chain() if sp else None})
        if sp is None or len(srt) != 2 or by[0] != "DateTime" or by[1] is None or len(rst) != 1 or srt[0].kwargs.get("ignore_index") is not None:
            raise Unsupported("total_dose_load (no PriorRecordDose): sort by acquisition time / rank / sort back structure not recognised", fn)
        # the helper column that restores the order holds 0..n-1 and is written before the table is sorted by time
        helper = [e for e in ev if e.kind == "store" and e.name == "columns" and tm.show(to_term(e.args[1])) == f"vec('{by[1]}')"]
        ctx.count(1)
        if len(helper) != 1 or not (to_term(helper[0].args[2]).op == "call" and to_term(helper[0].args[2]).args[0] == "range") \
                or ev.index(helper[0]) > ev.index(srt[0]):
            ctx.finding(q, srt[1].node, f"the doses are put back into the order of the table's rows by sorting on `{by[1]}`: that column must hold the row "
                        "positions 0..n-1 as they were before the table was sorted by acquisition time", srt[1].node, m)
        want = mk("mul", sym("img:ExposureDose"), mk("add", call("index", const(0)), const(1)))
        got = to_term(r.ret)
        got_n = tm.subst(got, {n: call("index", const(0)) for n in tm.walk(got) if n.op == "call" and n.args[0] == "index"})
        ctx.count(1)
        if not tm.equivalent(got_n, want, seed_tag=q + "rank" + str(sort)) or ev.index(rst[0]) < ev.index(srt[0]) or ev.index(rst[0]) > ev.index(srt[1]):
            ctx.finding(q, "mdoc dose without PriorRecordDose", "the accumulated dose must be ExposureDose * (rank in order of acquisition), the rank "
                        "being the row position after sorting by DateTime (index + 1 after reset_index)", fn, m, extracted=tm.show(got)[:120])
    # tlt_load: arrays/lists returned as given; file input sorted ascending iff sort_angles
    q = IO + "tlt_load"
    m, fn = ctx.prog.func(q)
    ctx.touched(q)
    for sa in (True, False):
        it = Interp(ctx.prog, no_inline=("ioutils.one_value_per_line_read",), assume=assume_map({"sort_angles": sa}))
        r = it.run(q, [K("series.tlt")], {"sort_angles": K(sa)})
        t = to_term(r.ret)
        rd = call("cryocat.ioutils.one_value_per_line_read", const("series.tlt"))
        ctx.count(1, {"sort_angles": sa, "returned": tm.show(t)[:80]})
        want = call("numpy.sort", rd) if sa else rd
        if t != want:
            ctx.finding(q, "file input", f"with sort_angles={sa} a .tlt file must be returned {'in ascending order (np.sort)' if sa else 'in file order'}",
                        fn, m, extracted=tm.show(t)[:100])
    # .mdoc input: the tilt angles are the TiltAngle field of the images as the mdoc reader parses them (one reader for every consumer of the
    # file: exponent notation, signs and spacing are its business -- see O17.12)
    for sa in (True, False):
        it = Interp(ctx.prog, summaries={"cryocat.mdoc.Mdoc": mdoc_summary}, assume=assume_map({"sort_angles": sa}))
        r = it.run(q, [K("series.mdoc")], {"sort_angles": K(sa)})
        t = to_term(r.ret)
        ctx.count(1, {"mdoc input, sort_angles": sa, "returned": tm.show(t)[:80]})
        want = call("numpy.sort", sym("img:TiltAngle")) if sa else sym("img:TiltAngle")
        if t != want and not tm.equivalent(t, want, seed_tag=q + "mdoc" + str(sa)):
            if not tm.has_sym(t, "img:TiltAngle"):
                ctx.finding(q, "mdoc input", "the tilt angles of an .mdoc file must be the TiltAngle values of the images as parsed by the mdoc reader "
                            f"(Mdoc(...).get_image_feature('TiltAngle')); the code returns {tm.show(t)[:100]}: a second, private reading of the file "
                            "need not agree with the reader on exponent notation, signs or spacing", fn, m)
            else:
                ctx.finding(q, "mdoc input", f"with sort_angles={sa} the TiltAngle values must be returned {'in ascending order' if sa else 'in file order'}; "
                            f"got {tm.show(t)[:100]}", fn, m)
    it = Interp(ctx.prog, assume=assume_map({"isinstance(input_tlt, np.ndarray)": True, "input_tlt.size == 0": False}))
    r = it.run(q, [typed(Unk(sym("angles")), "ndarray")], {})
    ctx.count(1)
    if to_term(r.ret) != sym("angles"):
        ctx.finding(q, "array input", "an array of tilt angles must be returned as it is", fn, m)


WEDGE_LOADERS = ("ioutils.tlt_load", "ioutils.defocus_load", "ioutils.total_dose_load", "ioutils.dimensions_load", "ioutils.z_shift_load",
                 "wedgeutils.check_data_consistency", "ioutils.fileformat_replace_pattern")


def uses(term, callee, *syms):
    hit = [n for n in tm.walk(term) if n.op == "call" and n.args[0] == "cryocat." + callee]
    return bool(hit) and all(tm.has_sym(hit[0], s) for s in syms)


def o17_defocus_array(ctx):
    """defocus_load(<N x 5 array>): one row per tilt, the five columns named defocus1, defocus2, astigmatism, phase_shift, defocus_mean in the
    order given -- for every N (5 tilts included)"""
    q = IO + "defocus_load"
    m, fn = ctx.prog.func(q)
    ctx.touched(q)
    S_ = Space("the caller's defocus table", how="root")
    src_ = Arr([sym(f"d{k}") for k in range(5)], 2, space=S_)
    it = Interp(ctx.prog, assume=assume_map({"isinstance(input_data, str)": False, "isinstance(input_data, pd.DataFrame)": False}))
    r = it.run(q, [typed(src_, "ndarray")], {})
    d = r.ret
    names = ["defocus1", "defocus2", "astigmatism", "phase_shift", "defocus_mean"]
    if not isinstance(d, Frame) or d.order is None:
        raise Unsupported("defocus_load(<N x 5 array>) does not return a table", fn)
    ctx.count(1, {"defocus_load(array)": {c: tm.show(t)[:40] for c, t in d.cols.items()}})
    if list(d.order) != names:
        ctx.finding(q, "array input", f"an N x 5 array must come back with the columns {names} (got {list(d.order)})", fn, m)
        return
    for k, c in enumerate(names):
        ctx.count(1)
        if d.cols[c] != sym(f"d{k}"):
            ctx.finding(q, f"array input, column {c}", f"column {c} must be column {k} of the array as given; it becomes {tm.show(d.cols[c])[:100]}", fn, m)


def o174(ctx):
    q = "wedgeutils.create_wedge_list_sg"
    m, fn = ctx.prog.func(q)
    ctx.touched(q)
    it = Interp(ctx.prog, no_inline=WEDGE_LOADERS + ("starfileio.Starfile.write",),
                assume=assume_map({"ctf_file is not None": True, "dose_file is not None": True, "drop_nan_columns": False,
                                   "output_file is not None": False}))
    params = ["tomo_id", "tomo_dim", "pixel_size", "tlt_file", "z_shift", "ctf_file", "ctf_file_type", "dose_file", "voltage", "amp_contrast", "cs"]
    r = it.run(q, [], {p: P(p) for p in params})
    f = r.ret
    if not isinstance(f, Frame):
        raise Unsupported("create_wedge_list_sg does not return a table", fn)
    wiring = {
        "tilt_angle": lambda t: uses(t, "ioutils.tlt_load", "tlt_file") and not uses(t, "ioutils.defocus_load"),
        "defocus": lambda t: uses(t, "ioutils.defocus_load", "ctf_file", "ctf_file_type") and tm.contains(t, lambda n: n.op == "const" and n.args[0] == "defocus_mean"),
        "exposure": lambda t: uses(t, "ioutils.total_dose_load", "dose_file") and not uses(t, "ioutils.tlt_load"),
        "tomo_num": lambda t: t == sym("tomo_id"), "pixelsize": lambda t: t == sym("pixel_size"),
        "voltage": lambda t: t == sym("voltage"), "amp_contrast": lambda t: t == sym("amp_contrast"), "cs": lambda t: t == sym("cs"),
        "z_shift": lambda t: uses(t, "ioutils.z_shift_load", "z_shift") and not uses(t, "ioutils.dimensions_load"),
    }
    for c, ok in wiring.items():
        t = f.cols.get(c)
        ctx.count(1, {"column": c, "source": tm.show(t)[:90] if t is not None else None})
        if t is None or not ok(t):
            node = last_store(it, f, c) or fn
            ctx.finding(q, node, f"wedge-list column {c!r} must hold the like-named input ({ {'tilt_angle': 'tilts of tlt_file', 'defocus': 'defocus_mean of ctf_file', 'exposure': 'dose of dose_file', 'z_shift': 'z-shift'}.get(c, c) })",
                        node, m, extracted=tm.show(t)[:120] if t is not None else None)
    # the per-image columns hold the loaders' values themselves: widening conversions and re-wrapping apart, nothing acts on them (no rounding,
    # scaling, clipping) -- the wedge list states the tilt, defocus and dose of image i as the input files give them
    KEEP = ("numpy.asarray", "numpy.array", "numpy.atleast_1d", "numpy.ravel", ".ravel", ".flatten", ".to_numpy", ".copy", "numpy.squeeze", "numpy.float64", "float")

    def bare(t_):
        while t_.op in ("float",) or (t_.op == "call" and str(t_.args[0]) in KEEP and len(t_.args) >= 2) \
                or (t_.op == "call" and str(t_.args[0]) == ".astype" and len(t_.args) >= 3 and tm.show(t_.args[2]) in ("'ref:builtins.float'", "'ref:numpy.float64'")):
            t_ = t_.args[0] if t_.op == "float" else t_.args[1]
        return t_

    exact = {"tilt_angle": call("cryocat.ioutils.tlt_load", sym("tlt_file")),
             "exposure": call("cryocat.ioutils.total_dose_load", sym("dose_file"))}
    for c, want_ in exact.items():
        t = f.cols.get(c)
        ctx.count(1)
        if t is None or not wiring[c](t):
            continue  # reported above
        got_ = bare(t)
        if got_.op == "call" and got_.args[0] == want_.args[0] and got_ != want_ and len(got_.args) > 2:
            continue  # further options handed to the loader: the loader's own obligations
        if got_ != want_ and tm.contains(t, lambda n: n.op == "call" and str(n.args[0]) in (
                "numpy.sort", "numpy.unique", "numpy.argsort", "builtins.sorted", "numpy.flip", ".sort_values", "numpy.lexsort", "builtins.reversed")):
            continue  # re-ordered / thinned: the row-pairing rule below reports it
        if got_ != want_:
            altered = tm.contains(t, lambda n: n.op in ("round", "mul", "div", "add", "sub", "int", "narrow") or (n.op == "call" and str(n.args[0]) in
                                                   ("numpy.round", "numpy.around", "numpy.clip", "numpy.rint", "numpy.floor", "numpy.ceil", ".round", ".astype", "cast")))
            node = last_store(it, f, c) or fn
            if not altered:
                raise Unsupported(f"wedge-list column {c!r} is derived from the loader's values in a way the rule does not follow: {tm.show(t)[:100]}", node)
            ctx.finding(q, node, f"wedge-list column {c!r} must hold the values {want_.args[0].split('.')[-1]} returns, as they are; the code stores "
                        f"{tm.show(t)[:100]} (rounded / rescaled / converted values are not the input's)", node, m)
    # a column taken from a TABLE a loader hands back (defocus_load returns a caller's DataFrame as given, with the caller's row labels) goes into the
    # freshly built wedge list by position: the labels are stripped (.values / .to_numpy() / np.asarray) before the assignment, which otherwise aligns
    # on the labels (rows of a table whose bad tilts were dropped, or that was re-sorted, land on other images or become NaN)
    tables = {t_.id for a_ in ast.walk(fn) if isinstance(a_, ast.Assign) and isinstance(a_.value, ast.Call)
              and (ctx.prog.resolve(m, a_.value.func) or "").endswith("ioutils.defocus_load") for t_ in a_.targets if isinstance(t_, ast.Name)}
    for a_ in ast.walk(fn):
        if not (isinstance(a_, ast.Assign) and len(a_.targets) == 1 and isinstance(a_.targets[0], ast.Subscript)):
            continue
        v_ = a_.value
        from_table = [x for x in ast.walk(v_) if isinstance(x, ast.Subscript) and isinstance(x.value, ast.Name) and x.value.id in tables]
        if not from_table:
            continue
        ctx.count(1)
        stripped = (isinstance(v_, ast.Attribute) and v_.attr == "values") or (isinstance(v_, ast.Call) and isinstance(v_.func, ast.Attribute) and v_.func.attr in ("to_numpy", "tolist", "to_list")) \
            or (isinstance(v_, ast.Call) and (ctx.prog.resolve(m, v_.func) or "") in ("numpy.asarray", "numpy.array"))
        if not stripped and isinstance(v_, ast.Subscript) and v_ is from_table[0]:
            ctx.finding(q, a_, f"`{norm_text(a_)[:80]}` assigns a column of the loader's table with its row labels: the assignment aligns on the labels instead of pairing "
                        "row i with row i (a defocus table given as a DataFrame with dropped or re-sorted rows lands on other tilts / becomes NaN)", a_, m)
        elif not stripped:
            raise Unsupported(f"wedge list: `{norm_text(a_)[:80]}` derives a column from the loader's table in a way the label rule does not follow", a_)
    # row pairing: image i keeps its tilt, defocus and dose -- none of the per-image columns may be re-ordered or thinned on its own
    REORDER = ("numpy.sort", "numpy.unique", "numpy.argsort", "builtins.sorted", "numpy.flip", ".sort_values", "numpy.lexsort", "builtins.reversed")
    for c in ("tilt_angle", "defocus", "exposure"):
        t = f.cols.get(c)
        ctx.count(1)
        hit = [n for n in tm.walk(t) if n.op == "call" and str(n.args[0]) in REORDER] if t is not None else []
        if hit:
            node = last_store(it, f, c) or fn
            ctx.finding(q, node, f"wedge-list column {c!r} is re-ordered / thinned on its own ({hit[0].args[0]}): row i must pair the i-th tilt "
                        "with the i-th defocus and dose of the inputs (array inputs come in acquisition order)", node, m, extracted=tm.show(t)[:120])
    for k, c in enumerate(("tomo_x", "tomo_y", "tomo_z")):
        t = f.cols.get(c)
        ctx.count(1)
        ok = t is not None and uses(t, "ioutils.dimensions_load", "tomo_dim") and t.op == "call" and t.args[0] == "comp" and tm.cval(t.args[2]) == k
        if not ok:
            node = last_store(it, f, c) or fn
            ctx.finding(q, node, f"{c} must be component {k} of the tomogram dimensions (x, y, z order)", node, m,
                        extracted=tm.show(t)[:120] if t is not None else None)
    # batch: per-tomogram lookup by tomo_id == t
    qb = "wedgeutils.create_wedge_list_sg_batch"
    mb, fb = ctx.prog.func(qb)
    ctx.touched(qb)

    def dims_summary(it_, a, k, n, f_):
        d = Frame({c: sym("dim:" + c) for c in ("tomo_id", "x", "y", "z")}, ["tomo_id", "x", "y", "z"], name="tomo_dimensions")
        d.space = Space("dims", how="root")
        return d

    def zs_summary(it_, a, k, n, f_):
        d = Frame({c: sym("zs:" + c) for c in ("tomo_id", "z_shift")}, ["tomo_id", "z_shift"], name="z_shift_df")
        d.space = Space("zs", how="root")
        return d

    it = Interp(ctx.prog, no_inline=("ioutils.tlt_load", "ioutils.fileformat_replace_pattern", "wedgeutils.create_wedge_list_sg", "starfileio.Starfile.write"),
                summaries={"cryocat.ioutils.dimensions_load": dims_summary, "cryocat.ioutils.z_shift_load": zs_summary},
                assume=assume_map({"tomo_dim_file_format is None": True, "tomo_dim is not None": True, "z_shift_file_format is None": True,
                                   "tomo_dim_file_format is not None": False, "z_shift_file_format is not None": False,
                                   "ctf_file_format is not None": True, "dose_file_format is not None": True, "output_file is not None": False}))
    bp = ["tomo_list", "pixel_size", "tlt_file_format", "tomo_dim", "z_shift", "ctf_file_format", "ctf_file_type", "dose_file_format", "voltage", "amp_contrast", "cs"]
    it.run(qb, [], dict({p: P(p) for p in bp}, tomo_dim_file_format=K(None), z_shift_file_format=K(None)))
    calls = [e for e in it.events if e.kind == "call" and e.name == "cryocat.wedgeutils.create_wedge_list_sg"]
    if len(calls) != 1:
        raise Unsupported("batch: call of create_wedge_list_sg not found", fb)
    ev = calls[0]
    names = [a.arg for a in fn.args.args]
    b = dict(zip(names, ev.args))
    b.update(ev.kwargs)
    t_id = to_term(b.get("tomo_id"))
    ctx.count(1, {"per-tomogram call": {k: tm.show(to_term(v))[:70] for k, v in b.items()}})
    for pname, prefix, what in (("tomo_dim", "dim:", "dimensions"), ("z_shift", "zs:", "z-shift")):
        t = to_term(b.get(pname))
        sels = [n for n in tm.walk(t) if n.op == "sel" and tm.has_sym(n.args[0], prefix + ("x" if pname == "tomo_dim" else "z_shift"))]
        ok = bool(sels) and all(len(s_.args) == 2 and tm.equivalent(s_.args[1], mk("eq", sym(prefix + "tomo_id"), t_id), seed_tag="bt" + pname) for s_ in sels)
        ctx.count(1)
        if not ok:
            ctx.finding(qb, ev.node, f"the {what} of tomogram t must be looked up in the row whose tomo_id equals t (not by the loop "
                        "position: the table's row order need not match the processing order)", ev.node, mb, extracted=tm.show(t)[:160])
    for pname, src in (("pixel_size", "pixel_size"), ("voltage", "voltage"), ("amp_contrast", "amp_contrast"), ("cs", "cs"), ("ctf_file_type", "ctf_file_type")):
        ctx.count(1)
        if to_term(b.get(pname)) != sym(src):
            ctx.finding(qb, ev.node, f"the batch variant must pass {src} on unchanged", ev.node, mb)
    for pname, fmt in (("tlt_file", "tlt_file_format"), ("ctf_file", "ctf_file_format"), ("dose_file", "dose_file_format")):
        t = to_term(b.get(pname))
        ctx.count(1)
        if not (uses(t, "ioutils.fileformat_replace_pattern", fmt) and tm.contains(t, lambda n: n == t_id)):
            ctx.finding(qb, ev.node, f"{pname} must be generated from {fmt} for the tomogram being processed", ev.node, mb,
                        extracted=tm.show(t)[:120])
    # EM wedge list: min -> min_angle, max -> max_angle of the same tomogram
    qe = "wedgeutils.create_wedge_list_em_batch"
    me_, fe = ctx.prog.func(qe)
    ctx.touched(qe)
    it = Interp(ctx.prog, no_inline=("ioutils.tlt_load", "ioutils.fileformat_replace_pattern"), assume=assume_map({"output_file is not None": False}))
    r = it.run(qe, [P("tomo_list"), P("tlt_file_format")], {})
    f = r.ret
    if not isinstance(f, Frame):
        raise Unsupported("create_wedge_list_em_batch does not return a table", fe)
    ctx.count(1, {"EM wedge list": {k: tm.show(v)[:90] for k, v in f.cols.items()}, "order": f.order})
    for c, red in (("min_angle", "reduce:min"), ("max_angle", "reduce:max")):
        t = f.cols.get(c)
        ctx.count(1)
        top_ok = t is not None and t.op == "call" and t.args[0] == red  # the extreme itself, nothing folded into it (initial=, clip, ...)
        if t is not None and not tm.has_call(t, "reduce:min") and not tm.has_call(t, "reduce:max") and not uses(t, "ioutils.tlt_load"):
            # the column is read out of a buffer the interpretation did not follow (filled through a view by a helper): what it holds is not decided
            raise Unsupported(f"EM wedge list: column {c!r} comes out of a buffer whose filling is not followed ({tm.show(t)[:60]})", last_store(it, f, c) or fe)
        if t is None or not top_ok or not (tm.has_call(t, red) and not tm.has_call(t, "reduce:max" if red.endswith("min") else "reduce:min")
                                           and uses(t, "ioutils.tlt_load")):
            ctx.finding(qe, last_store(it, f, c) or fe, f"{c} must be the {'minimum' if 'min' in c else 'maximum'} tilt angle of the tomogram",
                        last_store(it, f, c) or fe, me_, extracted=tm.show(t)[:120] if t is not None else None)
    ctx.count(1)
    if f.order != ["tomo_num", "min_angle", "max_angle"]:
        ctx.finding(qe, "column order", "the EM wedge list columns are (tomo_num, min_angle, max_angle)", fe, me_, order=f.order)
    # sg -> em aggregation
    qa = "wedgeutils.wedge_list_sg_to_em"
    ma, fa = ctx.prog.func(qa)
    ctx.touched(qa)
    aggs = [n for n in ast.walk(fa) if isinstance(n, ast.Call) and isinstance(n.func, ast.Attribute) and n.func.attr == "agg"]
    ctx.count(1)
    if len(aggs) != 1:
        raise Unsupported("aggregation in wedge_list_sg_to_em not found", fa)
    kws = {k.arg: ast.literal_eval(k.value) for k in aggs[0].keywords}
    vals = list(kws.values())
    if vals != [("tilt_angle", "min"), ("tilt_angle", "max")]:
        ctx.finding(qa, aggs[0], "the EM list must hold (min, max) of tilt_angle per tomogram, in this order", aggs[0], ma, found=kws)
    gb = aggs[0].func.value
    ctx.count(1)
    if not (isinstance(gb, ast.Call) and isinstance(gb.func, ast.Attribute) and gb.func.attr == "groupby" and gb.args
            and isinstance(gb.args[0], ast.Constant) and gb.args[0].value == "tomo_num"):
        ctx.finding(qa, aggs[0], "the tilts must be grouped per tomogram (tomo_num)", aggs[0], ma)


def o175(ctx):
    """mdoc"""
    q = "mdoc.Mdoc.write"
    m, fn = ctx.prog.func(q)
    ctx.touched(q, "mdoc.Mdoc._parse_images", "mdoc.Mdoc._parse_header", "mdoc.Mdoc.remove_images", "mdoc.Mdoc.remove_image")
    # (a) write filter truth table
    ifs = [n for n in ast.walk(fn) if isinstance(n, ast.If) and "Removed" in ast.unparse(n.test) and "removed" in ast.unparse(n.test)]
    if len(ifs) != 1:
        raise Unsupported("section filter of Mdoc.write not found", fn)
    test = ifs[0].test
    row_names = {n.value.id for n in ast.walk(test) if isinstance(n, ast.Subscript) and isinstance(n.value, ast.Name)
                 and isinstance(n.slice, ast.Constant) and n.slice.value == "Removed"}
    other = {n.id for n in ast.walk(test) if isinstance(n, ast.Name)} - row_names
    if len(row_names) != 1 or other != {"removed"}:
        raise Unsupported("section filter of Mdoc.write: expected a test over <row>['Removed'] and the option `removed`", test)
    for removed in (True, False):
        for flagged in (True, False):
            env = {"removed": removed, next(iter(row_names)): {"Removed": flagged}}
            got = bool(eval(compile(ast.Expression(test), "<f>", "eval"), {"__builtins__": {}}, env))
            want = removed or not flagged
            ctx.count(1, {"removed option": removed, "image flagged": flagged, "written": got})
            if got != want:
                ctx.finding(q, test, f"with removed={removed} an image whose Removed flag is {flagged} must {'be' if want else 'not be'} written",
                            test, m)
    # (a2) inside a written section every field is written whatever its value: the per-field test may depend on the column name only
    col_loops = [n for n in ast.walk(fn) if isinstance(n, ast.For) and isinstance(n.target, ast.Name) and isinstance(n.iter, ast.Attribute)
                 and n.iter.attr == "columns"]
    if len(col_loops) != 1:
        raise Unsupported("field loop (for column in <table>.columns) of Mdoc.write not found", fn)
    cl = col_loops[0]
    cv = cl.target.id
    for t_ in [n.test for n in ast.walk(cl) if isinstance(n, ast.If)]:
        ctx.count(1)
        value_reads = [x for x in ast.walk(t_) if isinstance(x, ast.Subscript) and isinstance(x.slice, ast.Name) and x.slice.id == cv]
        if value_reads:
            ctx.finding(q, t_, "a field is written or skipped depending on its value: values that are falsy (0, 0.0, empty text) disappear from the "
                        "written section, so the re-read table loses the column or gets NaN", t_, m)
    ctx.count(1)
    wrote = [n for n in ast.walk(cl) if isinstance(n, ast.Call) and isinstance(n.func, ast.Attribute) and n.func.attr == "write"
             and any(isinstance(x, ast.Subscript) and isinstance(x.slice, ast.Name) and x.slice.id == cv for x in ast.walk(n))]
    if not wrote:
        ctx.finding(q, cl, "each field of a written section must be written with its value (row[column])", cl, m)
    # (b) writer/reader characters
    fmts = [n.func.value.value for n in ast.walk(fn) if isinstance(n, ast.Call) and isinstance(n.func, ast.Attribute) and n.func.attr == "format"
            and isinstance(n.func.value, ast.Constant) and isinstance(n.func.value.value, str)
            and isinstance(m.parents.get(n), ast.Call) and isinstance(m.parents.get(n).func, ast.Attribute) and m.parents.get(n).func.attr == "write"]
    ctx.count(len(fmts), {"writer formats": fmts})
    kv = [f for f in fmts if not f.startswith("[")]
    sec = [f for f in fmts if f.startswith("[")]
    if not kv or not sec:
        raise Unsupported("mdoc writer format strings not recognised", fn)
    mr, fr_ = ctx.prog.func("mdoc.Mdoc._parse_images")
    mh, fh = ctx.prog.func("mdoc.Mdoc._parse_header")
    splits = {n.args[0].value for f_ in (fr_, fh) for n in ast.walk(f_) if isinstance(n, ast.Call) and isinstance(n.func, ast.Attribute)
              and n.func.attr == "split" and n.args and isinstance(n.args[0], ast.Constant)}
    starts = {n.args[0].value for f_ in (fr_, fh) for n in ast.walk(f_) if isinstance(n, ast.Call) and isinstance(n.func, ast.Attribute)
              and n.func.attr == "startswith" and n.args and isinstance(n.args[0], ast.Constant)}
    strips = {n.args[0].value for f_ in (fr_, fh) for n in ast.walk(f_) if isinstance(n, ast.Call) and isinstance(n.func, ast.Attribute)
              and n.func.attr == "strip" and n.args and isinstance(n.args[0], ast.Constant)}
    ctx.count(1, {"reader split": sorted(splits), "startswith": sorted(starts), "strip": sorted(strips)})
    if len(splits) != 1:
        raise Unsupported("mdoc reader key/value separator not unique", fr_)
    sep = next(iter(splits))
    for f_ in kv:
        if f_.count(sep) != 1 or not f_.endswith("\n"):
            ctx.finding(q, "key/value line format", f"key/value lines are written as {f_!r}; the reader splits each line once at {sep!r}", fn, m)
    for f_ in sec:
        opener = f_[0]
        if opener not in starts or ("]" not in strips) or not f_.rstrip("\n").endswith("]"):
            ctx.finding(q, "section line format", f"section lines are written as {f_!r}; the reader recognises sections by a leading "
                        f"{sorted(starts)} and strips {sorted(strips)}", fn, m)
    # reader: the per-image table holds every key of every section (union) -- a table built from the parsed records may not be
    # restricted to a column list (the list the reader prepares comes from the first section only)
    ctors = [n for n in ast.walk(fr_) if isinstance(n, ast.Call) and ctx.prog.resolve(mr, n.func) == "pandas.DataFrame"]
    ctx.count(len(ctors), {"table constructions in _parse_images": [ast.unparse(c_)[:60] for c_ in ctors]})
    if not ctors:
        raise Unsupported("table construction in Mdoc._parse_images not found", fr_)
    for c_ in ctors:
        data = c_.args[0] if c_.args else kwarg(c_, "data")
        has_data = data is not None and not (isinstance(data, ast.Constant) and data.value is None)
        if has_data and kwarg(c_, "columns") is not None:
            par_ = mr.parents.get(c_)
            while par_ is not None and par_ is not fr_ and not isinstance(par_, ast.If):
                par_ = mr.parents.get(par_)
            if isinstance(par_, ast.If):
                # built from a prepared column list only under a condition: whether that condition rules out keys that first appear in a
                # later section is not decided here
                raise Unsupported("the table of parsed sections is built with a prepared column list under a condition", c_)
            ctx.finding("mdoc.Mdoc._parse_images", c_, "the table of parsed sections is restricted to a prepared column list: keys that first appear in a "
                        "later section (a field missing on the first image) are silently dropped from the table and from every file written "
                        "afterwards", c_, mr)
    # excluded columns
    cols_if = [n for n in ast.walk(fn) if isinstance(n, ast.If) and "column" in ast.unparse(n.test) and "Removed" in ast.unparse(n.test)]
    ctx.count(1)
    if len(cols_if) != 1 or "section_id" not in ast.unparse(cols_if[0].test) or not all(isinstance(o, ast.NotEq) for c in ast.walk(cols_if[0].test)
                                                                                      if isinstance(c, ast.Compare) for o in c.ops):
        ctx.finding(q, cols_if[0].test if cols_if else fn, "every image field except the section id and the Removed flag must be written",
                    cols_if[0].test if cols_if else fn, m)
    # reader and writer agree on the bookkeeping columns: every column the reader adds under a name of its own (not a key of the file) is left
    # out by the writer -- otherwise every written file gains a field no source image had, and reading it back gives another table
    added = {}
    for n_ in ast.walk(fr_):
        if isinstance(n_, ast.Assign):
            for t_ in n_.targets:
                if isinstance(t_, ast.Subscript) and isinstance(t_.slice, ast.Constant) and isinstance(t_.slice.value, str) and isinstance(t_.value, ast.Name):
                    reads_itself = any(isinstance(x_, ast.Subscript) and isinstance(x_.slice, ast.Constant) and x_.slice.value == t_.slice.value
                                       for x_ in ast.walk(n_.value))
                    if not reads_itself:  # a conversion of a column of the file (`imgs['TiltAngle'] = imgs['TiltAngle'].astype(float)`) adds nothing
                        added.setdefault(t_.slice.value, n_)
    excluded = {c_.value for c_ in ast.walk(cols_if[0].test) if isinstance(c_, ast.Constant) and isinstance(c_.value, str)} if cols_if else set()
    ctx.count(1, {"columns the reader adds under a name of its own": sorted(added), "literal names the writer leaves out": sorted(excluded)})
    for name_, node_ in sorted(added.items()):
        if name_ not in excluded:
            ctx.finding("mdoc.Mdoc._parse_images", node_, f"the reader adds a column `{name_}` of its own to the image table, and Mdoc.write does not leave it out: "
                        f"every file written gains a `{name_} = ...` field per image that the source did not have (reader and writer must agree on the "
                        "bookkeeping columns, as they do for `Removed`)", node_, mr)
    # (c) sort_by_tilt only sorts; remove_image(s) only set the flag, positions -> labels exactly once
    qs = "mdoc.Mdoc.sort_by_tilt"
    ms, fs = ctx.prog.func(qs)
    for reset in (False, True):
        it = Interp(ctx.prog, assume=assume_map({"reset_z_value": reset}))
        me = mdoc_summary(None, [], {}, None, None)
        it.run(qs, [], {"reset_z_value": K(reset)}, self_obj=me)
        f = me.attrs["imgs"]
        ctx.count(1, {"reset_z_value": reset, "written": sorted(f.written), "history": [str(n) for n in f.notes]})
        if not isinstance(f, Frame) or not any(n[0] == "sort_values" and tm.cval(n[1]) == "TiltAngle" and tm.cval(n[2]) is True for n in f.notes):
            ctx.finding(qs, fs, "sort_by_tilt must sort the image table by TiltAngle ascending", fs, ms)
        if isinstance(f, Frame) and f.written - ({"ZValue"} if reset else set()):
            ctx.finding(qs, fs, f"sort_by_tilt must change only the order{' and ZValue' if reset else ''}; it writes {sorted(f.written)}", fs, ms)
    qr = "mdoc.Mdoc.remove_images"
    mr_, frm = ctx.prog.func(qr)
    # all positions refer to the list of kept images as it is when the call starts: that list is taken once, before the loop that flags them
    for lp_ in [n for n in ast.walk(frm) if isinstance(n, (ast.For, ast.While))]:
        inside = [c_ for c_ in ast.walk(lp_) if isinstance(c_, ast.Call) and isinstance(c_.func, ast.Attribute) and c_.func.attr in ("kept_images", "removed_images")]
        ctx.count(1)
        if inside:
            ctx.finding(qr, inside[0], "the list of kept images is re-evaluated inside the loop that removes them: after the first removal every later "
                        "position points one image further (remove_images([2, 3]) flags the 3rd and the 5th image)", inside[0], mr_)
    for kept in (True, False):
        it = Interp(ctx.prog, assume=assume_map({"kept_only": kept}))
        me = mdoc_summary(None, [], {}, None, None)
        it.run(qr, [Unk(sym("positions"))], {"kept_only": K(kept)}, self_obj=me)
        f = me.attrs["imgs"]
        stores = [e for e in it.events if e.kind == "store" and e.extra.get("frame") is f]
        ctx.count(1, {"kept_only": kept, "written": sorted(f.written)})
        if f.written != {"Removed"}:
            ctx.finding(qr, frm, f"removing images must only set the Removed flag (writes {sorted(f.written)})", frm, mr_)
        for e in it.events:
            if e.kind == "typing" and e.name == "label-used-as-position":
                mm, _ = ctx.prog.func(e.fn)
                ctx.finding(e.fn, e.node, "an index label (already translated from a position among the kept images) is used as a "
                            "position again: after sort_by_tilt labels and positions differ and the wrong image is flagged", e.node, mm)
        # the labels come from the selection of (kept) images as it stands in the full table: a selection that was renumbered 0..n-1 on the way
        # (reset_index in kept_images / removed_images) hands out positions, which are then used as labels of the full table
        renum = [e for e in it.events if e.kind == "call" and e.name == "DataFrame.reset_index" and e.fn.split(".")[-1] in ("kept_images", "removed_images", "remove_images")]
        ctx.count(1)
        if renum:
            mm_, _ = ctx.prog.func(renum[0].fn)
            ctx.finding(renum[0].fn, "index of the kept images", "the table of kept / removed images is renumbered 0..n-1 (reset_index) before remove_images takes its index "
                        "as labels of the full image table: position k among the kept images is then used as label k of the full table -- right on a freshly read "
                        "file, wrong after a first removal or after sort_by_tilt", renum[0].node, mm_)
        ctx.count(1)
        lab = [e for e in stores if e.extra.get("mask") is not None]
        if not lab or not any(tm.has_call(e.extra["mask"], "getitem") and tm.has_call(e.extra["mask"], "index") for e in lab):
            ctx.finding(qr, frm, "positions must be translated to index labels of the (kept) images before flagging", frm, mr_)
        else:
            msk = lab[0].extra["mask"]
            want_space = "filter" if kept else None
            idxs = [n for n in tm.walk(msk) if n.op == "call" and n.args[0] == "index"]
            ctx.count(1)


def o178(ctx):
    """z_shift_load / dimensions_load with one value for all tomograms: the value comes back unchanged (fractional shifts included), whether it
    is a Python number or a numpy scalar (the batch function hands every tomogram's shift on as a numpy scalar)"""
    q = "ioutils.z_shift_load"
    m, fn = ctx.prog.func(q)
    ctx.touched(q)

    def assume(fn_, node_, av_, module_=None):
        n_, neg = node_, False
        while isinstance(n_, ast.UnaryOp) and isinstance(n_.op, ast.Not):
            n_, neg = n_.operand, not neg
        if isinstance(n_, ast.Call) and isinstance(n_.func, ast.Name) and n_.func.id == "isinstance" and len(n_.args) == 2 \
                and ast.unparse(n_.args[0]) == "input_shift":
            names = {ast.unparse(x).split(".")[-1] for x in (n_.args[1].elts if isinstance(n_.args[1], ast.Tuple) else [n_.args[1]])}
            return bool(names & {"float", "int", "number", "floating", "integer", "float64", "Real", "Number"}) != neg
        return None

    it = Interp(ctx.prog, assume=assume)
    r = it.run(q, [P("zs")], {})
    f = r.ret
    if not isinstance(f, Frame) or "z_shift" not in f.cols:
        raise Unsupported("z_shift_load(<number>) does not return a table with a z_shift column", fn)
    v = tm.equivalent(f.cols["z_shift"], sym("zs"), samplers={"zs": lambda rng: float(rng.integers(-60, 60)) + float(rng.choice([0.0, 0.25, 0.5, 0.75]))},
                      n=30, seed_tag=q)
    ctx.count(1, {"z_shift_load(number)": tm.show(f.cols["z_shift"])[:80], "equal": bool(v)})
    if not v:
        ctx.finding(q, "scalar input", f"a single z-shift must come back as given (fractional values included); the table holds {tm.show(f.cols['z_shift'])[:80]}",
                    fn, m, witness=v.witness)
    ctx.count(1)
    if f.order != ["z_shift"]:
        ctx.finding(q, "scalar input", f"a single z-shift gives a one-column table named z_shift (got {f.order})", fn, m)


def o177(ctx):
    """the module-level wrappers write the very object they return: the file is produced by Mdoc.write of the updated object"""
    src = lambda n: " ".join(ast.unparse(n).split())
    for q in ("mdoc.remove_images", "mdoc.sort_mdoc_by_tilt_angles"):
        m, fn = ctx.prog.func(q)
        ctx.touched(q)
        rets = [r_.value for r_ in ast.walk(fn) if isinstance(r_, ast.Return) and r_.value is not None]
        if len(rets) != 1 or not isinstance(rets[0], ast.Name):
            raise Unsupported(f"{q}: returned object not recognised", fn)
        obj = rets[0].id
        writes = [c for c in ast.walk(fn) if isinstance(c, ast.Call) and isinstance(c.func, ast.Attribute) and c.func.attr == "write"
                  and isinstance(c.func.value, ast.Name) and c.func.value.id == obj]
        others = [c for c in ast.walk(fn) if isinstance(c, ast.Call) and (
            (isinstance(c.func, ast.Name) and c.func.id == "open" and any(isinstance(a_, ast.Constant) and isinstance(a_.value, str) and
                                                                           set(a_.value) & set("wax+") for a_ in list(c.args[1:]) + [k.value for k in c.keywords]))
            or (isinstance(c.func, ast.Attribute) and c.func.attr in ("writelines", "write_text", "to_csv", "savetxt", "copyfile", "copy")))]
        ctx.count(1, {"function": q, "written by": [src(c)[:60] for c in writes], "other sinks": [src(c)[:60] for c in others]})
        if others:
            raise Unsupported(f"{q}: the output file is (also) produced by other means than {obj}.write(...): what it holds is not decided "
                              "by the rules for Mdoc.write", others[0])
        if len(writes) != 1:
            ctx.finding(q, fn, f"with an output file the updated object itself must be written once ({obj}.write(output_file, ...))", fn, m)
            continue
        w = writes[0]
        ctx.count(1)
        a0 = w.args[0] if w.args else kwarg(w, "out_path")
        if not (isinstance(a0, ast.Name) and a0.id == "output_file"):
            ctx.finding(q, w, "the caller's output_file must be the path written", w, m)
        upd = [c for c in ast.walk(fn) if isinstance(c, ast.Call) and isinstance(c.func, ast.Attribute) and isinstance(c.func.value, ast.Name)
               and c.func.value.id == obj and c.func.attr in ("remove_images", "sort_by_tilt")]
        ctx.count(1)
        if not upd or min(c.lineno for c in upd) > w.lineno:
            ctx.finding(q, w, "the object must be updated (images removed / sorted) before it is written", w, m)


def o1712(ctx):
    """mdoc values: what the reader makes of the text after `key =` (followed on literal texts, sa/concrete.py).  Whole numbers and decimal
    numbers come back as numbers, everything else as the text itself, stripped -- in particular texts that only look like numbers to
    int() / float() (digit groups joined by underscores, 'nan', 'inf') stay text: they are labels, file names and dates, and a written
    mdoc must re-read to the same entries.  Negative numbers and exponents are left open (today they stay text)."""
    from sa.concrete import LiteralInterp, Raised
    q = "mdoc.Mdoc._format_value"
    m, fn = ctx.prog.func(q)
    ctx.touched(q)
    probes = [("12_3", "12_3"), ("0017_0003", "0017_0003"), ("2023_06_06", "2023_06_06"), (" NaN", "NaN"), ("nan", "nan"), ("inf", "inf"), ("Infinity", "Infinity"),
              (" 1_0.5", "1_0.5"), (" 12", 12), ("0", 0), (" 1.5 ", 1.5), ("300.0", 300.0), ("abc ", "abc"), (" a b", "a b"), ("1.2.3", "1.2.3"),
              ("SerialEM: Digitized on ...", "SerialEM: Digitized on ..."), ("D:\\frames\\ts_01.tif", "D:\\frames\\ts_01.tif")]
    undecided = None
    for text, want in probes:
        try:
            r = LiteralInterp(ctx.prog).run(q, [K(text)], {})
        except Raised as e:
            ctx.count(1)
            ctx.finding(q, e.node, f"the value text {text!r} makes the reader raise (line {getattr(e.node, 'lineno', '?')})", e.node, m)
            continue
        except Unsupported as e:
            undecided = undecided or e
            continue
        ctx.count(1, {"text": text, "value": repr(pyval(r.ret)) if is_pyconst(r.ret) else str(r.ret)[:40]})
        if not is_pyconst(r.ret):
            undecided = undecided or Unsupported(f"_format_value({text!r}) does not give a literal value", fn)
            continue
        got = pyval(r.ret)
        if type(got) is not type(want) or got != want:
            ctx.finding(q, f"value text {text!r}", f"the entry `key = {text.strip()}` is read as {got!r} ({type(got).__name__}); it must come back as "
                        f"{want!r} ({type(want).__name__}): a label, file name or date that only looks like a number to int() / float() is text, "
                        "and the written mdoc must re-read to the same entry", fn, m)
    if undecided is not None and not ctx.cur.findings:
        raise undecided


def _obligations():
    return [
        Obligation("O17.10", "dimensions_load: an N x 4 table comes back as given, one triplet is repeated per listed tomogram (shared with C09)", _c09.o99, floor=10),
        Obligation("O17.11", "gctf defocus files: the STAR reader followed on literal texts (shared with C02)", _star.o26, floor=230),
        Obligation("O17.12", "mdoc values: whole and decimal numbers become numbers, every other text (labels, names, dates, nan / inf) stays text", o1712, floor=15),
        Obligation("O17.8", "z_shift_load(number) hands the value back unchanged, Python number or numpy scalar", o178, floor=2),
        Obligation("O17.9", "wedge lists on disk: the STAR writer's header and row text read back to the table (shared with C02)",
                   lambda ctx: (_star.o23(ctx), _star.o25(ctx)), floor=200),
        Obligation("O17.7", "mdoc wrappers (remove_images, sort_mdoc_by_tilt_angles) write the updated object they return, through Mdoc.write", o177, floor=6),
        Obligation("O17.6", "loaders: tlt_load passes arrays / lists through and returns every file value (sorted only on request); total_dose_load hands doses back as given (shared with C09)", lambda ctx: (_c09.o96(ctx), _c09.o98(ctx)), floor=12),
        Obligation("O17.1", "library calls of loaders, mdoc and wedge-list builders exist in the installed pandas", o171, floor=15),
        Obligation("O17.2", "defocus readers: U,V x 1e-4, mean=(U+V)/2, same columns; ctffind4 header skipped", o172, floor=15),
        Obligation("O17.13", "defocus_load(<N x 5 array>): columns named in the given order, rows as given, for every N", o17_defocus_array, floor=5),
        Obligation("O17.3", "mdoc dose = exposure + prior in one row order; tlt_load sorts only file input when asked", o173, floor=8),
        Obligation("O17.4", "wedge lists: column wiring, per-tomogram lookup by tomo_id, min/max pairing", o174, floor=25),
        Obligation("O17.5", "mdoc: write filter truth table, format characters, sort only sorts, removal position->label once", o175, floor=12),
    ]


def obligations():
    return _obligations() + [labels_obligation("C17"), selectors_obligation("C17"), mutations_obligation("C17"), loopstate_obligation("C17"), effects_obligation("C17"), plumbing_obligation("C17"), overrides_obligation("C17"), options_obligation("C17"), handlers_obligation("C17")]
