import ast
"""C18 -- nearest-neighbour analysis equals brute force, invariant under rigid motion"""
from .common import *
from . import C06 as _geom
from . import C05 as _c05
from . import C08 as _c08

TITLE = "Nearest-neighbour analysis equals brute force, invariant under rigid motion"
EXPLANATION = (
    "nnana.get_nn_distances / get_nn_rotations / get_feature_nn_indices are interpreted abstractly over two symbolic lists "
    "(query list a, neighbour list b). Row-space typing: every array carries the row space it lives in (the per-feature "
    "subset of a or of b); KD-tree query results are positions into the space of the array the tree was built on; every use of "
    "positions to index an array must hit an array of that space (this is what separates the per-tomogram subset from the whole "
    "list). Decided further: both subsets are selected by the same feature value; the tree is built on the neighbour list's "
    "complete positions and queried with the query list's; reported distance = tree distance * pixel_size and the offset = "
    "(p_nn - p_a) * pixel_size; particle-frame offset = R_a^-1 (p_nn - p_a) and relative orientation = R_a^-1 R_nn (compared as "
    "rotation matrices: left-invariant, hence unchanged under a common rigid motion); subtomogram numbers come from the "
    "neighbour / query subsets; both passes enumerate the common feature values identically (their rows are stacked side by "
    "side); the angular distance is the geodesic one (shared with C06).")
ASSUMPTIONS = TRUSTED + ["k-NN optimality and ascending order are scikit-learn's KD-tree query semantics"]

NN = "nnana."
A = {"isinstance(feature_values, list)": False, "isinstance(feature_values, (list, np.ndarray))": False, "reset_index": True, "return_df": False, "isinstance(motl_a, str)": False,
     "isinstance(motl_nn, str)": False, "len(idx) == 0": False, "tomo_number is None": True, "plot_rotations": False}
SAM = {}
for p_ in ("a:", "b:"):
    for c in ("phi", "theta", "psi"):
        SAM[p_ + c] = angle_sampler
SAM["pixel_size"] = pos_sampler(0.5, 6.0)


def run(ctx, fname, kwargs):
    it = Interp(ctx.prog, assume=assume_map(A), no_inline=("geom.compare_rotations",))
    ma, mn = motl_obj(ctx.prog, prefix="a:", name="dfa"), motl_obj(ctx.prog, prefix="b:", name="dfb")
    r = it.run(NN + fname, [ma, mn], kwargs)
    return it, r


def space_rule(ctx, it, prefix):
    n = 0
    for e in it.events:
        if e.kind not in ("index", "take") or not e.fn.startswith(prefix):
            continue
        base, idx = e.args[0], e.args[-1]
        pos = getattr(idx, "pos_of", None)
        if pos is None:
            continue
        n += 1
        bs = getattr(base, "space", None)
        ctx.count(1, {"function": e.fn, "indexed": tm.show(to_term(base))[:50], "array space": bs.chain() if bs else None,
                      "positions into": pos.chain()} if n <= 3 else None)
        if bs is None or not pos.same(bs):
            m, _ = ctx.prog.func(e.fn)
            ctx.finding(e.fn, e.node, f"positions into '{pos.chain()}' are used to index an array living in '{bs.chain() if bs else 'an unknown row space'}': "
                        "tree / subset-local indices must only index arrays of the same per-feature subset", e.node, m)
    return n


def appended(it, fn_qual, listname):
    out = []
    for e in it.events:
        if e.kind == "call" and e.name == "list.append" and e.fn == fn_qual and norm_text(e.node).split(".append")[0].strip() == listname:
            out.append(e)
    return out


def returned_list_names(fn, n_expected):
    """the accumulation lists by role: the k-th element of the function's result tuple is np.vstack/concatenate(<list k>)"""
    rets = [r for r in ast.walk(fn) if isinstance(r, ast.Return) and isinstance(r.value, ast.Tuple) and len(r.value.elts) == n_expected]
    if len(rets) != 1:
        raise Unsupported(f"result tuple with {n_expected} stacked lists not found", fn)
    names = []
    for e in rets[0].value.elts:
        if not (isinstance(e, ast.Call) and e.args and isinstance(e.args[0], ast.Name)):
            raise Unsupported("result tuple element is not <stack>(<list>)", e)
        names.append(e.args[0].id)
    return names


def subsets_reach(ctx, it, q, m, fn):
    """the neighbour search of one feature value runs on the two subsets of that value, on every path"""
    subs = [e for e in it.events if e.kind == "call" and e.name.endswith("Motl.get_motl_subset") and e.fn == q]
    srch = [e for e in it.events if e.kind == "call" and e.name.endswith("nnana.get_feature_nn_indices") and e.fn == q]
    if not srch:
        raise Unsupported(f"call of get_feature_nn_indices not found in {q}", fn)
    rets = {id(e.extra.get("ret")) for e in subs}
    for e in srch:
        for k in (0, 1):
            a_ = e.arg(k)
            ctx.count(1)
            if id(a_) in rets:
                continue
            sp_ = getattr(getattr(a_, "attrs", {}).get("df"), "space", None) if isinstance(a_, Obj) else None
            if sp_ is not None and sp_.how == "join":
                cnd_ = getattr(sp_, "cond", None)
                own_, other_ = ("a:", "b:") if k == 0 else ("b:", "a:")
                if cnd_ is not None and any(s_.startswith(own_) for s_ in tm.symbols(cnd_)) and not any(s_.startswith(other_) for s_ in tm.symbols(cnd_)):
                    # a shortcut decided from the list's own content (it may establish that the list holds one value only): not decided here
                    raise Unsupported("the subset step is skipped under a condition on the list's own content", e.node)
                ctx.finding(q, e.node, f"on some path the {'query' if k == 0 else 'neighbour'} list handed to the per-tomogram search is not the subset of "
                            "the current feature value (tomogram): the search then runs over particles of other tomograms (extra rows, neighbours "
                            "from another tomogram)", e.node, m)


def o182(ctx):
    q = NN + "get_nn_distances"
    m, fn = ctx.prog.func(q)
    ctx.touched(q, NN + "get_feature_nn_indices", NN + "get_nn_rotations")
    it, r = run(ctx, "get_nn_distances", {"pixel_size": P("pixel_size"), "nn_number": P("k"), "feature": P("feature"), "rotation_type": P("rotation_type")})
    if space_rule(ctx, it, "nnana.") < 5:
        raise Unsupported("fewer position-indexing sites than expected in get_nn_distances", fn)
    # same feature value for both subsets
    subs = [e for e in it.events if e.kind == "call" and e.name.endswith("Motl.get_motl_subset") and e.fn == q]
    loops = [e for e in it.events if e.kind == "loop" and e.fn == q]
    ctx.count(1)
    f_el = to_term(loops[0].extra["elem"]) if loops else None
    if len(subs) != 2 or f_el is None or any(to_term(s_.args[0]) != f_el for s_ in subs) \
            or any(to_term(s_.kwargs.get("feature_id", K(None))) != sym("feature") for s_ in subs):
        ctx.finding(q, subs[0].node if subs else fn, "both lists must be restricted to the same feature value (same tomogram) with the "
                    "requested feature field", subs[0].node if subs else fn, m)
    subsets_reach(ctx, it, q, m, fn)
    # tree built on neighbours, queried with the query list (complete positions)
    trees = [e for e in it.events if e.kind == "call" and e.name.endswith("KDTree")]
    qs = [e for e in it.events if e.kind == "call" and e.name == "method:query"]
    if len(trees) != 1 or len(qs) != 1:
        raise Unsupported("KD-tree construction / query not recognised", fn)
    mi, fi = ctx.prog.func(NN + "get_feature_nn_indices")

    def complete(a, p):
        return isinstance(a, Arr) and len(a.cols) == 3 and all(
            tm.equivalent(no_sel(a.cols[k]), mk("add", sym(p + c), sym(p + "shift_" + c)), seed_tag="cp" + p + c) for k, c in enumerate("xyz"))

    ctx.count(2)
    if not complete(trees[0].args[0], "b:"):
        ctx.finding(NN + "get_feature_nn_indices", trees[0].node, "the tree must be built on the complete positions (x+shift) of the neighbour list",
                    trees[0].node, mi)
    if not complete(qs[0].args[1], "a:"):
        ctx.finding(NN + "get_feature_nn_indices", qs[0].node, "the tree must be queried with the complete positions of the query list",
                    qs[0].node, mi)
    kk = qs[0].kwargs.get("k")
    ctx.count(1)
    if kk is None or not tm.has_sym(to_term(kk), "k"):
        ctx.finding(NN + "get_feature_nn_indices", qs[0].node, "the requested number of neighbours must reach the tree query", qs[0].node, mi)
    else:
        # ... bounded by the number of candidates only: min(k, |candidate subset|).  The size of the *query* subset has no say (a tomogram
        # with two query particles and ten candidates still has ten neighbours to report)
        kt = to_term(kk)
        sizes = [n for n in tm.walk(kt) if n.op == "call" and n.args[0] in ("nrows", "len")]
        tree_sp = getattr(trees[0].args[0], "space", None)
        query_sp = getattr(qs[0].args[1], "space", None)
        ctx.count(1, {"neighbours requested": tm.show(kt)[:100]})
        bad_sizes = [n for n in sizes if tree_sp is None or tm.cval(n.args[1]) != tree_sp.id]
        if bad_sizes or len(sizes) != 1:
            ctx.finding(NN + "get_feature_nn_indices", qs[0].node, "the number of neighbours per query particle must be min(nn_number, number of candidates "
                        f"in the tomogram) and nothing else; it is {tm.show(kt)[:100]}" +
                        (" -- it also depends on the number of query particles" if query_sp is not None and any(tm.cval(n.args[1]) == query_sp.id for n in bad_sizes) else ""),
                        qs[0].node, mi)
    # appended quantities
    px = sym("pixel_size")
    Pa = [mk("add", sym("a:" + c), sym("a:shift_" + c)) for c in "xyz"]
    Pb = [mk("add", sym("b:" + c), sym("b:shift_" + c)) for c in "xyz"]
    off = [mk("mul", mk("sub", b_, a_), px) for a_, b_ in zip(Pa, Pb)]
    # result order is part of the interface: (offsets, particle-frame offsets, distances, angular distances, query ids, neighbour ids)
    cc, rc, nd, ad, si, sn_ = [appended(it, q, nm) for nm in returned_list_names(fn, 6)]
    if not all(len(x) == 1 for x in (cc, rc, nd, ad, sn_)) or not si:
        raise Unsupported("result accumulation of get_nn_distances not recognised", fn)
    a_ = cc[0].args[1]
    ctx.count(3)
    if not (isinstance(a_, Arr) and len(a_.cols) == 3 and all(tm.equivalent(no_sel(a_.cols[k]), off[k], samplers=SAM, seed_tag="off" + str(k)) for k in range(3))):
        ctx.finding(q, cc[0].node, "the neighbour offset must be (complete position of the neighbour - complete position of the query "
                    "particle) * pixel_size", cc[0].node, m)
    Ra_inv = T("transpose", particle_R("a:"))
    want_rot = T("rotapply", Ra_inv, T("vec", *off))
    a_ = rc[0].args[1]
    ctx.count(3)
    if not (isinstance(a_, Arr) and len(a_.cols) == 3 and all(tm.equivalent(no_sel(a_.cols[k]), T("item", want_rot, k), samplers=SAM, n=20, seed_tag="rot" + str(k))
                                                               for k in range(3))):
        ctx.finding(q, rc[0].node, "the particle-frame offset must be the inverse orientation of the query particle applied to the offset "
                    "(R_a^-1 (p_nn - p_a)); this is what makes it invariant under a rigid motion of the tomogram", rc[0].node, m)
    dterm = no_sel(to_term(nd[0].args[1]))
    ctx.count(1, {"distance": tm.show(dterm)[:120]})
    SHAPE_ = ("column", "transposed", ".reshape", "numpy.reshape", "numpy.ravel", ".ravel", ".flatten", "numpy.transpose", ".transpose", "numpy.asarray", "numpy.array")

    def strip_shape(t_):
        while t_.op == "call" and str(t_.args[0]) in SHAPE_ and len(t_.args) >= 2:
            t_ = t_.args[1]
        return t_

    def tree_distances(t_):
        t_ = strip_shape(t_)
        return t_.op == "call" and t_.args[0] == "unpack" and tm.has_call(t_.args[1], ".query") and tm.cval(t_.args[2]) == 0

    core = strip_shape(dterm)
    okd = core.op == "mul" and ((core.args[1] == px and tree_distances(core.args[0])) or (core.args[0] == px and tree_distances(core.args[1])))
    if not okd:
        if tm.has_sym(dterm, "pixel_size") and tm.has_call(dterm, ".query") and not tm.contains(dterm, lambda n: n.op in ("add", "sub", "div", "pow", "sqrt")) \
                and sum(1 for n in tm.walk(dterm) if n == px) == 1 and not (core.op == "mul"):
            raise Unsupported(f"the reported distance is derived from the tree distances and pixel_size in a form the rule does not follow: {tm.show(dterm)[:100]}", nd[0].node)
        ctx.finding(q, nd[0].node, "the reported distance must be the tree distance of that neighbour times pixel_size", nd[0].node, m)
    at = to_term(ad[0].args[1])
    ctx.count(1)
    okr = at.op == "call" and at.args[0] == "cryocat.geom.compare_rotations" and tm.rot_equivalent(no_sel(at.args[1]), particle_R("a:"), samplers=SAM, seed_tag="ra") \
        and tm.rot_equivalent(no_sel(at.args[2]), particle_R("b:"), samplers=SAM, seed_tag="rb") and tm.has_sym(at, "rotation_type")
    if not okr:
        ctx.finding(q, ad[0].node, "the angular distance must compare the query particle's orientation with its neighbour's (requested "
                    "rotation_type)", ad[0].node, m)
    ctx.count(2)
    if no_sel(to_term(sn_[0].args[1])) != sym("b:subtomo_id"):
        ctx.finding(q, sn_[0].node, "the neighbour's subtomogram number must be reported", sn_[0].node, m)
    if no_sel(to_term(si[0].args[1])) != sym("a:subtomo_id"):
        ctx.finding(q, si[0].node, "the query particle's subtomogram number must be reported", si[0].node, m)
    # relative orientation
    q2 = NN + "get_nn_rotations"
    m2, fn2 = ctx.prog.func(q2)
    it2, r2 = run(ctx, "get_nn_rotations", {"nn_number": P("k"), "feature": P("feature")})
    space_rule(ctx, it2, "nnana.")
    subsets_reach(ctx, it2, q2, m2, fn2)
    rr = [e for e in it2.events if e.kind == "call" and e.name == "list.append" and e.fn == q2 and isinstance(e.args[1], Rot)]
    if len(rr) != 1 or not isinstance(rr[0].args[1], Rot):
        raise Unsupported("relative rotation accumulation not recognised", fn2)
    v = tm.rot_equivalent(no_sel(rr[0].args[1].term), T("matmul", T("transpose", particle_R("a:")), particle_R("b:")), samplers=SAM, seed_tag="rel")
    ctx.count(1, {"relative orientation": "R_a^-1 R_nn", "equal": bool(v)})
    if not v:
        ctx.finding(q2, rr[0].node, "the relative orientation must be R_a^-1 * R_nn (inverse of the query particle's orientation times the "
                    "neighbour's): only this product is unchanged when the whole tomogram is rotated", rr[0].node, m2, witness=v.witness)
    # what get_nn_rotations hands back: the image of the z axis under each relative orientation, and its zxz Euler angles (phi, theta, psi)
    REL = T("matmul", T("transpose", particle_R("a:")), particle_R("b:"))
    outs = r2.ret.items if isinstance(r2.ret, Seq) and len(r2.ret.items) == 2 else None
    if outs is None or not all(isinstance(o_, Arr) and len(o_.cols) == 3 for o_ in outs):
        raise Unsupported("get_nn_rotations does not return two three-column arrays", fn2)
    for label, arr_, want_ in (("the z axis seen through the relative orientation (rot_x, rot_y, rot_z)", outs[0], T("rotapply", REL, T("vec", const(0.0), const(0.0), const(1.0)))),
                               ("the zxz Euler angles of the relative orientation in degrees (phi, theta, psi)", outs[1], T("as_euler", const("zxz"), REL, const(True)))):
        for k in range(3):
            got_ = no_sel(arr_.cols[k])
            # the rotations of all pairs concatenated: row for row the one relative orientation appended per pair
            got_ = tm.subst(got_, {n: n.args[1].args[0] for n in tm.walk(got_) if n.op == "call" and n.args[0] == "rot_concatenate" and len(n.args) == 2
                                   and n.args[1].op == "vec" and len(n.args[1].args) == 1})
            v = tm.equivalent(got_, T("item", want_, k), samplers=SAM, n=24, tol=1e-7, seed_tag=f"nnrot{k}")
            ctx.count(1, {"returned": label, "component": k, "equal": bool(v)} if k == 0 else None)
            if not v:
                ctx.finding(q2, f"returned component {k} of {label.split(' (')[0]}", f"get_nn_rotations must return {label}; component {k} differs "
                            f"(it is {tm.show(got_)[:100]})", fn2, m2, witness=v.witness)
                break
    # both passes enumerate the common feature values identically
    l1 = [e for e in it.events if e.kind == "loop" and e.fn == q]
    l2 = [e for e in it2.events if e.kind == "loop" and e.fn == q2]
    ctx.count(1, {"group enumeration": tm.show(to_term(l1[0].args[0]))[:120]})
    if not l1 or not l2 or to_term(l1[0].args[0]) != to_term(l2[0].args[0]):
        ctx.finding(q2, l2[0].node if l2 else fn2, "get_nn_distances and get_nn_rotations must enumerate the common feature values in the same "
                    "way: get_nn_stats stacks their rows side by side", l2[0].node if l2 else fn2, m2,
                    distances=tm.show(to_term(l1[0].args[0]))[:120] if l1 else None, rotations=tm.show(to_term(l2[0].args[0]))[:120] if l2 else None)
    t1 = to_term(l1[0].args[0]) if l1 else None
    ctx.count(1)
    if t1 is not None and not (tm.has_call(t1, "numpy.intersect1d") or tm.has_call(t1, "intersect1d")):
        ctx.finding(q, l1[0].node, "only feature values present in both lists may be processed", l1[0].node, m)
    # get_nn_stats column order
    q3 = NN + "get_nn_stats"
    m3, fn3 = ctx.prog.func(q3)
    ctx.touched(q3)
    hs = [n for n in ast.walk(fn3) if isinstance(n, ast.Call) and ctx.prog.resolve(m3, n.func) == "numpy.hstack"]
    cols = [n for n in ast.walk(fn3) if isinstance(n, ast.keyword) and n.arg == "columns"]
    ctx.count(1)
    if len(hs) != 1 or len(cols) != 1:
        raise Unsupported("assembly of the statistics table not recognised", fn3)
    order = [ast.unparse(e).split(".")[0] for e in hs[0].args[0].elts]
    names = ast.literal_eval(cols[0].value)
    # roles by position in the producers' result tuples (not by local variable name)
    roles = {"get_nn_distances": [["coord_x", "coord_y", "coord_z"], ["coord_rx", "coord_ry", "coord_rz"], ["distance"], ["angular_distance"],
                                  ["subtomo_idx"], ["subtomo_nn_idx"]],
             "get_nn_rotations": [["rot_x", "rot_y", "rot_z"], ["phi", "theta", "psi"]]}
    want_names = {}
    for a in ast.walk(fn3):
        if isinstance(a, ast.Assign) and isinstance(a.targets[0], ast.Tuple) and isinstance(a.value, ast.Call):
            callee = (ctx.prog.resolve(m3, a.value.func) or "").split(".")[-1]
            if callee in roles and len(a.targets[0].elts) == len(roles[callee]) and all(isinstance(t, ast.Name) for t in a.targets[0].elts):
                for t, r_ in zip(a.targets[0].elts, roles[callee]):
                    want_names[t.id] = r_
    if len(want_names) != 8:
        raise Unsupported("unpacking of get_nn_distances / get_nn_rotations results in get_nn_stats not recognised", fn3)
    flat = []
    for o in order:
        flat += want_names.get(o, [f"?{o}"])
    if flat != names:
        ctx.finding(q3, hs[0], "the column names of the statistics table must follow the order in which the arrays are stacked", hs[0], m3,
                    stacked=order, names=names)


def _bare(t):
    """strip pure re-indexing (reshape to a column: getitem(x, <row index>)) from a term"""
    while t.op == "call" and t.args[0] == "getitem" and len(t.args) == 3 and t.args[2].op == "sym" and str(t.args[2].args[0]).startswith("r#"):
        t = t.args[1]
    return t


def o183(ctx):
    """get_nn_stats: the table is the side-by-side stack of the two passes, row for row, in the order they produced"""
    q = NN + "get_nn_stats"
    m, fn = ctx.prog.func(q)
    ctx.touched(q)
    S = Space("neighbour pairs in the order get_nn_distances / get_nn_rotations produce them", how="root")
    arr3 = lambda p_: Arr([sym(p_ + c) for c in "xyz"], 2, space=S)
    v = lambda n_: Val(sym(n_), space=S)
    src = v("nn_dist")
    summ = {"cryocat.nnana.get_nn_distances": lambda it, a, k, n, fr: Seq([arr3("cc"), arr3("rc"), src, v("ang"), v("sid"), v("sidnn")], "tuple"),
            "cryocat.nnana.get_nn_rotations": lambda it, a, k, n, fr: Seq([arr3("rot"), arr3("eul")], "tuple")}
    it = Interp(ctx.prog, summaries=summ)
    r = it.run(q, [P("motl_a"), P("motl_nn")], {})
    if not isinstance(r.ret, Frame):
        raise Unsupported("get_nn_stats does not return a table", fn)
    # both passes run on the two lists the caller gave (loaded if given as files), the query list first: not on lists derived from them
    # (merged, renumbered, filtered, re-sorted) -- the table reports the caller's subtomogram numbers
    for e in [e for e in it.events if e.kind == "call" and e.name in ("cryocat.nnana.get_nn_distances", "cryocat.nnana.get_nn_rotations") and e.fn == q]:
        for k_, want_ in ((0, "motl_a"), (1, "motl_nn")):
            a_ = e.arg(k_)
            t_ = to_term(a_) if a_ is not None else None
            ctx.count(1)
            while t_ is not None and t_.op == "call" and str(t_.args[0]) in ("cryocat.cryomotl.Motl.load", "load") and len(t_.args) >= 2:
                t_ = t_.args[1]
            if t_ != sym(want_):
                ctx.finding(q, e.node, f"{e.name.split('.')[-1]} is not run on the caller's {'query' if k_ == 0 else 'neighbour'} list `{want_}` but on "
                            f"{tm.show(to_term(a_))[:80] if a_ is not None else None}: a list derived from it (merged, renumbered, filtered) reports other "
                            "subtomogram numbers / other particles than the caller's", e.node, m)
    same_rows_same_order(ctx, q, r.ret, src, "get_nn_stats lists the neighbours of each particle in the order of the search (ascending distance)", fn, m)
    want = {"distance": "nn_dist", "angular_distance": "ang", "subtomo_idx": "sid", "subtomo_nn_idx": "sidnn"}
    for pre, names in (("cc", ("coord_x", "coord_y", "coord_z")), ("rc", ("coord_rx", "coord_ry", "coord_rz")), ("rot", ("rot_x", "rot_y", "rot_z")),
                       ("eul", ("phi", "theta", "psi"))):
        for c, n_ in zip("xyz", names):
            want[n_] = pre + c
    for col, s_ in want.items():
        ctx.count(1)
        if col not in r.ret.cols or _bare(r.ret.cols[col]) != sym(s_):
            ctx.finding(q, f"column {col}", f"column {col} of the statistics table must be the corresponding result of get_nn_distances / "
                        f"get_nn_rotations (row for row)", fn, m, got=tm.show(r.ret.cols[col])[:80] if col in r.ret.cols else None)


def _obligations():
    return [
        Obligation("O18.20", "accessors of the particle list: get_coordinates = (x,y,z) + shifts, get_angles / get_rotations = the stored zxz angles, fill stores values as given (shared with C05)", _c05.accessors, floor=20),
        Obligation("O18.2", "row-space typing, same feature value, tree/query lists, distance/offset scaling, R_a^-1 frame, relative orientation, ids", o182, floor=25),
        Obligation("O18.3", "get_nn_stats: columns are the results of the two passes, same rows, same order (no re-sorting)", o183, floor=17),
        Obligation("O18.4", "complete positions: get_coordinates = (x,y,z) + shifts, nothing else (shared with C05)", _c05.o51, floor=9),
        Obligation("O18.5", "per-tomogram subsets: get_motl_subset selects exactly feature == value (shared with C08)", _c08.o81, floor=10),
        Obligation("O18.8", "z-axis images used for rot_x/y/z: unit image of e_z under the rotation (shared with C06)", _geom.o61, floor=3),
        Obligation("O18.6", "angular distance is the geodesic distance of SO(3) (shared with C06)", _geom.o62, floor=3),
        Obligation("O18.7", "compare_rotations returns (angular, cone, in-plane) distances (shared with C06)", _geom.o63, floor=40),
    ]


def obligations():
    return _obligations() + [constructors_obligation(['cryomotl.Motl', 'cryomotl.EmMotl']), labels_obligation("C18"), selectors_obligation("C18"), mutations_obligation("C18"), loopstate_obligation("C18"), effects_obligation("C18"), plumbing_obligation("C18"), overrides_obligation("C18"), options_obligation("C18"), handlers_obligation("C18")]
