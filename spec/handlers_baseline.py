"""Exception handlers in the call closures of the properties' functions on the pinned tree: function -> sorted [(exception types, kinds of
the handler's statements)].  Read one by one: they report and re-raise, return a documented 'not found' value for a missing file / node,
or are the all-or-nothing numeric conversion C02 O2.4 decides (to_numeric_if_possible, is_float)."""
HANDLERS = {
    "ioutils.get_all_files_matching_pattern": [("FileNotFoundError", "Raise"), ("ValueError", "Expr")],
    "ioutils.get_data_from_warp_xml": [("Exception", "Expr+Return")],
    "ioutils.is_float": [("(TypeError, ValueError)", "Return")],
    "ioutils.one_value_per_line_read": [("pd.errors.EmptyDataError", "Raise")],
    "memthick.measure_membrane_thickness": [("ImportError", "Expr")],
    "memthick.read_segmentation": [("Exception", "Expr+Expr+Return")],
    "starfileio.Starfile.read.to_numeric_if_possible": [("(ValueError, TypeError)", "Return")],
}
