"""shared pieces of the per-property specifications"""
from __future__ import annotations

import ast

import numpy as np

from sa import terms as tm
from sa.terms import T, const, sym, call, mk
from sa.values import (Val, Arr, Frame, Rot, Seq, DictV, Obj, Func, ClassRef, Ref, Unk, Space, K, pyval, is_pyconst,
                       to_term, NotConst, Unsupported)
from sa.interp import Interp
from sa.harness import motl_frame, motl_obj, P, typed, assume_map, half_integer_sampler, pos_sampler, int_sampler, empty_test_polarity
from sa.report import Obligation
from sa.srcmodel import AnchorMissing, norm_text

TRUSTED = [
    "NumPy / SciPy / pandas / scikit-image / scikit-learn / emfile / mrcfile semantics are the trusted base "
    "(element-wise arithmetic, Rotation.from_euler/as_euler/apply, KD-tree queries, fftn, affine_transform)",
    "floating-point rounding is ignored: closed forms are compared as real-valued functions",
    "decided are necessary structural conditions of the property, not the behaviour as a whole",
]


def particle_R(prefix=""):
    """the repository's orientation convention: R = extrinsic zxz(phi, theta, psi), degrees"""
    return T("euler", const("zxz"), T("vec", sym(prefix + "phi"), sym(prefix + "theta"), sym(prefix + "psi")), const(True))


def euler_term(seq, a, b, c, degrees=True):
    return T("euler", const(seq), T("vec", a, b, c), const(degrees))


def rot_sampler(rng):
    from scipy.spatial.transform import Rotation as R
    return R.random(random_state=int(rng.integers(0, 2 ** 31))).as_matrix()


def angle_sampler(rng):
    """angles in degrees: generic ones and, one time in eight, a multiple of 90 (poles of the tilt, half and full turns, negative
    angles) -- the places where wrapping, folding and 'unique representative' shortcuts differ from the identity"""
    if rng.integers(0, 8) == 0:
        return float(rng.choice([0.0, 180.0, -180.0, 90.0, -90.0, 270.0, 360.0]))
    return float(rng.uniform(-180, 180))


ANGLES = {"phi": angle_sampler, "theta": angle_sampler, "psi": angle_sampler}

S_Z = const(((1.0, 0.0, 0.0), (0.0, 1.0, 0.0), (0.0, 0.0, -1.0)))
S_Y = const(((1.0, 0.0, 0.0), (0.0, -1.0, 0.0), (0.0, 0.0, 1.0)))


def mirror_z(m):
    """S_z M S_z with S_z = diag(1,1,-1)"""
    return T("matmul", T("matmul", S_Z, m), S_Z)


def last_store(it, frame, colname):
    for ev in reversed(it.events):
        if ev.kind == "store" and ev.extra.get("frame") is frame and colname in (ev.extra.get("names") or []):
            return ev.node
    for ev in reversed(it.events):
        if ev.kind == "store" and colname in (ev.extra.get("names") or []):
            return ev.node
    return None


class Rel:
    """an expected column given by a relation to a term instead of equality (e.g. 'an integer within 0.5 of')"""

    def __init__(self, term, relation, text):
        self.term, self.relation, self.text = term, relation, text


def expect_cols(ctx, it, qual, frame, expected, unchanged=None, samplers=None, what="", n=24, extra_envs=()):
    """compare final column terms of a table with the specified closed forms (random interpretation)"""
    m, fn = ctx.prog.func(qual)
    for cname, want in expected.items():
        if cname not in frame.cols:
            ctx.finding(qual, f"column {cname}", f"{what}: column {cname!r} is missing from the resulting table", fn, m)
            continue
        got = frame.cols[cname]
        nar = [n for n in tm.walk(got) if n.op == "narrow"]
        if nar and not any(n.op == "narrow" for n in tm.walk(want.term if isinstance(want, Rel) else want)):
            node = last_store(it, frame, cname) or fn
            ctx.finding(qual, node if node is not fn else f"final value of column {cname}",
                        f"{what}: the values of column {cname!r} pass through an array of type {tm.cval(nar[0].args[1])} on their way "
                        "(allocated with a narrower dtype than the table's float64): they come out rounded to that type", node, m)
            ctx.count(1)
            continue
        rel = want if isinstance(want, Rel) else None
        if rel is not None:
            want = rel.term
        v = tm.equivalent(got, want, samplers=samplers, n=n, seed_tag=qual + cname, extra_envs=extra_envs,
                          relation=rel.relation if rel else None)
        ctx.count(1, {"function": qual, "column": cname, "extracted": tm.show(got)[:160],
                      "specified": (rel.text + " " if rel else "") + tm.show(want)[:160], "points": v.points, "equal": bool(v)})
        if not v:
            node = last_store(it, frame, cname) or fn
            ctx.finding(qual, node if node is not fn else f"final value of column {cname}",
                        f"{what}: column {cname!r} must {'be ' + rel.text if rel else 'equal'} {tm.show(want)[:140]} but the code computes "
                        f"{tm.show(got)[:140]}", node, m, witness=v.witness, note=v.note)
    for cname in unchanged or []:
        if cname not in frame.cols:
            ctx.finding(qual, f"column {cname}", f"{what}: column {cname!r} disappears", fn, m)
            continue
        got = frame.cols[cname]
        want = sym(frame.prefix + cname)
        ctx.count(1)
        if cname in frame.written:
            try:
                v = tm.equivalent(got, want, samplers=samplers, n=12, seed_tag=qual + cname + "u")
            except (ValueError, TypeError, tm.EvalError) as e_:
                # the stored value cannot even be evaluated as a function of this column (it depends on other inputs of other kinds):
                # it is certainly not "the column unchanged"
                v = tm.Verdict(False, 0, None, f"not a function of the column alone: {e_}")
            if not v:
                node = last_store(it, frame, cname) or fn
                ctx.finding(qual, node, f"{what}: column {cname!r} must not change but becomes {tm.show(got)[:140]}",
                            node, m, witness=v.witness)


def find_calls(fn_node, pred):
    return [n for n in ast.walk(fn_node) if isinstance(n, ast.Call) and pred(n)]


def kwarg(node, name):
    for k in node.keywords:
        if k.arg == name:
            return k.value
    return None


def split_ite(t):
    if isinstance(t, T) and t.op == "ite":
        return t.args
    return None


def strip_sel(t):
    while isinstance(t, T) and t.op == "sel":
        t = t.args[0]
    return t


def no_sel(t):
    """term with all sel() markers removed"""
    if not isinstance(t, T):
        return t
    if t.op == "sel":
        return no_sel(t.args[0])
    if not t.args:
        return t
    return T(t.op, *[no_sel(a) for a in t.args])


def _comp_target(fn, comp):
    """name a comprehension is assigned to (`name = [..]`), or None"""
    for st in ast.walk(fn):
        if isinstance(st, ast.Assign) and st.value is comp and len(st.targets) == 1 and isinstance(st.targets[0], ast.Name):
            return st.targets[0].id
    return None


def stored_back_over_list(fn, assign, loop):
    """`L[i] = <expr>` inside `for ... in <something over L>` where L is a parameter of `fn` or part of what it returns
    (role of the list, not its name)"""
    if isinstance(assign, ast.ListComp) and len(assign.generators) == 1 and not assign.generators[0].ifs:
        # `L = [<expr of f> for f in L]`: every element is replaced, the list is rebound under the name that is returned
        src_ = assign.generators[0].iter
        tgt_ = _comp_target(fn, assign)
        if isinstance(src_, ast.Name) and tgt_ is not None:
            returned = {n.id for r in ast.walk(fn) if isinstance(r, ast.Return) and r.value is not None for n in ast.walk(r.value) if isinstance(n, ast.Name)}
            return tgt_ in returned and isinstance(assign.generators[0].target, ast.Name) \
                and any(isinstance(n, ast.Name) and n.id == assign.generators[0].target.id for n in ast.walk(assign.elt))
        return False
    if not (isinstance(assign, ast.Assign) and isinstance(assign.targets[0], ast.Subscript) and loop is not None):
        return False
    base = assign.targets[0].value
    if not isinstance(base, ast.Name):
        return False
    if base.id not in {n.id for n in ast.walk(loop.iter) if isinstance(n, ast.Name)}:
        return False
    params = {a.arg for a in fn.args.posonlyargs + fn.args.args + fn.args.kwonlyargs}
    returned = {n.id for r in ast.walk(fn) if isinstance(r, ast.Return) and r.value is not None for n in ast.walk(r.value)
                if isinstance(n, ast.Name)}
    return base.id in params or base.id in returned


def effects_obligation(prop):
    """cross-cutting obligation E16 (sa/effects.py): no hidden state, caller-owned inputs left alone, on the property's functions"""
    from sa import effects
    from sa.report import Obligation
    from .effects_entries import ENTRIES
    from . import effects_baseline

    def run(ctx):
        entries = ENTRIES[prop] + [w for w in WRAPPERS.get(prop, []) if w not in ENTRIES[prop]]  # the public wrappers own their arguments too
        present = [q for q in entries if ctx.prog.has(q)]
        top = [q for q in entries if q.count(".") <= 2]
        missing_top = [q for q in top if not ctx.prog.has(q)]
        if missing_top:
            raise AnchorMissing(f"entry function(s) of the effect analysis not found: {missing_top[:3]}")
        rep = effects.analyse(ctx.prog, present)
        ctx.touched(*present)
        seen = set()
        n_base = 0
        for it in rep.items:
            k = (it["kind"], it["fn"], it["root"], it["src"], it["op"])
            if k in seen:
                continue
            seen.add(k)
            if effects_baseline.match(it):
                n_base += 1
                continue
            ctx.finding(it["fn"], f"{it['kind']} {it['root']} <- {it['src']} [{it['op']}]", it["message"], it["node"], it["module"],
                        rule=it["kind"], root=it["root"], written_in=it["src"], write=it["op"])
        ctx.count(len(rep.closure), {"functions in the call closure": len(rep.closure), "in-place writes / returns / state reads examined": rep.sites,
                                     "writes to caller-owned objects confirmed harmless (baseline)": n_base,
                                     "entries": len(present)})
        # per-object state: a method of the call closure that keeps something in an attribute its class did not have before
        from .instance_attrs_baseline import ATTRS
        n_attr = 0
        for q in sorted(rep.closure):
            cq = ctx.prog.enclosing_class(q)
            if cq is None or not ctx.prog.has(q):
                continue
            known = set()
            for c_ in ctx.prog.mro(cq):
                known |= set(ATTRS.get(c_, ()))
            for sub_, sm_, sn_ in ctx.prog.classes():  # attributes of subclasses are set on the same objects
                if cq in ctx.prog.mro(sub_):
                    known |= set(ATTRS.get(sub_, ()))
            m_, fn_ = ctx.prog.func(q)
            for n in ast.walk(fn_):
                name, node = None, None
                if isinstance(n, (ast.Assign, ast.AugAssign, ast.AnnAssign)):
                    for t in (n.targets if isinstance(n, ast.Assign) else [n.target]):
                        for x in ast.walk(t):
                            if isinstance(x, ast.Attribute) and isinstance(x.value, ast.Name) and x.value.id == "self" and isinstance(x.ctx, ast.Store):
                                name, node = x.attr, n
                elif isinstance(n, ast.Call) and isinstance(n.func, ast.Name) and n.func.id == "setattr" and len(n.args) > 1 \
                        and isinstance(n.args[0], ast.Name) and n.args[0].id == "self" and isinstance(n.args[1], ast.Constant):
                    name, node = n.args[1].value, n
                if name is None:
                    continue
                n_attr += 1
                if name not in known and cq in ATTRS:
                    ctx.finding(q, node, f"{q.split('.')[-1]} keeps a value in the new attribute `self.{name}` of its object: a later call on the same object "
                                "sees what an earlier call left there (a memoised result goes stale as soon as the table is edited in place, which is how "
                                "apply_rotation, flip_handedness, renumbering and the .loc stores of this package work)", node, m_,
                                rule="E-instance-state", attribute=name)
        ctx.count(n_attr, {"stores to attributes of self examined": n_attr})
        if rep.undecided and not ctx.cur.findings:
            it = rep.undecided[0]
            raise Unsupported(f"{it['kind']} in {it['fn']}: {it['message']}", it["node"])

    return Obligation("OX.E", "history independence: no module/class-level state, caches or mutable defaults behind the property's functions; "
                              "arguments owned by the caller are not modified (E16)", run, floor=1)


WRAPPERS = {
    "C01": ["cryomotl.Motl.load", "cryomotl.Motl.write_out"],
    "C03": ["cryomotl.emmotl2relion", "cryomotl.relion2emmotl", "cryomotl.stopgap2relion", "cryomotl.relion2stopgap"],
    "C04": ["cryomotl.stopgap2emmotl", "cryomotl.emmotl2stopgap", "cryomotl.relion2stopgap", "cryomotl.stopgap2relion"],
    "C11": ["cryomap.em2mrc", "cryomap.mrc2em", "cryomap.invert_contrast"],
    "C12": ["cryomap.lowpass", "cryomap.highpass", "cryomap.bandpass"],
    "C13": ["cryomask.generate_mask"],
    "C14": ["cryomap.place_object", "cryomap.symmetrize_volume", "cryomap.extract_subvolume", "cryomap.rotate"],
    "C15": ["tiltstack.crop", "tiltstack.sort_tilts_by_angle", "tiltstack.remove_tilts", "tiltstack.bin", "tiltstack.flip_along_axes",
            "tiltstack.split_stack_even_odd", "tiltstack.merge"],
    "C16": ["tiltstack.dose_filter", "tiltstack.dose_filter_single_image"],
    "C17": ["mdoc.remove_images", "mdoc.sort_mdoc_by_tilt_angles", "wedgeutils.create_wedge_list_sg_batch", "wedgeutils.create_wedge_list_em_batch"],
    "C18": ["nnana.get_nn_stats", "nnana.get_nn_distances", "nnana.get_nn_rotations", "nnana.get_feature_nn_indices"],
    "C19": ["ribana.trace_chains"],
    "C20": ["memthick.measure_thickness_cpu", "memthick.measure_membrane_thickness"],
}


def options_obligation(prop):
    """cross-cutting obligation: a keyword option of a library call that the engine's model of the call never looked at (it is not part of
    the model and does not appear in the result's term) may change what the call does; such a call is not decided.  Options the models
    leave alone on purpose are listed in sa/interp.py (IGNORED_OPTIONS_OK), confirmed on the clean tree."""
    from sa import interp as _interp
    from sa.report import Obligation

    def run(ctx):
        its = _interp.REGISTRY.get(id(ctx.prog), [])
        seen, n, first = set(), 0, None
        for it in its:
            for e in it.events:
                if e.kind != "ignored-option":
                    continue
                k = (e.name, e.extra["option"], id(e.node))
                if k in seen:
                    continue
                seen.add(k)
                n += 1
                if (e.name, e.extra["option"]) not in _interp.IGNORED_OPTIONS_OK and first is None:
                    first = e
        ctx.count(n, {"library calls with an option outside the model": n})
        if first is not None:
            raise Unsupported(f"the option {first.extra['option']}= of {first.name.replace('method:', '.')} (in {first.fn}) is not interpreted by the model of "
                              "this call: what it changes is not decided", first.node)

    return Obligation("OX.K", "library options: every keyword option of a library call on the interpreted paths is part of the call's model", run, floor=0)


def handlers_obligation(prop):
    """cross-cutting obligation: an exception handler that goes on with a substitute (returns a default, assigns a fallback, skips the
    element, falls through) is a second way through a function that the interpretation does not follow: the failing input gets an answer
    nobody has looked at.  The handlers of the pinned tree are confirmed (spec/handlers_baseline.py); a further one in a function of the
    property's call closure that does not end in a raise makes the property undecided."""
    from sa.report import Obligation
    from .effects_entries import ENTRIES
    from .handlers_baseline import HANDLERS

    def run(ctx):
        prog = ctx.prog
        roots = [q for q in ENTRIES[prop] + WRAPPERS.get(prop, []) if prog.has(q)]
        cg = prog.callgraph()
        scope, todo = set(), list(roots)
        while todo:
            q = todo.pop()
            if q in scope:
                continue
            scope.add(q)
            todo.extend(cg.get(q, ()))
        n, first = 0, None
        for q in sorted(scope):
            try:
                m, fn = prog.func(q)
            except AnchorMissing:
                continue
            nested = {id(x) for n_ in ast.walk(fn) if isinstance(n_, (ast.FunctionDef, ast.Lambda)) and n_ is not fn for x in ast.walk(n_)}
            known = list(HANDLERS.get(q, []))
            for h in ast.walk(fn):
                if not isinstance(h, ast.ExceptHandler) or id(h) in nested:
                    continue
                n += 1
                sig = (" ".join(ast.unparse(h.type).split()) if h.type is not None else "*", "+".join(type(st).__name__ for st in h.body))
                if sig in known:
                    known.remove(sig)
                    continue
                ends_in_raise = bool(h.body) and isinstance(h.body[-1], ast.Raise)
                if not ends_in_raise and first is None:
                    first = (q, h, sig)
        ctx.count(n, {"exception handlers in the call closure": n})
        if first is not None:
            q, h, sig = first
            raise Unsupported(f"{q} catches {sig[0]} and goes on ({sig[1]}): what the input that fails gets instead is a path of its own, "
                              "not followed by the interpretation", h)

    return Obligation("OX.H", "failure paths: no exception handler in the call closure goes on with a substitute value (beyond the confirmed ones)", run, floor=0)


def overrides_obligation(prop):
    """cross-cutting obligation: the property is stated for particle lists of every class.  A subclass that overrides one of the
    methods the property's rules analyse puts new code behind the property for its own lists; the override is interpreted next to the
    base method on the same symbolic list and must leave the particle table exactly as the base method does (what else it keeps in
    attributes of its own is its business)."""
    from sa.report import Obligation
    from .effects_entries import ENTRIES
    from .overrides_baseline import OVERRIDES

    def run(ctx):
        prog = ctx.prog
        classes = [f"{mn}.{q}" for mn, mod in prog.modules.items() for q, n in mod.defs.items() if isinstance(n, ast.ClassDef)]
        subs = {}
        for c in classes:
            for b in prog.mro(c)[1:]:
                subs.setdefault(b, []).append(c)
        entries = ENTRIES[prop] + [w for w in WRAPPERS.get(prop, []) if w not in ENTRIES[prop]]
        n = 0
        for q in entries:
            parts = q.split(".")
            if len(parts) != 3 or not prog.has(q):
                continue
            cls, meth = ".".join(parts[:2]), parts[2]
            for sc in subs.get(cls, []):
                n += 1
                oq = f"{sc}.{meth}"
                if not prog.has(oq) or oq in entries or (oq, q) in OVERRIDES:
                    continue
                mo, fo = prog.func(oq)
                mb, fb = prog.func(q)
                names = [a.arg for a in fb.args.posonlyargs + fb.args.args][1:]
                onames = [a.arg for a in fo.args.posonlyargs + fo.args.args][1:]
                if names != onames[:len(names)]:
                    raise Unsupported(f"{oq} overrides {q} with another parameter list: not compared", fo)
                tables = []
                for qq, cc in ((q, sc), (oq, sc)):
                    it = Interp(prog)
                    me = motl_obj(prog, cls=cc)
                    it.run(qq, [P(a_) for a_ in names], {}, self_obj=me)
                    df = me.attrs.get("df")
                    if not isinstance(df, Frame):
                        raise Unsupported(f"{qq} leaves no particle table in self.df", fo)
                    tables.append(df)
                base_df, over_df = tables
                ctx.count(1, {"override": oq, "of": q})
                diff = [c_ for c_ in base_df.cols if over_df.cols.get(c_) is None
                        or not (over_df.cols[c_] == base_df.cols[c_] or tm.equivalent(over_df.cols[c_], base_df.cols[c_], n=16, seed_tag=oq + c_))]
                if diff or not over_df.space.same(base_df.space):
                    c0 = diff[0] if diff else None
                    ctx.finding(oq, f"override of {q}", f"{sc.split('.')[-1]}.{meth} overrides a method the property rests on and leaves another particle "
                                f"table than {q} does for the same list" + (f": field {c0} becomes {tm.show(over_df.cols.get(c0))[:100] if over_df.cols.get(c0) is not None else 'absent'} "
                                                                          f"instead of {tm.show(base_df.cols[c0])[:80]}" + (f" (also {diff[1:4]})" if len(diff) > 1 else "")
                                                                          if diff else ": the rows are not the same particles in the same order"),
                                fo, mo)
        ctx.count(n, {"(entry method, subclass) pairs examined": n})

    return Obligation("OX.O", "subclasses: an override of a method the property rests on leaves the particle table as the base method does", run, floor=0)


def plumbing_obligation(prop):
    """cross-cutting obligation E20 (sa/plumbing.py): options are handed on to the parameter of their own name, are not silently dropped,
    and keep their default values, over the call closure of the property's functions"""
    from sa import plumbing
    from sa.report import Obligation
    from .effects_entries import ENTRIES
    from . import plumbing_baseline as PB
    from .defaults_baseline import DEFAULTS
    from .fills_baseline import FILLS

    def _is_literal(txt):
        try:
            ast.literal_eval(txt)
            return True
        except Exception:  # noqa
            return False

    def run(ctx):
        roots = [q for q in ENTRIES[prop] + WRAPPERS.get(prop, []) if ctx.prog.has(q)]
        missing = [q for q in WRAPPERS.get(prop, []) if not ctx.prog.has(q)]
        if missing:
            raise AnchorMissing(f"public function(s) of the property not found: {missing[:3]}")
        cg = ctx.prog.callgraph()
        scope, todo = set(), list(roots)
        while todo:
            q = todo.pop()
            if q in scope:
                continue
            scope.add(q)
            todo.extend(cg.get(q, ()))
        scope = sorted(scope)
        crossed, dropped, sites = plumbing.analyse(ctx.prog, scope)
        base_c, base_d = set(PB.CROSSED), set(PB.DROPPED)
        for c in crossed:
            if (c["caller"], c["callee"], c["param"], c["passed"]) in base_c:
                continue
            ctx.finding(c["caller"], c["node"], f"{c['caller'].split('.')[-1]} hands its option `{c['passed']}` to the parameter `{c['param']}` of "
                        f"{c['callee']}, although a parameter called `{c['passed'] if c['passed'] != c['param'] else c['param']}` exists on the other side: "
                        "the two options are crossed (the fixtures use equal or default values for both, so no test notices)", c["node"], c["module"])
        for d in dropped:
            if (d["caller"], d["callee"], d["param"]) in base_d:
                continue
            ctx.finding(d["caller"], d["node"], f"{d['caller'].split('.')[-1]} has an option `{d['param']}` and calls {d['callee']}, which has an option "
                        f"of the same name, without passing it: the caller's value silently has no effect there (the callee's default is used)",
                        d["node"], d["module"])
        ndef = 0
        for q in scope:
            want = DEFAULTS.get(q)
            if not want:
                continue
            m, fn = ctx.prog.func(q)
            have = plumbing.defaults_of(fn)
            for p_, v_ in want.items():
                ndef += 1
                eff_ = have.get(p_)
                if eff_ == "None" and v_ != "None":
                    eff_ = plumbing.filled_default(fn, p_) or eff_  # None as a sentinel, the old value filled in inside the function
                if eff_ == "None" and v_ == "None" and p_ in have:
                    fill_ = plumbing.filled_default(fn, p_)
                    was_ = FILLS.get(q, {}).get(p_)
                    if was_ is not None and fill_ is not None and (fill_ == was_ or not (_is_literal(fill_) and _is_literal(was_))):
                        fill_ = None  # the fill of the pinned tree (or another spelling of a computed one: not compared)
                    if fill_ is not None and fill_ != "None":
                        # None stayed in the signature, but the body now replaces it: the effective default is the filled value
                        ctx.finding(q, f"default of {p_}", f"`{p_}` of {q} is declared with None, and the function now replaces None by {fill_} before "
                                    "anything else sees it: what used to mean \"not given\" (look it up in the data / leave the step out) has become "
                                    f"the value {fill_} for every call that does not pass the option", fn, m)
                        continue
                if p_ in have and have[p_] is not None and eff_ != v_:
                    ctx.finding(q, f"default of {p_}", f"the default of `{p_}` in {q} changed from {v_} to {have[p_]}: every call that does not pass "
                                "it (the property's default options, and the callers inside the package that rely on it) now behaves differently",
                                fn, m)
        ctx.count(sites + ndef, {"functions in the call closure": len(scope), "resolved call sites examined": sites,
                                 "literal defaults compared": ndef, "crossed (baseline)": len(base_c), "dropped (baseline)": len(base_d)})

    return Obligation("OX.P", "option plumbing: options reach the parameter of their own name, are not dropped on the way, and keep their "
                              "default values (E20, over the call closure of the property's functions)", run, floor=5)


def labels_obligation(prop, floor=0):
    """cross-cutting obligation E17: pandas combines labelled operands by row label, not by row position"""
    from sa import interp as _interp
    from sa.report import Obligation

    def run(ctx):
        its = _interp.REGISTRY.get(id(ctx.prog), [])
        seen = set()
        n = 0
        for it in its:
            for e in it.events:
                if e.kind != "label-align":
                    continue
                k = (e.fn, id(e.node), bool(e.extra["same"]))  # one construct can be reached with matching and with differing labels
                if k in seen:
                    continue
                seen.add(k)
                n += 1
                ctx.count(1, {"function": e.fn, "construct": norm_text(e.node)[:80], "left labels": _labtxt(e.extra["left"]),
                              "right labels": _labtxt(e.extra["right"])} if n <= 6 else None)
                if not e.extra["same"]:
                    try:
                        m, _ = ctx.prog.func(e.fn)
                    except Exception:  # noqa
                        m = None
                    what = {"arith": "an arithmetic operation", "store": "a column assignment"}.get(e.name, e.name)
                    ctx.finding(e.fn, e.node, f"{what} combines two pandas objects whose row labels differ ({_labtxt(e.extra['left'])} vs "
                                f"{_labtxt(e.extra['right'])}): pandas pairs the rows by label, not by position, so for a table whose index is not "
                                "0..n-1 (after a selection, a sort, a concat) values land in the wrong rows or become NaN", e.node, m)
        # E6 at stores: a column computed in one row space (one selection / order of particles) stored into a table in another
        for it in its:
            for e in it.events:
                if e.kind != "space-mismatch" or e.name not in ("store", "filter"):
                    continue
                k = (e.fn, id(e.node), "space")
                if k in seen:
                    continue
                seen.add(k)
                try:
                    m, _ = ctx.prog.func(e.fn)
                except Exception:  # noqa
                    m = None
                ctx.count(1, None)
                if e.name == "filter":
                    ctx.finding(e.fn, e.node, f"a row mask computed on '{e.extra['value_space'].chain()}' is applied by position to the table "
                                f"'{e.extra['frame_space'].chain()}': the two are different selections / orders of the particles, so the wrong rows "
                                "are kept", e.node, m)
                    continue
                ctx.finding(e.fn, e.node, f"values computed for the rows of '{e.extra['value_space'].chain()}' are stored into the table "
                            f"'{e.extra['frame_space'].chain()}' (columns {e.extra.get('names')}): the two are different selections / orders of the "
                            "particles, so values are paired with the wrong particles", e.node, m)
        # values computed in floating point stored into an array that inherits the element type of the caller's input
        for it in its:
            for e in it.events:
                if e.kind != "typing" or e.name != "inherited-dtype-store":
                    continue
                k = (e.fn, id(e.node), "dtype")
                if k in seen:
                    continue
                seen.add(k)
                try:
                    m, _ = ctx.prog.func(e.fn)
                except Exception:  # noqa
                    m = None
                ctx.count(1, None)
                ctx.finding(e.fn, e.node, "the result of a floating-point computation is stored into an array created with zeros_like / empty_like of the "
                            "caller's own array: the array inherits the caller's element type, so integer input (axis-aligned normals, voxel "
                            "positions) truncates every stored value", e.node, m)
        # a batch (n, k) re-read as (k, n) when its row count happens to equal k
        for it in its:
            for e in it.events:
                if e.kind != "typing" or e.name != "ambiguous-transpose":
                    continue
                k = (e.fn, id(e.node), "ambiguous-transpose")
                if k in seen:
                    continue
                seen.add(k)
                try:
                    m, _ = ctx.prog.func(e.fn)
                except Exception:  # noqa
                    m = None
                ctx.count(1, None)
                w_ = e.extra.get("width")
                ctx.finding(e.fn, e.node, f"an array with one row per item and {w_} columns is transposed when its number of rows equals {w_}: for exactly "
                            f"{w_} items (a list of {w_} particles / images / tilts) the two layouts cannot be told apart, and a regular input of that length is "
                            "read with rows and columns exchanged", e.node, m)
        # a number of the data used as a truth value
        for it in its:
            for e in it.events:
                if e.kind != "typing" or e.name != "number-truth":
                    continue
                k = (e.fn, id(e.node), "number-truth")
                if k in seen:
                    continue
                seen.add(k)
                try:
                    m, _ = ctx.prog.func(e.fn)
                except Exception:  # noqa
                    m = None
                ctx.count(1, None)
                ctx.finding(e.fn, e.node, f"`{norm_text(e.node)[:60]}` uses a number of the data ({tm.show(to_term(e.args[0]))[:60]}) as a truth value: 0 is a "
                            "legitimate value here (index 0, class / object 0, a dose or radius of 0) and it is the one that takes the other branch "
                            "(compare with None / test the length instead)", e.node, m)
        # <column>[i] with a running position
        for it in its:
            for e in it.events:
                if e.kind != "typing" or e.name != "series-by-position":
                    continue
                k = (e.fn, id(e.node), "series-by-position")
                if k in seen:
                    continue
                seen.add(k)
                try:
                    m, _ = ctx.prog.func(e.fn)
                except Exception:  # noqa
                    m = None
                ctx.count(1, None)
                ctx.finding(e.fn, e.node, "a table column is indexed with a running position (`column[i]`, i from enumerate / range): on a pandas column "
                            "an integer is looked up among the row labels, so for a list whose index is not 0..n-1 (a selection, a sorted or "
                            "concatenated list) the value of another row is taken, or the lookup fails (use .iloc[i] or .to_numpy()[i])", e.node, m)
        # `value in column`: pandas answers for the row labels
        for it in its:
            for e in it.events:
                if e.kind != "typing" or e.name != "in-series":
                    continue
                k = (e.fn, id(e.node), "in-series")
                if k in seen:
                    continue
                seen.add(k)
                try:
                    m, _ = ctx.prog.func(e.fn)
                except Exception:  # noqa
                    m = None
                ctx.count(1, None)
                ctx.finding(e.fn, e.node, "`value in <column>` on a pandas column asks whether the value is one of the column's row labels, not whether it "
                            "occurs among its values (that is `value in column.values` / `column.isin`): for a freshly numbered table every value "
                            "below the row count 'occurs', larger ones and labels removed by an earlier selection do not", e.node, m)
        ctx.count(len(its), None)

    return Obligation("OX.L", "row pairing: arithmetic and column assignment between labelled tables/columns pair the same particles (E17 labels, "
                              "E6 row spaces; over every function interpreted for this property)", run, floor=floor)


def _labtxt(k):
    if k is None:
        return "unlabelled"
    if k[0] == "pos":
        return "fresh 0..n-1 index"
    if k[0] == "tok":
        return "the index the table came with (not known to be 0..n-1)"
    return k[0]


def same_rows_same_order(ctx, q, got, src, what, node=None, module=None):
    """E6 as an order rule: `got` (table or column) must live in the row space of `src` -- the same particles in the same order,
    neither sorted nor filtered nor re-concatenated on the way"""
    gs, ss = getattr(got, "space", None), getattr(src, "space", None)
    ok = gs is not None and ss is not None and gs.same(ss)
    ctx.count(1, {"order rule": what, "result rows": gs.chain() if gs is not None else None, "source rows": ss.chain() if ss is not None else None})
    if not ok:
        ctx.finding(q, what, f"{what}: the result must hold the same particles in the same order as the source, but its rows are "
                    f"'{gs.chain() if gs is not None else 'unknown'}' (source: '{ss.chain() if ss is not None else 'unknown'}')", node, module)
    return ok


def selectors_obligation(prop):
    """cross-cutting def-use rule: a named row selector is not used after the column it tests has been rewritten"""
    from sa import dataflow
    from sa.report import Obligation
    from .effects_entries import ENTRIES

    def run(ctx):
        quals = [q for q in ENTRIES[prop] if ctx.prog.has(q)]
        mods = sorted({q.split(".")[0] for q in quals})
        n_fn = n_sel = n_acc = n_flag = n_pos = 0
        for q, m, fn in ctx.prog.functions():
            if q.split(".")[0] not in mods:
                continue
            n_fn += 1
            found, examined = dataflow.stale_selectors(m, fn)
            n_sel += examined
            for d, w, u, name, tab, col in found:
                ctx.finding(q, f"selector over {tab}[{col}] reused after the column was rewritten",
                            f"the row selector `{name}` is computed from {tab}[{col}] (line {d.lineno}), then {tab}[{col}] is rewritten "
                            f"(`{norm_text(w)[:70]}`), and the selector is used again afterwards (`{norm_text(u)[:70]}`): it still describes the "
                            "rows as they were before the rewrite", u, m)
            lost, ex2 = dataflow.lost_accumulation(m, fn)
            n_acc += ex2
            for init, st, loop, name in lost:
                ctx.finding(q, st, f"`{name}` is started as an empty container before the loop (line {init.lineno}) and used after it, but inside the loop "
                            f"it is overwritten (`{norm_text(st)[:70]}`) instead of extended: only the last iteration contributes, the results of all "
                            "earlier iterations are lost", st, m)
            def _returns_bool(c_, m_=m):
                d_ = ctx.prog.resolve(m_, c_.func)
                t_ = ctx.prog.repo_qual(d_) if d_ else None
                if t_ is None:
                    return False
                try:
                    _, f_ = ctx.prog.func(t_)
                except Exception:  # noqa
                    return False
                rets_ = [r_.value for r_ in ast.walk(f_) if isinstance(r_, ast.Return)]
                return bool(rets_) and all(isinstance(r_, ast.Constant) and isinstance(r_.value, bool) for r_ in rets_)

            inv, ex3 = dataflow.python_bool_inverted(m, fn, _returns_bool)
            n_flag += ex3
            for use, name in inv:
                ctx.finding(q, use, f"`~{name}`: `{name}` is a plain Python bool here (only ever assigned True / False), and `~` on it is the integer "
                            "complement, not `not`: ~True is -2 and ~False is -1, both true in a test, so the condition never selects the other "
                            "branch (numpy booleans, where `~` means not, are another type)", use, m)
            def _gives_position(c_, m_=m):
                d_ = ctx.prog.resolve(m_, c_.func)
                t_ = ctx.prog.repo_qual(d_) if d_ else None
                if t_ is None:
                    return False
                try:
                    _, f_ = ctx.prog.func(t_)
                except Exception:  # noqa
                    return False
                return dataflow.returns_position(f_)

            pt, ex4 = dataflow.positions_as_truth(m, fn, _gives_position)
            n_pos += ex4
            for use, name in pt:
                ctx.finding(q, use, f"`{name}` is a position (the index of a found element: 0 is the first one; nothing found is None or an error) and is "
                            "used as a truth value: the first position takes the branch meant for \"not found\" (test `is not None` instead)", use, m)
        ctx.count(n_fn, {"modules": mods, "functions scanned": n_fn, "named selectors examined": n_sel, "accumulators examined": n_acc,
                         "Python bool flags examined": n_flag, "positions examined": n_pos})

    return Obligation("OX.S", "def-use rules over the property's modules: named row selectors are not reused after the column they test was rewritten; "
                              "a result started empty before a loop is extended, not overwritten, inside it; `~` is not applied to a plain Python bool; a position (list.index, argmax, a repository function returning one) is not used as a truth value",
                      run, floor=1)


# in-place reorderings of a whole list that is used afterwards and that were confirmed by reading (the order is what the following code needs)
REORDER_BASELINE = {"memthick.process_matches_gpu2cpu": "all_matches.sort(): the greedy assignment walks the candidates by increasing distance",
                    "memthick.process_matches_cpu2cpu": "flat_matches.sort(): the greedy assignment walks the candidates by increasing distance"}


INPLACE_SORT_BASELINE = {"ribana.add_traced_info", "ribana.get_polysome_stats", "structure.NPC.cluster_subunits_to_rings"}  # documented / working tables

ROW_DROP_BASELINE = {("cryomotl.Motl.drop_duplicates", "drop_duplicates"), ("cryomotl.Motl.merge_and_drop_duplicates", "drop_duplicates"),
                     ("cryomotl.RelionMotl.create_final_output", "drop_duplicates"), ("structure.NPC.compute_diameter", "dropna"),
                     ("wedgeutils.create_wedge_list_sg", "dropna"), ("wedgeutils.create_wedge_list_sg_batch", "dropna")}

HELPER_UPDATES_BASELINE = {
    ("cryomotl.RelionMotl.create_relion_df", "cryomotl.RelionMotl.convert_angles_to_relion", "relion_df"),
    ("cryomotl.StopgapMotl.convert_to_sg_motl", "cryomotl.StopgapMotl.sg_df_reset_index", "stopgap_df"),
    ("fsc.corrected_fsc", "fsc.substitute_neg_or_nan", "fsc_list"),
    ("ribana.trace_chains", "ribana.add_chain_prefix", "chain_df"),
    ("ribana.trace_chains", "ribana.add_chain_suffix", "chain_df"),
    ("starfileio.Starfile.remove_lines", "starfileio.Starfile.write", "frames"),
    ("starfileio.Token.*", "starfileio.Token.*", "tokens"),  # the parser cursor: consumed by design, whichever method of the class holds the pop
    ("starfileio.Starfile.read", "starfileio.Token.*", "tokens"),
    ("tmana.select_peaks", "tmana.filter_dist_maps", "dist_maps"),
}


def mutations_obligation(prop):
    """cross-cutting def-use rule: a value that is still in use is not reordered, consumed or overwritten in passing (by a summary, a log line, a sanity
    check): a part of an array sorted in place, overwrite_input=True, an iterator advanced before its consumer, a loop target that overwrites a live variable"""
    from sa import dataflow
    from sa.report import Obligation
    from .effects_entries import ENTRIES

    def run(ctx):
        quals = [q for q in ENTRIES[prop] if ctx.prog.has(q)]
        mods = sorted({q.split(".")[0] for q in quals})
        n_fn = n_ex = 0
        undec = []
        for q, m, fn in ctx.prog.functions():
            if q.split(".")[0] not in mods:
                continue
            n_fn += 1
            found, und, ex = dataflow.live_mutations(m, fn)
            n_ex += ex
            for node, kind, text in found:
                ctx.finding(q, {"slice-reordered": "part of an array reordered in place", "overwrite-input": "input of a reduction overwritten",
                                "iterator-advanced": "iterator advanced before its consumer", "loop-rebinds": "loop target overwrites a live variable",
                                "parameter-truncated": "parameter cut down to a fixed number of elements", "swap-through-views": "parts of an array exchanged through views",
                                "alias-updated": "array updated through an alias"}[kind],
                            text, node, m)
            undec += [(q, node, text) for node, kind, text in und if q not in REORDER_BASELINE]
        # a repository helper that updates one of its parameters in place, called with a local of the caller that the caller goes on using: the
        # sites of today's tree are confirmed (the update is the helper's purpose); a new one is not decided here
        from sa.plumbing import Resolver, bind_call
        rs = Resolver(ctx.prog)
        n_sites = 0
        for q, m, fn in ctx.prog.functions():
            if q.split(".")[0] not in mods:
                continue
            nodes = dataflow._own_nodes(fn)
            calls = [c for c in nodes if isinstance(c, ast.Call)]
            if not calls:
                continue
            types = rs._local_types(q, m, fn)
            loads = [(n.id, n.lineno, n) for n in nodes if isinstance(n, ast.Name) and isinstance(n.ctx, ast.Load)]
            for c in calls:
                r = rs.callee(q, m, fn, c, types)
                if r is None or r[0] == q:
                    continue
                try:
                    _, tfn = ctx.prog.func(r[0])
                except AnchorMissing:
                    continue
                mp = dataflow.mutating_params(tfn)
                if not mp:
                    continue
                bound, _, _ = bind_call(c, tfn, r[1])
                for p_, how in mp.items():
                    a = bound.get(p_)
                    if not isinstance(a, ast.Name):
                        continue
                    inside = {id(x) for x in ast.walk(c)}
                    later = [ln for nm, ln, nd in loads if nm == a.id and ln > c.lineno and id(nd) not in inside]
                    if later:
                        # output-buffer convention: the caller allocated the array right there for the helper to fill (np.empty / zeros ...) and has not read
                        # it before the call -- the update is the helper's purpose and the interpretation follows it (in-place updates reach the caller)
                        allocs = [s_ for s_ in nodes if isinstance(s_, ast.Assign) and len(s_.targets) == 1 and isinstance(s_.targets[0], ast.Name) and s_.targets[0].id == a.id
                                  and s_.lineno < c.lineno and isinstance(s_.value, ast.Call)
                                  and (ctx.prog.resolve(m, s_.value.func) or "") in ("numpy.empty", "numpy.zeros", "numpy.ones", "numpy.empty_like", "numpy.zeros_like", "numpy.full")]
                        if allocs and not [1 for nm, ln, nd in loads if nm == a.id and allocs[-1].lineno < ln < c.lineno]:
                            continue
                        n_sites += 1
                        import fnmatch as _fn
                        if not any(_fn.fnmatchcase(q, b0) and _fn.fnmatchcase(r[0], b1) and p_ == b2 for b0, b1, b2 in HELPER_UPDATES_BASELINE):
                            undec.append((q, c, f"`{a.id}` is handed to {r[0]}, which updates its parameter `{p_}` in place ({how}), and is used afterwards (line {later[0]})"))
        ctx.count(n_sites, {"helper updates of a caller's live local (confirmed sites)": n_sites})
        # rows dropped in passing: de-duplication / NaN removal of a table outside the confirmed sites (where it is the function's purpose)
        n_drop = 0
        for q, m, fn in ctx.prog.functions():
            if q.split(".")[0] not in mods:
                continue
            for c in dataflow._own_nodes(fn):
                if isinstance(c, ast.Call) and isinstance(c.func, ast.Attribute) and c.func.attr in ("sort_values", "sort_index") and any(
                        k.arg == "inplace" and isinstance(k.value, ast.Constant) and k.value.value is True for k in c.keywords):
                    n_drop += 1
                    recv_ = c.func.value
                    fresh_local = isinstance(recv_, ast.Name) and any(
                        isinstance(a_, ast.Assign) and len(a_.targets) == 1 and isinstance(a_.targets[0], ast.Name) and a_.targets[0].id == recv_.id and a_.lineno < c.lineno
                        and isinstance(a_.value, ast.Call) and isinstance(a_.value.func, ast.Attribute) and a_.value.func.attr in ("copy", "concat", "DataFrame", "merge", "reset_index", "deepcopy")
                        for a_ in dataflow._own_nodes(fn)) and recv_.id not in {p_.arg for p_ in fn.args.posonlyargs + fn.args.args + fn.args.kwonlyargs}
                    if fresh_local:
                        continue  # a table this function has just built / copied and that nobody else holds
                    if q not in INPLACE_SORT_BASELINE:
                        undec.append((q, c, f"`{norm_text(c)[:80]}` sorts a table in place in {q}: every holder of that table (the object, the caller) sees the new "
                                      "row order"))
                if isinstance(c, ast.Call) and isinstance(c.func, ast.Attribute) and c.func.attr in ("drop_duplicates", "dropna"):
                    n_drop += 1
                    if (q, c.func.attr) not in ROW_DROP_BASELINE:
                        undec.append((q, c, f"`{norm_text(c)[:80]}` removes rows (repeated or incomplete ones) from a table in {q}; particle lists with repeated "
                                      "values and missing entries are inside the quantifier"))
        ctx.count(n_drop, {"row-dropping calls (confirmed sites)": n_drop})
        ctx.count(n_fn, {"modules": mods, "functions scanned": n_fn, "in-place reorderings / iterators / loop targets examined": n_ex,
                         "confirmed whole-list reorderings": sorted(REORDER_BASELINE)})
        if undec and not ctx.cur.findings:
            q, node, text = undec[0]
            raise Unsupported(f"{q}: {text} -- whether the result depends on it is not decided by this rule", node)

    return Obligation("OX.M", "values still in use are not reordered, consumed or overwritten in passing: no in-place sort of a part of an array, no "
                              "overwrite_input on a live array, no iterator advanced before its consumer, no loop target overwriting a live variable "
                              "(def-use, over the property's modules)", run, floor=1)


def loopstate_obligation(prop):
    """cross-cutting rule on loop state (sa/loopstate.py): per function of the property's modules and per variable, where its life starts relative to the
    loops, where it is updated, and whether a read may see an earlier iteration's value -- compared with the confirmed reference of the pinned tree"""
    from sa import loopstate
    from sa.report import Obligation
    from .effects_entries import ENTRIES
    from .loopstate_baseline import STATE

    def run(ctx):
        quals = [q for q in ENTRIES[prop] if ctx.prog.has(q)]
        mods = sorted({q.split(".")[0] for q in quals})
        n_fn = n_var = n_carried = 0
        undec = []
        for q, m, fn in ctx.prog.functions():
            if q.split(".")[0] not in mods:
                continue
            n_fn += 1
            f = loopstate.facts(fn)
            base = STATE.get(q)
            for v, r in sorted(f.items()):
                init, upd, car = sorted(r["init"]), sorted(r["update"]), r["carried"]
                if not (car or (upd and max(upd) > 0)):
                    if base is None or v not in base:
                        continue
                n_var += 1
                n_carried += len(car)
                b = base.get(v) if base is not None else None
                # (1) a read that may see what an earlier iteration left, outside the deliberate forms
                if "stale" in car and not (b and "stale" in b[2]):
                    node, loop = r["stale_sites"][0]
                    text = (f"`{v}` is read in the loop at line {loop.lineno} (`{norm_text(loop)[:60]}`) on a path on which this iteration has not assigned it: "
                            f"it is assigned only in a branch / an inner loop of the body, so an iteration that does not take that branch goes on with the value "
                            f"the previous one (another tomogram, group, file) stored")
                    if b is not None:
                        ctx.finding(q, f"loop state of {v}", text + f"; on the pinned tree every iteration assigned `{v}` before reading it", node, m)
                    else:
                        # a variable without reference: a confirmed carried variable under another name (locals renamed) as long as the function has no more
                        # such variables than the reference lists for it; one more than that is new and not decided
                        gone = [bv for bv, bt in (base or {}).items() if "stale" in bt[2] and bv not in f]
                        fresh = [fv for fv, fr_ in f.items() if "stale" in fr_["carried"] and (base is None or fv not in base)]
                        if len(fresh) > len(gone):
                            undec.append((q, node, text))
                    continue
                if b is None:
                    continue
                b_init, b_upd = b[0], b[1]
                # (4) a value that the pinned tree never changed inside a loop is now replaced by a function of itself on every iteration (squared again,
                #     converted again): the first iteration gets the intended value, the second one the function applied twice
                # (a variable the pinned tree already carried deliberately -- previous value, counter, best so far -- may well be updated in one statement now)
                if not (set(b[2]) & {"self-update", "explicit-previous", "accumulator-read", "guarded-update"}) and "self-update" in car:
                    su = [x for x in r.get("self_updates", []) if x[1] == "other" and init and x[2] > min(init)]
                    if su:
                        ctx.finding(q, f"loop state of {v}", f"`{norm_text(su[0][0])[:70]}` replaces `{v}` by a function of itself inside a loop, and nothing in the iteration sets `{v}` "
                                    f"before: the second iteration (the next group, tomogram, file) starts from the value the first one left, not from the one the function was "
                                    f"given; on the pinned tree every iteration set `{v}` before this statement (or `{v}` did not change inside a loop)", su[0][0], m)
                        continue
                    add_ = [x for x in r.get("self_updates", []) if x[1] == "additive"]
                    if add_:
                        undec.append((q, add_[0][0], f"`{norm_text(add_[0][0])[:70]}` makes `{v}` a running total over the iterations of a loop; on the pinned tree `{v}` did not "
                                      "change inside a loop"))
                        continue
                if not init or not b_init:
                    continue
                # (2) the start of the variable's life moved across a loop although the loop still updates it
                if max(init) < max(b_init) and upd and max(upd) >= max(b_init) and b_upd and max(b_upd) >= max(b_init):
                    st = next((s_ for s_, d_ in r["assign_nodes"] if d_ == max(init)), fn)
                    ctx.finding(q, f"loop state of {v}", f"`{v}` is started once at loop depth {max(init)} and updated inside the loop(s) below it; the pinned tree started "
                                f"it afresh at depth {max(b_init)}, i.e. on every iteration of the enclosing loop: what one iteration (tomogram, group, file) puts into it "
                                "is still there in the next", st, m)
                    continue
                if max(init) > max(b_init) and b_upd and max(b_upd) > max(b_init) and upd and max(upd) >= max(init) and _read_outside(fn, v, max(init)):
                    st = next((s_ for s_, d_ in r["assign_nodes"] if d_ == max(init)), fn)
                    ctx.finding(q, f"loop state of {v}", f"`{v}` collects over the iterations of a loop (started at depth {max(b_init)} on the pinned tree) but is now "
                                f"started again at depth {max(init)}, inside that loop: what earlier iterations put into it is dropped, only the last one is left "
                                "where it is used after the loop", st, m)
                    continue
                # (3) an assignment hoisted out of a loop although what it reads changes inside the loop
                if not upd and not b_upd and min(init) < min(b_init):
                    for st, d_ in r["assign_nodes"]:
                        if d_ >= min(b_init):
                            continue
                        for loop, dep in loopstate.hoisted_dependencies(fn, v, st):
                            ctx.finding(q, f"loop state of {v}", f"`{norm_text(st)[:70]}` now runs once before the loop at line {loop.lineno}; the pinned tree computed `{v}` inside "
                                        f"the loop, and what it reads ({', '.join(dep)}) changes from one iteration to the next", st, m)
                            break
        ctx.count(n_fn, {"modules": mods, "functions scanned": n_fn, "loop-touching variables compared": n_var, "carried reads classified": n_carried})
        if undec and not ctx.cur.findings:
            q, node, text = undec[0]
            raise Unsupported(f"{q}: {text} -- `{q}` has no confirmed loop state for this variable, so whether that is a deliberate carried flag is not decided", node)

    return Obligation("OX.I", "loop state: a variable that every iteration started afresh on the pinned tree is not carried from one iteration to the next, an "
                              "accumulator is not started again inside its loop, and nothing is computed once before a loop from what the loop changes "
                              "(syntax-directed definite-assignment scan per loop, compared with spec/loopstate_baseline.py)", run, floor=1)


def _reads_before_loop_init(fn, v, loop):
    return False


def _read_outside(fn, v, depth):
    """is `v` read at a loop depth below `depth` (after the loop that now re-initialises it)?"""
    import ast as _a

    def walk(stmts, d):
        for st in stmts:
            if isinstance(st, (_a.FunctionDef, _a.AsyncFunctionDef, _a.ClassDef)):
                continue
            if isinstance(st, (_a.For, _a.While)):
                hdr = [st.iter] if isinstance(st, _a.For) else [st.test]
                if d < depth and any(isinstance(n, _a.Name) and n.id == v and isinstance(n.ctx, _a.Load) for h in hdr for n in _a.walk(h)):
                    return True
                if walk(st.body, d + 1) or walk(st.orelse, d):
                    return True
                continue
            subs = [getattr(st, f_) for f_ in ("body", "orelse", "finalbody") if isinstance(getattr(st, f_, None), list)]
            if subs:
                tests = [getattr(st, "test", None)] + [i_.context_expr for i_ in getattr(st, "items", [])]
                if d < depth and any(isinstance(n, _a.Name) and n.id == v and isinstance(n.ctx, _a.Load) for t_ in tests if t_ is not None for n in _a.walk(t_)):
                    return True
                for b_ in subs:
                    if walk(b_, d):
                        return True
                for h_ in getattr(st, "handlers", []):
                    if walk(h_.body, d):
                        return True
                continue
            if d < depth and any(isinstance(n, _a.Name) and n.id == v and isinstance(n.ctx, _a.Load) for n in _a.walk(st)):
                return True
        return False

    return walk(fn.body, 0)


def constructors_obligation(classes, oid="OX.C"):
    """a particle list built from a 20-field table holds exactly that table: every field is the input's field (missing values
    become 0, the index is renumbered), the same particles in the same order"""
    from sa.report import Obligation

    def run(ctx):
        cols = list(ctx.prog.class_attr("cryomotl.Motl", "motl_columns"))
        for cls in classes:
            q = cls + ".__init__"
            m, fn = ctx.prog.func(q)
            ctx.touched(q, "cryomotl.Motl.check_df_type")
            it = Interp(ctx.prog)
            src = motl_frame(ctx.prog, name="input", prefix="in:")
            me = Obj(cls, {})
            it.run(q, [src], {}, self_obj=me)
            df = me.attrs.get("df")
            if not isinstance(df, Frame):
                raise Unsupported(f"{cls}(table) leaves no table in self.df", fn)
            same_rows_same_order(ctx, q, df, src, f"{cls.split('.')[-1]}(table) keeps the particles and their order", fn, m)
            for c in cols:
                ctx.count(1)
                got = df.cols.get(c)
                if got is None or got != sym("in:" + c):
                    site = last_store(it, df, c) or fn
                    ctx.finding(q, f"field {c}", f"{cls.split('.')[-1]}(table): field {c} must be the input's {c} unchanged (apart from missing "
                                f"values -> 0); it becomes {tm.show(got)[:120] if got is not None else 'absent'}", site, m)
            extra = [n for n in df.notes if n[0] not in ("reset_index", "fillna", "astype")]
            ctx.count(1, {"class": cls, "table history": [str(n) for n in df.notes]})
            if extra:
                ctx.finding(q, "table history", f"{cls.split('.')[-1]}(table) must only renumber the index and fill missing values; found {extra}", fn, m)

    return Obligation(oid, "construction from a table copies the 20 fields unchanged, same particles, same order (" + ", ".join(c.split(".")[-1] for c in classes) + ")",
                      run, floor=20 * len(classes))


def converters_obligation(specs, oid="OX.V"):
    """format converters that take a particle list: the list they return carries every particle's complete position (x + shift),
    orientation and the other fields of the input list -- only the split between x and shift may change (update_coordinates)"""
    from sa.report import Obligation

    def run(ctx):
        cols = list(ctx.prog.class_attr("cryomotl.Motl", "motl_columns"))
        for q, kwargs, assume in specs:
            m, fn = ctx.prog.func(q)
            ctx.touched(q)
            it = Interp(ctx.prog, assume=assume_map(assume))
            src = motl_frame(ctx.prog, name="input", prefix="in:")
            r = it.run(q, [src], dict(kwargs))
            df = r.ret.attrs.get("df") if isinstance(r.ret, Obj) else None
            if not isinstance(df, Frame):
                raise Unsupported(f"{q} does not return a particle list", fn)
            same_rows_same_order(ctx, q, df, src, f"{q.split('.')[-1]} keeps the particles and their order", fn, m)
            sam = {("in:" + c): half_integer_sampler() for c in ("x", "y", "z", "shift_x", "shift_y", "shift_z")}
            for c in "xyz":
                got = mk("add", df.cols[c], df.cols["shift_" + c])
                want = mk("add", sym("in:" + c), sym("in:shift_" + c))
                v = tm.equivalent(got, want, samplers=sam, n=30, seed_tag=q + c)
                ctx.count(1, {"converter": q, "complete position": c, "equal": bool(v)})
                if not v:
                    ctx.finding(q, f"complete position {c}", f"{q.split('.')[-1]}: the complete position {c} + shift_{c} of the returned list must "
                                f"equal that of the input list (it becomes {tm.show(got)[:100]})", last_store(it, df, c) or fn, m, witness=v.witness)
            for c in cols:
                if c in ("x", "y", "z", "shift_x", "shift_y", "shift_z"):
                    continue
                ctx.count(1)
                if c not in df.cols or df.cols[c] != sym("in:" + c):
                    ctx.finding(q, f"field {c}", f"{q.split('.')[-1]}: field {c} of the returned list must be the input's {c}; it becomes "
                                f"{tm.show(df.cols[c])[:100] if c in df.cols else 'absent'}", last_store(it, df, c) or fn, m)

    return Obligation(oid, "converters: the returned list keeps every particle's complete position, orientation and fields (order kept)", run,
                      floor=17 * len(specs))
