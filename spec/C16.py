"""C16 -- dose filtering applies the Grant-Grigorieff exposure attenuation"""
from .common import *
from . import C09 as _c09
from . import C15 as _c15


def _c17():
    from . import C17
    return C17
from sa import imgdom

TITLE = "Dose filtering applies the Grant-Grigorieff exposure attenuation"
EXPLANATION = (
    "tiltstack.dose_filter / dose_filter_single_image are interpreted abstractly in the index-function / Fourier-layout "
    "domain: the frequency array filled by the pixel loops becomes a closed form of its indices, fftshift / ifftshift "
    "become circular index offsets, and the product with the spectrum yields the gain applied to every FFT component "
    "in the unshifted layout as a closed form of the component's indices (jy, jx), the image sizes, the pixel size and "
    "the dose. That extracted gain is compared by random interpretation (integer sizes 4..48, even and odd, non-square; "
    "integer indices; random doses) with exp(-dose_i / (2*(0.245*f^-1.665 + 2.81))), f = sqrt((sx/(W*px))^2 + "
    "(sy/(H*px))^2), s = signed FFT frequency. All layout offsets must cancel before the inverse transform for every "
    "size; image i must be paired with dose i and written back to slot i; the result is the real part; write_out after "
    "the last update.")
ASSUMPTIONS = TRUSTED + ["numpy.fft.fft2/ifft2 implement the DFT over the last two axes; fftshift(A)[k] = A[(k - n//2) mod n] and "
                         "ifftshift(A)[k] = A[(k + n//2) mod n] along the shifted axes",
                         "consequences (linearity, composition d1+d2, power monotonicity) follow from the gain's closed form"]

Q = "tiltstack.dose_filter"
QS = "tiltstack.dose_filter_single_image"


def ts_summary(it, args, kwargs, node, fr):
    data = Unk(sym("stack"))
    data.rank = 3
    o = Obj("tiltstack.TiltStack", {"data": data, "n_tilts": P("N"), "height": P("H"), "width": P("W"),
                                    "data_type": Unk(sym("dtype")), "current_order": K("zyx"),
                                    "input_order": kwargs.get("input_order"), "output_order": kwargs.get("output_order")})
    o.ctor_kwargs = kwargs
    o.ctor_args = args
    return o


def run(ctx):
    it = Interp(ctx.prog, summaries={"cryocat.tiltstack.TiltStack": ts_summary,
                                     "cryocat.ioutils.total_dose_load": lambda it_, a, k, n, f: Unk(sym("doses"))},
                no_inline=("tiltstack.TiltStack.write_out", "tiltstack.TiltStack.correct_order"))
    r = it.run(Q, [Unk(sym("input")), P("pixel_size"), Unk(sym("total_dose"))],
               {"output_file": P("output_file"), "input_order": P("input_order"), "output_order": P("output_order")})
    return it, r


def signed(j, n):
    h = mk("floordiv", n, const(2))
    return mk("sub", mk("mod", mk("add", j, h), n), h)


def expected_gain(jy, jx, H, W, px, dose):
    fx = mk("div", signed(jx, W), mk("mul", W, px))
    fy = mk("div", signed(jy, H), mk("mul", H, px))
    f = T("sqrt", mk("add", mk("mul", fx, fx), mk("mul", fy, fy)))
    crit = mk("add", mk("mul", const(0.245), mk("pow", f, const(-1.665))), const(2.81))
    return T("exp", mk("div", mk("neg", dose), mk("mul", const(2.0), crit)))


def find_result(it):
    """the Filtered value stored into the stack: (filtered, slot index AV or None, event)"""
    for e in it.events:
        if e.kind == "store" and e.name == "elementwise" and isinstance(e.args[2], imgdom.Filtered):
            idx = e.args[1]
            slot = idx.items[0] if isinstance(idx, Seq) else idx
            return e.args[2], slot, e
        if e.kind == "setattr" and e.name == "data" and isinstance(e.args[1], imgdom.Filtered):
            return e.args[1], None, e
    return None, None, None


def o161(ctx):
    m, fn = ctx.prog.func(Q)
    ms, fs = ctx.prog.func(QS)
    ctx.touched(Q, QS)
    it, r = run(ctx)
    filt, slot, ev = find_result(it)
    if filt is None or filt.axes is None or filt.gain is None:
        raise Unsupported("no filtered image with an extracted gain is stored into the stack", fn)
    axes = filt.axes
    ctx.count(1, {"extracted gain": tm.show(filt.gain)[:400]})
    # every image slot is written: the store of the filtered image is not skipped under a condition on the dose (an image with dose 0 is multiplied by 1,
    # which is still a value that has to be in the result)
    dose_guards = [g_ for g_ in ev.guards if tm.has_sym(g_, "doses") and not (g_.op == "call" and g_.args[0] == "in_loop")]
    ctx.count(1, {"conditions on the dose under which the image is stored": [tm.show(g_)[:60] for g_ in dose_guards]})
    if dose_guards:
        ctx.finding(Q, ev.node, f"the filtered image is stored only under a condition on the dose ({tm.show(dose_guards[0])[:60]}): the images it skips are not in "
                    "the result (an output buffer that is not the input stack holds zeros / stale memory there), so zero dose is not the identity", ev.node, m)
    # the filter acts on the image's own frequency grid: the image is transformed as it is (no padded / resampled canvas)
    ctx.count(1)
    foreign = [n for n in tm.walk(filt.src) if n.op == "call" and str(n.args[0]) in ("numpy.pad", "numpy.resize", "scipy.ndimage.zoom", "numpy.tile")]
    opaque_n = [A for A in axes if any(n.op == "call" for n in tm.walk(A.n))]
    if opaque_n and not (foreign or getattr(filt, "cropped", False)):
        # the size of the frequency grid is an expression the interpretation did not resolve (a shape unpacked inside a helper): whether it is the image's
        # own size is not decided -- not a finding
        raise Unsupported(f"dose_filter: the size of the frequency grid is not resolved ({tm.show(opaque_n[0].n)[:60]})", ev.node)
    if foreign or getattr(filt, "cropped", False):
        ctx.finding(Q, ev.node, "the image is filtered on a canvas of another size than the image (padded / cropped around the transform): the "
                    "attenuation is then applied at the frequencies of that canvas, not at the image's own k/(N*pixel_size) grid, and the "
                    "result is not a multiplier on the image's Fourier components", ev.node, m, image=tm.show(filt.src)[:120],
                    grid=[tm.show(A.n)[:40] for A in axes])
        return
    # layout offsets cancel for every size
    bad_layout = [e for e in it.events if e.kind == "fourier"]
    ctx.count(1, {"layout events": [(e.name, {k: tm.show(v) if isinstance(v, T) else str(v) for k, v in e.extra.items()}) for e in bad_layout]})
    for e in bad_layout:
        ctx.finding(QS if e.fn.endswith("single_image") else Q, e.node,
                    {"layout-offset": "the Fourier layout is still circularly shifted when the inverse transform is taken (the "
                                      "fftshift/ifftshift pair does not cancel for every size; odd sizes differ)",
                     "unbalanced-shift": "shifts applied to the spectrum do not cancel",
                     "fill-range-mismatch": "the frequency array is filled over a range that differs from its allocated shape"}[e.name]
                    + f" [{ {k: (tm.show(v)[:80] if isinstance(v, T) else str(v)[:80]) for k, v in e.extra.items()} }]",
                    e.node, ms if e.fn.endswith("single_image") else m)
    if len(axes) == 2:
        jy, jx = axes[0].sym, axes[1].sym
        H, W = axes[0].n, axes[1].n
        # per-tilt call: the dose is that of the same tilt index as the image and the slot written
        zsyms = [s for s in tm.symbols(filt.src) if s.startswith("ri@")]
        if len(zsyms) != 1 or slot is None:
            raise Unsupported("per-tilt filtering loop not recognised (image index)", ev.node)
        z = sym(zsyms[0])
        dose = call("getitem", sym("doses"), z)
        want_src = call("getitem", sym("stack"), T("vec", z, call("slice", const(None), const(None), const(None)),
                                                   call("slice", const(None), const(None), const(None))))
        ctx.count(1, {"image": tm.show(filt.src)[:100], "slot": tm.show(to_term(slot))[:60]})
        if to_term(slot) != z or filt.src != want_src:
            ctx.finding(Q, ev.node, "tilt image i must be filtered with dose i and written back to slot i of the stack; the code "
                        f"filters {tm.show(filt.src)[:80]} into slot {tm.show(to_term(slot))[:40]}", ev.node, m)
        zaxis = [imgdom.Axis(z, sym("N"))]
    elif len(axes) == 3:
        jz, jy, jx = axes[0].sym, axes[1].sym, axes[2].sym
        H, W = axes[1].n, axes[2].n
        dose = call("getitem", sym("doses"), jz)
        zaxis = []
        ctx.count(1, {"whole-stack filtering": tm.show(filt.src)[:60]})
        if filt.src != sym("stack") or filt.transformed != "last2":
            ctx.finding(Q, ev.node, "the whole stack must be transformed image by image (over the last two axes)", ev.node, m)
    else:
        raise Unsupported(f"filtered image of rank {len(axes)}", ev.node)
    want = expected_gain(jy, jx, H, W, mk("float", sym("pixel_size")), dose)
    rng = np.random.default_rng(tm.SEED + 16)
    envs = []
    for i in range(60 * tm.N_MULT):
        env = imgdom.sample_env(list(axes) + zaxis, rng, {"pixel_size": pos_sampler(0.5, 10.0)})
        env["doses"] = rng.uniform(0, 300, size=64)
        env.setdefault("N", float(rng.integers(1, 11)))
        if i % 5 == 0:  # DC component
            for A in axes[-2:]:
                env[A.sym.args[0]] = 0.0
        if i % 7 == 3:  # odd, non-square sizes
            for A in axes[-2:]:
                for nm in tm.symbols(A.n):
                    env[nm] = float(2 * rng.integers(2, 24) + 1)
            for A in axes[-2:]:
                env[A.sym.args[0]] = float(rng.integers(0, int(tm.evaluate(A.n, env))))
        envs.append(env)
    # the documented range of pixel sizes starts at 0.5 A: sub-Angstrom pixels, at the highest frequency of the grid (the corner component
    # N/2 on both axes, f > 0.5 1/A) and at a low one
    for j, px_ in enumerate((0.5, 0.55, 0.7, 0.9, 0.99, 1.0, 1.01, 2.0)):
        for corner in (True, False):
            env = dict(envs[(3 * j + 1) % len(envs)])
            env["pixel_size"] = px_
            for A in axes[-2:]:
                n_ = int(tm.evaluate(A.n, env))
                env[A.sym.args[0]] = float(n_ // 2) if corner else float(min(1 + j % 3, n_ - 1))
            envs.append(env)
    v = tm.equivalent(filt.gain, want, n=len(envs), extra_envs=envs, tol=1e-9, seed_tag=Q, need=40)
    ctx.count(60, {"specified gain": "exp(-dose_i/(2*(0.245*f^-1.665+2.81))), f from signed FFT frequencies", "equal": bool(v),
                   "points": v.points})
    if not v:
        ctx.finding(QS, "gain applied to the Fourier components", "the gain applied to the FFT component (jy, jx) of tilt image i "
                    "must be exp(-dose_i / (2*(0.245*f^-1.665 + 2.81))) with f = sqrt((sx/(W*px))^2 + (sy/(H*px))^2) and s the "
                    "signed FFT frequency of the index; the extracted gain differs", fs, ms, witness=v.witness,
                    extracted=tm.show(filt.gain)[:500])
    ctx.count(1)
    if not filt.real:
        ctx.finding(QS, "returned image", "the real part of the inverse transform must be returned", fs, ms)


def o163(ctx):
    """protocol: construct with the order options, write after the last update, return correct_order()"""
    m, fn = ctx.prog.func(Q)
    it, r = run(ctx)
    ctor = [e for e in it.events if e.kind == "call" and e.name == "cryocat.tiltstack.TiltStack"]
    wr = [e for e in it.events if e.kind == "call" and e.name.endswith("TiltStack.write_out")]
    co = [e for e in it.events if e.kind == "call" and e.name.endswith("TiltStack.correct_order")]
    if len(ctor) != 1 or len(wr) != 1 or len(co) != 1:
        raise Unsupported("TiltStack protocol (construct / write_out / correct_order) not recognised", fn)
    for opt in ("input_order", "output_order"):
        a = ctor[0].kwargs.get(opt)
        ctx.count(1)
        if a is None or to_term(a) != sym(opt):
            ctx.finding(Q, ctor[0].node, f"the {opt} option must be passed on to TiltStack", ctor[0].node, m)
    filt, slot, ev = find_result(it)
    ctx.count(1)
    order = [id(e) for e in it.events]
    if ev is None or order.index(id(wr[0])) < order.index(id(ev)):
        ctx.finding(Q, wr[0].node, "write_out must come after the last update of the stack", wr[0].node, m)
    ctx.count(1)
    if to_term(wr[0].arg(0)) != sym("output_file") and not tm.has_sym(to_term(wr[0].arg(0)), "output_file"):
        ctx.finding(Q, wr[0].node, "the requested output file must be passed to write_out", wr[0].node, m)
    ctx.count(1)
    if not tm.has_call(to_term(r.ret), "cryocat.tiltstack.TiltStack.correct_order"):
        ctx.finding(Q, "return value", "the result must be returned through correct_order() (requested axis order)", fn, m)
    else:
        rt_ = to_term(r.ret)
        # shape-only library calls keep the element-wise value (the term is unchanged) but not the shape: looked up among the calls
        sq_ = [e for e in it.events if e.kind == "call" and e.fn == Q and e.name.split(".")[-1] in ("squeeze", "ravel", "flatten", "atleast_3d")
               and e.args and tm.has_call(to_term(e.args[0]), "cryocat.tiltstack.TiltStack.correct_order")]
        if sq_:
            ctx.finding(Q, sq_[0].node, f"the ordered stack goes through {sq_[0].name.split('.')[-1]} before it is returned: a stack that holds a single image "
                        "comes back without its tilt axis, so result[..., 0] / result[0] is a line of the image, and array and written file no longer "
                        "have the same shape", sq_[0].node, m)
        elif not (rt_.op == "call" and str(rt_.args[0]) == "cryocat.tiltstack.TiltStack.correct_order"):
            # something acts on the ordered stack before it is handed back
            if tm.contains(rt_, lambda n: n.op == "call" and str(n.args[0]) in ("numpy.squeeze", ".squeeze", "numpy.atleast_3d", "numpy.ravel", ".ravel", ".flatten", ".reshape", "numpy.reshape")):
                ctx.finding(Q, "return value", f"the ordered stack is reshaped before it is returned ({tm.show(rt_)[:80]}): a stack that holds a single "
                            "image comes back without its tilt axis, so result[..., 0] / result[0] is a line of the image, and array and written file "
                            "no longer have the same shape", fn, m)
            else:
                raise Unsupported(f"the value returned is derived from correct_order() in a way the rule does not follow: {tm.show(rt_)[:80]}", fn)


def _obligations():
    return [
        Obligation("O16.6", "doses of an mdoc file: ExposureDose + PriorRecordDose, or ExposureDose times the rank in order of acquisition, in the order of the table's rows (shared with C17)", lambda ctx: _c17().o173(ctx), floor=8),
        Obligation("O16.4", "loaders: tlt_load passes arrays / lists through and returns every file value (sorted only on request); total_dose_load hands doses back as given (shared with C09)", lambda ctx: (_c09.o96(ctx), _c09.o98(ctx)), floor=12),
        Obligation("O16.5", "TiltStack holds the caller's array unchanged (axes permuted at most), reads files unpermuted, returns / writes in the stack's type (shared with C15)", _c15.o155, floor=8),
        Obligation("O16.1", "extracted Fourier gain equals the exposure attenuation for every size/index/dose; layouts cancel; pairing", o161, floor=60),
        Obligation("O16.3", "TiltStack protocol: options plumbed, write after update, correct_order returned", o163, floor=5),
    ]


def obligations():
    return _obligations() + [labels_obligation("C16"), selectors_obligation("C16"), mutations_obligation("C16"), loopstate_obligation("C16"), effects_obligation("C16"), plumbing_obligation("C16"), overrides_obligation("C16"), options_obligation("C16"), handlers_obligation("C16")]
