"""C05 -- pose bookkeeping: position x+shift and orientation transform rigidly"""
from .common import *
from . import C09 as _c09

TITLE = "Pose bookkeeping: position x+shift and orientation transform rigidly"
EXPLANATION = (
    "Abstract interpretation of get_coordinates, update_coordinates, scale_coordinates, shift_positions, "
    "apply_rotation and flip_handedness over a symbolic particle table (every column a free symbol): the final "
    "closed form of every written column is extracted from the syntax tree and decided equal to the specified closed "
    "form by random interpretation (identity testing of the extracted terms; no repository code runs); rotation "
    "columns are compared as rotation matrices (R*Q, S_z R S_z); column write-sets are checked; the per-tomogram "
    "dimension lookup of flip_handedness must be keyed by the same tomogram value as the rows it updates.")
ASSUMPTIONS = TRUSTED + ["compositions (s1 then s2, Q1 then Q2, flip twice) follow from the single-step closed forms "
                         "and SciPy's group law; decimal.Decimal(...).to_integral_value(ROUND_HALF_UP) is modelled as "
                         "floor(v + 1/2)"]

COORD = ["x", "y", "z"]
SHIFT = ["shift_x", "shift_y", "shift_z"]
ANG = ["phi", "theta", "psi"]
HALF = {c: half_integer_sampler() for c in COORD + SHIFT}


def others(prog, *written):
    w = set(sum([list(x) for x in written], []))
    return [c for c in prog.class_attr("cryomotl.Motl", "motl_columns") if c not in w]


def o51(ctx):
    q = "cryomotl.Motl.get_coordinates"
    m, fn = ctx.prog.func(q)
    ctx.touched(q)
    for cfg, arg in ((True, K(None)), (False, P("tomo_number"))):
        it = Interp(ctx.prog)
        me = motl_obj(ctx.prog)
        r = it.run(q, [arg], {}, self_obj=me)
        a = r.ret
        if not isinstance(a, Arr) or len(a.cols) != 3:
            raise Unsupported("get_coordinates does not return a 3-component array", fn)
        for k, c in enumerate(COORD):
            want = mk("add", sym(c), sym("shift_" + c))
            v = tm.equivalent(no_sel(a.cols[k]), want, seed_tag=q + c)
            ctx.count(1, {"branch": "all particles" if cfg else "one tomogram", "component": k,
                          "extracted": tm.show(a.cols[k])[:120], "specified": tm.show(want)})
            if not v:
                ctx.finding(q, f"component {k} of the returned array ({'tomo_number is None' if cfg else 'tomo_number given'})",
                            f"complete position component {k} must be {c} + shift_{c}, the code returns {tm.show(a.cols[k])[:120]}",
                            fn, m, witness=v.witness)
        if not cfg:
            # both operands restricted to the same rows: tomo_id == tomo_number
            want_mask = mk("eq", sym("tomo_id"), sym("tomo_number"))
            for k in range(3):
                sels = tm.find(a.cols[k], lambda n: n.op == "sel")
                masks = {s.args[1].key() for s in sels}
                ctx.count(1)
                if len(sels) != 2 or len(masks) != 1 or not tm.equivalent(sels[0].args[1], want_mask, seed_tag="mask"):
                    ctx.finding(q, f"row selection of component {k}",
                                "coordinates and shifts must both be restricted to rows with tomo_id == tomo_number",
                                fn, m, extracted=tm.show(a.cols[k])[:200])


def o52(ctx):
    q = "cryomotl.Motl.update_coordinates"
    ctx.touched(q, q + ".round_and_recenter")
    it = Interp(ctx.prog)
    me = motl_obj(ctx.prog)
    it.run(q, [], {}, self_obj=me)
    df = me.attrs["df"]
    if not isinstance(df, Frame):
        raise Unsupported("update_coordinates leaves a non-table in self.df")
    exp = {}
    for c in COORD:
        s = mk("add", sym(c), sym("shift_" + c))
        # the property asks for an integer within 0.5 of the complete position; which way a tie goes is the code's choice
        exp[c] = Rel(s, tm.nearest_integer, "an integer within 0.5 of")
        exp["shift_" + c] = mk("sub", s, df.cols[c]) if c in df.cols else s
    # special inputs: all shifts exactly zero with fractional stored positions (lists converted from other packages, or scaled by 0.5),
    # one shift zero, negative positions
    rng_ = np.random.default_rng(tm.SEED + 52)
    special = []
    for k_ in range(12):
        env = {"__salt__": 0.5}
        for c in COORD:
            env[c] = float(rng_.integers(-40, 80)) + float(rng_.choice([0.0, 0.5, 0.25, 0.75]))
            env["shift_" + c] = 0.0 if k_ % 3 != 2 else float(rng_.choice([0.0, 0.3, -0.5]))
        for c in others(ctx.prog, COORD, SHIFT):
            env[c] = float(rng_.uniform(0, 10))
        special.append(env)
    expect_cols(ctx, it, q, df, exp, unchanged=others(ctx.prog, COORD, SHIFT), samplers=HALF,
                what="update_coordinates (x' = round-half-up(x+shift), shift' = x+shift-x')", n=40, extra_envs=special)
    # the invariant itself: x' + shift' == x + shift (decided on the extracted terms, independent of the rounding model)
    m, fn = ctx.prog.func(q)
    for c in COORD:
        got = mk("add", df.cols[c], df.cols["shift_" + c])
        want = mk("add", sym(c), sym("shift_" + c))
        v = tm.equivalent(got, want, samplers=HALF, n=40, seed_tag="inv" + c)
        ctx.count(1, {"invariant": f"{c}' + shift_{c}' == {c} + shift_{c}", "equal": bool(v)})
        if not v:
            ctx.finding(q, last_store(it, df, "shift_" + c) or fn, f"complete position {c}+shift_{c} changes", fn, m,
                        witness=v.witness)


def o53(ctx):
    q = "cryomotl.Motl.scale_coordinates"
    ctx.touched(q)
    it = Interp(ctx.prog)
    me = motl_obj(ctx.prog)
    it.run(q, [P("scaling_factor")], {}, self_obj=me)
    df = me.attrs["df"]
    exp = {c: mk("mul", sym(c), sym("scaling_factor")) for c in COORD + SHIFT}
    expect_cols(ctx, it, q, df, exp, unchanged=others(ctx.prog, COORD, SHIFT), what="scale_coordinates (all six columns x factor)")


def o54(ctx):
    q = "cryomotl.Motl.shift_positions"
    ctx.touched(q, q + ".shift_coords")
    svec = Seq([P("s0"), P("s1"), P("s2")], "list")
    rs = T("rotapply", particle_R(), T("vec", sym("s0"), sym("s1"), sym("s2")))
    exp = {f"shift_{c}": mk("add", sym(f"shift_{c}"), T("item", rs, k)) for k, c in enumerate(COORD)}
    for inplace in (True, False):
        it = Interp(ctx.prog, assume=assume_map({"inplace": inplace}))
        me = motl_obj(ctx.prog)
        r = it.run(q, [svec], {}, self_obj=me)
        tgt = me if inplace else r.ret
        if not isinstance(tgt, Obj) or not isinstance(tgt.attrs.get("df"), Frame):
            raise Unsupported("shift_positions does not produce a particle list")
        df = tgt.attrs["df"]
        expect_cols(ctx, it, q, df, exp, unchanged=others(ctx.prog, SHIFT), samplers=ANGLES,
                    what=f"shift_positions(inplace={inplace}) (shift += R*s with the particle's own orientation)")
        if not inplace:
            # the original list must not be modified
            expect_cols(ctx, it, q, me.attrs["df"], {}, unchanged=list(exp), what="shift_positions(inplace=False) input list")


def o55(ctx):
    q = "cryomotl.Motl.apply_rotation"
    ctx.touched(q)
    m, fn = ctx.prog.func(q)
    it = Interp(ctx.prog)
    me = motl_obj(ctx.prog)
    it.run(q, [Rot(sym("Q"))], {}, self_obj=me)
    df = me.attrs["df"]
    got = euler_term("zxz", df.cols["phi"], df.cols["theta"], df.cols["psi"])
    want = T("matmul", particle_R(), sym("Q"))
    sam = dict(ANGLES, Q=rot_sampler)
    v = tm.rot_equivalent(got, want, samplers=sam, seed_tag=q)
    ctx.count(1, {"extracted": tm.show(got)[:200], "specified": "R @ Q", "equal": bool(v)})
    if not v:
        ctx.finding(q, last_store(it, df, "phi") or fn,
                    "the new orientation zxz(phi',theta',psi') must be R*Q (particle rotation times the argument, Q first)",
                    last_store(it, df, "phi") or fn, m, extracted=tm.show(got)[:240], witness=v.witness)
    expect_cols(ctx, it, q, df, {}, unchanged=others(ctx.prog, ANG), samplers=sam, what="apply_rotation")


def dims_summary(single):
    def f(it, args, kwargs, node, fr):
        names = ["x", "y", "z"] if single else ["tomo_id", "x", "y", "z"]
        d = Frame({c: sym("dim:" + c) for c in names}, names, name="dims")
        d.space = Space("dims", how="root")
        return d

    return f


def o56(ctx):
    q = "cryomotl.Motl.flip_handedness"
    ctx.touched(q)
    m, fn = ctx.prog.func(q)
    D = sym("dim:z")
    for single in (True, False):
        it = Interp(ctx.prog, assume=assume_map({"dims.shape == (1, 3)": single, "tomo_dimensions is not None": True}),
                    summaries={"cryocat.ioutils.dimensions_load": dims_summary(single)})
        me = motl_obj(ctx.prog)
        it.run(q, [P("tomo_dimensions")], {}, self_obj=me)
        df = me.attrs["df"]
        label = "single dimension row" if single else "per-tomogram dimensions"
        # orientation: S_z R S_z
        got = euler_term("zxz", df.cols["phi"], df.cols["theta"], df.cols["psi"])
        v = tm.rot_equivalent(no_sel(got), mirror_z(particle_R()), samplers=ANGLES, seed_tag=q + label)
        ctx.count(1, {"case": label, "orientation": tm.show(got)[:120], "specified": "S_z R S_z", "equal": bool(v)})
        if not v:
            ctx.finding(q, last_store(it, df, "theta") or fn, f"{label}: the new orientation must be the z-mirror conjugate "
                        "S_z R S_z of the old one", last_store(it, df, "theta") or fn, m, witness=v.witness)
        zt, st = df.cols["z"], df.cols["shift_z"]
        if not single:
            # rows of tomogram t: mask must be tomo_id == t for the same t that selects the dimension row
            for cname, term in (("z", zt), ("shift_z", st)):
                parts = split_ite(term)
                ctx.count(1)
                if parts is None:
                    ctx.finding(q, f"store to column {cname}", f"{label}: column {cname!r} is not updated per tomogram "
                                f"(extracted: {tm.show(term)[:120]})", last_store(it, df, cname) or fn, m)
                    continue
                cond, new, old = parts
                each = [n for n in tm.walk(cond) if n.op == "call" and n.args[0] == "each"]
                after_loop = tm.has_call(cond, "last") or any(n.op == "call" and str(n.args[0]).startswith("loopvar:") for n in tm.walk(cond))
                if not each and not after_loop:
                    # not a loop over the tomograms of the table at all (e.g. a keyed lookup with map/isin): this rule only
                    # knows the loop idiom, so it has no verdict
                    raise Unsupported(f"{label}: per-tomogram update of column {cname!r} is not a loop over the dimension table's "
                                      f"tomograms (selector {tm.show(cond)[:80]})", last_store(it, df, cname) or fn)
                ok = (cond.op == "eq" and len(each) == 1 and not tm.has_call(cond, "last")
                      and tm.equivalent(cond, mk("eq", sym("tomo_id"), each[0]), seed_tag="fm" + cname))
                if not ok:
                    ctx.finding(q, last_store(it, df, cname) or fn, f"{label}: rows of column {cname!r} must be selected by "
                                f"tomo_id == <the tomogram of the current iteration>; the code uses {tm.show(cond)[:120]}",
                                last_store(it, df, cname) or fn, m)
                    continue
                if cname == "z":
                    sels = [s for s in tm.find(new, lambda n: n.op == "sel") if tm.has_sym(s.args[0], "dim:z")]
                    wantmask = mk("eq", sym("dim:tomo_id"), each[0])
                    if len(sels) != 1 or not tm.equivalent(sels[0].args[1], wantmask, seed_tag="dm"):
                        ctx.finding(q, last_store(it, df, cname) or fn, f"{label}: the z dimension must be looked up in the row of "
                                    "the dimension table whose tomo_id equals the tomogram being updated",
                                    last_store(it, df, cname) or fn, m, extracted=tm.show(new)[:200])
                if not tm.equivalent(no_sel(old), sym(cname), seed_tag="old" + cname):
                    ctx.finding(q, last_store(it, df, cname) or fn, f"{label}: rows of other tomograms must keep column {cname!r}",
                                last_store(it, df, cname) or fn, m)
            zt = split_ite(zt)[1] if split_ite(zt) else zt
            st = split_ite(st)[1] if split_ite(st) else st
        wz = mk("sub", mk("add", D, const(1)), sym("z"))
        ws = mk("neg", sym("shift_z"))
        for cname, got_, want in (("z", zt, wz), ("shift_z", st, ws)):
            v = tm.equivalent(no_sel(got_), want, seed_tag=q + cname + label)
            ctx.count(1, {"case": label, "column": cname, "extracted": tm.show(got_)[:120], "specified": tm.show(want)})
            if not v:
                ctx.finding(q, last_store(it, df, cname) or f"column {cname} ({label})",
                            f"{label}: the mirror z -> dim_z+1-z of the complete position z+shift_z needs {cname}' = "
                            f"{tm.show(want)}; the code yields {tm.show(got_)[:100]}", last_store(it, df, cname) or fn, m,
                            witness=v.witness)
        # complete position
        v = tm.equivalent(no_sel(mk("add", zt, st)), mk("sub", mk("add", D, const(1)), mk("add", sym("z"), sym("shift_z"))),
                          seed_tag=q + "cp" + label)
        ctx.count(1, {"case": label, "invariant": "z'+shift_z' == dim_z+1-(z+shift_z)", "equal": bool(v)})
        if not v:
            ctx.finding(q, f"complete z position ({label})", f"{label}: complete position z+shift_z is not mapped to its mirror "
                        "image dim_z+1-(z+shift_z)", fn, m, witness=v.witness)
        expect_cols(ctx, it, q, df, {}, unchanged=others(ctx.prog, ["theta", "z", "shift_z"]), what=f"flip_handedness ({label})")
        # float(Series) is a TypeError under the installed pandas (E9-R4)
        for ev in it.events:
            if ev.kind == "api" and ev.name == "float(Series)":
                ctx.finding(q, ev.node, f"{label}: float() of a one-row column raises TypeError under the installed pandas "
                            "(take the scalar with .iloc[0] first)", ev.node, m)
    # orientation-only flip (no dimensions): only theta changes
    it = Interp(ctx.prog, assume=assume_map({"tomo_dimensions is not None": False}))
    me = motl_obj(ctx.prog)
    it.run(q, [K(None)], {}, self_obj=me)
    expect_cols(ctx, it, q, me.attrs["df"], {"theta": mk("neg", sym("theta"))}, unchanged=others(ctx.prog, ["theta"]),
                what="flip_handedness without dimensions")


def _pole_sampler(rng):
    """tilt angles including the poles and the other multiples of 90 degrees (where in-plane angles combine), next to generic ones"""
    return float(rng.choice([0.0, 180.0, -180.0, 360.0, 90.0, -90.0, float(rng.uniform(-180, 180)), float(rng.uniform(-180, 180))]))


POLES = dict(ANGLES, theta=_pole_sampler)


def o57(ctx):
    """the observer of the orientations: get_rotations() is the zxz rotation of the angles as they stand in the table now"""
    q = "cryomotl.Motl.get_rotations"
    m, fn = ctx.prog.func(q)
    ctx.touched(q, "cryomotl.Motl.get_angles")
    for tomo in (None, P("tomo_number")):
        it = Interp(ctx.prog, assume=assume_map({"angles.shape[0] == 0": False, "tomo_number is None": tomo is None}))
        me = motl_obj(ctx.prog)
        r = it.run(q, [] if tomo is None else [tomo], {}, self_obj=me)
        if not isinstance(r.ret, Rot):
            raise Unsupported(f"get_rotations does not return a rotation object ({type(r.ret).__name__})", fn)
        v = tm.rot_equivalent(no_sel(r.ret.term), particle_R(), samplers=POLES, seed_tag=q + str(tomo is None))
        ctx.count(1, {"tomo_number": tomo is not None, "rotation": tm.show(r.ret.term)[:100], "equal": bool(v)})
        if not v:
            ctx.finding(q, "returned rotations", "get_rotations must return the zxz rotation of the particle's (phi, theta, psi) as stored in the "
                        "table at the time of the call", fn, m, witness=v.witness)


def o58(ctx):
    """the accessors other features build on: get_angles hands back the (phi, theta, psi) columns as they stand, in this order, for every
    particle; fill stores what it is given, unchanged, into the columns the key names"""
    q = "cryomotl.Motl.get_angles"
    m, fn = ctx.prog.func(q)
    ctx.touched(q, "cryomotl.Motl.fill")
    for tomo in (None, P("tomo_number")):
        it = Interp(ctx.prog, assume=assume_map({"tomo_number is None": tomo is None}))
        me = motl_obj(ctx.prog)
        r = it.run(q, [] if tomo is None else [tomo], {}, self_obj=me)
        a = as_arr(r.ret) if not isinstance(r.ret, Arr) else r.ret
        if a is None or len(a.cols) != 3:
            raise Unsupported("get_angles does not return a three-column array", fn)
        for k, c in enumerate(("phi", "theta", "psi")):
            v = tm.equivalent(no_sel(a.cols[k]), sym(c), samplers=POLES, n=24, seed_tag=q + c)
            ctx.count(1, {"tomo_number": tomo is not None, "column": c, "returned": tm.show(a.cols[k])[:80]} if k == 0 else None)
            if not v:
                ctx.finding(q, f"returned column {k}", f"get_angles must return the particle's {c} as stored (column {k} of (phi, theta, psi)), for every "
                            f"value including theta = 0 and 180; it returns {tm.show(no_sel(a.cols[k]))[:100]}", fn, m, witness=v.witness)
    q = "cryomotl.Motl.fill"
    m, fn = ctx.prog.func(q)
    it = Interp(ctx.prog)
    me = motl_obj(ctx.prog)
    S = me.attrs["df"].space
    arr3 = lambda p_: Arr([sym(p_ + c) for c in "012"], 2, space=S)
    it.run(q, [DictV({"coord": arr3("c"), "angles": arr3("a"), "shifts": arr3("s"), "score": Val(sym("sc"), space=S)})], {}, self_obj=me)
    df = me.attrs["df"]
    want = {"x": "c0", "y": "c1", "z": "c2", "phi": "a0", "theta": "a1", "psi": "a2", "shift_x": "s0", "shift_y": "s1", "shift_z": "s2", "score": "sc"}
    exp = {c: sym(v_) for c, v_ in want.items()}
    expect_cols(ctx, it, q, df, exp, unchanged=others(ctx.prog, tuple(want)), samplers=POLES,
                what="fill (coord -> x,y,z; angles -> phi,theta,psi; shifts -> shift_x,y,z; a column name -> that column; values as given)")


def accessors(ctx):
    """the accessors of a particle list that other features read it through (shared with the properties built on them)"""
    o51(ctx)
    o57(ctx)
    o58(ctx)


def _obligations():
    return [
        Obligation("O5.8", "dimensions_load (flip_handedness): an N x 4 table comes back as given, one triplet is repeated per listed tomogram (shared with C09)", _c09.o99, floor=10),
        Obligation("O5.9", "accessors: get_angles returns (phi, theta, psi) as stored; fill stores the given values unchanged into the named columns", o58, floor=10),
        Obligation("O5.7", "get_rotations observes the current table: zxz rotation of (phi, theta, psi)", o57, floor=2),
        Obligation("O5.1", "get_coordinates = (x,y,z) + (shift_x,shift_y,shift_z) in both branches", o51, floor=9),
        Obligation("O5.2", "update_coordinates: x' = round-half-up(x+shift), shift' = residual, x'+shift' invariant", o52, floor=9),
        Obligation("O5.3", "scale_coordinates multiplies all six position columns by the factor", o53, floor=6),
        Obligation("O5.4", "shift_positions: shift += R*s with the particle's own orientation, x,y,z untouched", o54, floor=6),
        Obligation("O5.5", "apply_rotation: new orientation = R*Q, nothing else changes", o55, floor=2),
        Obligation("O5.6", "flip_handedness: orientation S_z R S_z, z -> dim+1-z, shift_z -> -shift_z, per tomogram", o56, floor=10),
    ]


def obligations():
    return _obligations() + [constructors_obligation(['cryomotl.Motl', 'cryomotl.EmMotl']), labels_obligation("C05"), selectors_obligation("C05"), mutations_obligation("C05"), loopstate_obligation("C05"), effects_obligation("C05"), plumbing_obligation("C05"), overrides_obligation("C05"), options_obligation("C05"), handlers_obligation("C05")]
