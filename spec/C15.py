"""C15 -- tilt-stack operations are lossless selections/permutations of tilt images"""
from .common import *
from . import C09 as _c09
from . import C11 as _c11

TITLE = "Tilt-stack operations are lossless selections/permutations of tilt images"
EXPLANATION = (
    "Every public tilt-stack operation is interpreted abstractly with the TiltStack object summarised as a rank-3 stack in "
    "internal (tilt, height, width) order whose n_tilts/height/width are the stack's own dimensions. Decided per operation: "
    "the protocol (input_order/output_order plumbed into TiltStack, the stack updated, write_out(output_file) after the "
    "update, the value returned through correct_order()); the selection itself as a closed form -- crop window "
    "[dim//2 - new//2, +new) on the height axis 1 and the width axis 2 (integer samples, non-square), sort = ascending "
    "argsort of angles loaded unsorted applied to axis 0, remove = np.delete on axis 0 with indices converted from 1-based "
    "iff numbered_from_1 (and without decrementing the caller's array in place), bin factors (1,b,b), even/odd split "
    "visiting every tilt index and routing by parity, each flip reversing exactly one axis, merge concatenating on axis 0 "
    "in ascending file order. TiltStack itself: xyz arrays are permuted (2,1,0) on input, files are read/written without "
    "permutation, correct_order permutes iff the requested order differs from the internal one.")
ASSUMPTIONS = TRUSTED + ["block-mean arithmetic is scikit-image's downscale_local_mean; dtype truncation on write is NumPy's"]

TS = "tiltstack."


def ts_summary(it, args, kwargs, node, fr):
    data = Unk(sym("stack"))
    data.rank = 3
    o = Obj("tiltstack.TiltStack", {"data": data, "n_tilts": P("stack.n0"), "height": P("stack.n1"), "width": P("stack.n2"),
                                    "data_type": Unk(sym("dtype")), "current_order": K("zyx"),
                                    "input_order": kwargs.get("input_order"), "output_order": kwargs.get("output_order")})
    return o


SIZES = {"stack.n0": int_sampler(2, 25), "stack.n1": int_sampler(4, 40), "stack.n2": int_sampler(4, 40)}


def run_op(ctx, name, args, kwargs, assume=None, summaries=None, no_inline=()):
    s = {"cryocat.tiltstack.TiltStack": ts_summary}
    s.update(summaries or {})
    it = Interp(ctx.prog, summaries=s, assume=assume_map(assume or {}),
                no_inline=("tiltstack.TiltStack.write_out", "tiltstack.TiltStack.correct_order") + tuple(no_inline))
    kw = {"input_order": P("input_order"), "output_order": P("output_order")}
    kw.update(kwargs)
    r = it.run(TS + name, args, kw)
    return it, r


def protocol(ctx, it, r, q, out_param="output_file", n_writes=1, allow_multi=False):
    m, fn = ctx.prog.func(q)
    ctor = [e for e in it.events if e.kind == "call" and e.name == "cryocat.tiltstack.TiltStack"]
    wr = [e for e in it.events if e.kind == "call" and e.name.endswith("TiltStack.write_out")]
    co = [e for e in it.events if e.kind == "call" and e.name.endswith("TiltStack.correct_order")]
    upd = [e for e in it.events if e.kind == "setattr" and e.name == "data" and e.fn == q]
    if not ctor or len(wr) != n_writes or not co:
        raise Unsupported(f"{q}: TiltStack protocol (construct / write_out / correct_order) not recognised", fn)
    if not allow_multi and len({to_term(e.args[1]).key() for e in upd}) > 1:
        # alternative ways of computing the result on different paths (a fast path next to the general one): the rules below look at one update
        raise Unsupported(f"{q}: the stack is updated in {len(upd)} different ways on different paths; only single-path operations are decided", upd[0].node)
    for opt in ("input_order", "output_order"):
        a = ctor[0].kwargs.get(opt)
        ctx.count(1)
        if a is None or to_term(a) != sym(opt):
            ctx.finding(q, ctor[0].node, f"the {opt} option must be passed on to TiltStack", ctor[0].node, m)
    order = [id(e) for e in it.events]
    ctx.count(1)
    if upd and order.index(id(wr[0])) < order.index(id(upd[-1])):
        ctx.finding(q, wr[0].node, "write_out must come after the last update of the stack (the file must hold the result)", wr[0].node, m)
    ctx.count(1)
    if n_writes == 1 and not tm.has_sym(to_term(wr[0].arg(0)), out_param):
        ctx.finding(q, wr[0].node, f"the requested {out_param} must be passed to write_out", wr[0].node, m)
    ctx.count(1)
    if not tm.has_call(to_term(r.ret), "cryocat.tiltstack.TiltStack.correct_order"):
        ctx.finding(q, "return value", "the result must be returned through correct_order() (requested axis order)", fn, m)
    else:
        rt_ = to_term(r.ret)
        # shape-only library calls keep the element-wise value (the term is unchanged) but not the shape: looked up among the calls
        sq_ = [e for e in it.events if e.kind == "call" and e.fn == q and e.name.split(".")[-1] in ("squeeze", "ravel", "flatten", "atleast_3d")
               and e.args and tm.has_call(to_term(e.args[0]), "cryocat.tiltstack.TiltStack.correct_order")]
        if sq_:
            ctx.finding(q, sq_[0].node, f"the ordered stack goes through {sq_[0].name.split('.')[-1]} before it is returned: a stack that holds a single image "
                        "comes back without its tilt axis, so result[..., 0] / result[0] is a line of the image, and array and written file no longer "
                        "have the same shape", sq_[0].node, m)
        elif not (rt_.op == "call" and str(rt_.args[0]) == "cryocat.tiltstack.TiltStack.correct_order"):
            # something acts on the ordered stack before it is handed back
            if tm.contains(rt_, lambda n: n.op == "call" and str(n.args[0]) in ("numpy.squeeze", ".squeeze", "numpy.atleast_3d", "numpy.ravel", ".ravel", ".flatten", ".reshape", "numpy.reshape")):
                ctx.finding(q, "return value", f"the ordered stack is reshaped before it is returned ({tm.show(rt_)[:80]}): a stack that holds a single "
                            "image comes back without its tilt axis, so result[..., 0] / result[0] is a line of the image, and array and written file "
                            "no longer have the same shape", fn, m)
            else:
                raise Unsupported(f"the value returned is derived from correct_order() in a way the rule does not follow: {tm.show(rt_)[:80]}", fn)
    return upd


def data_index(term):
    """term = getitem(stack, vec(i0, i1, i2)) -> [i0, i1, i2] terms, else None"""
    if term.op == "call" and term.args[0] == "getitem" and term.args[1] == sym("stack") and term.args[2].op == "vec":
        return list(term.args[2].args)
    return None


FULL = call("slice", const(None), const(None), const(None))


def slice_bounds(t):
    if t.op == "call" and t.args[0] == "slice":
        return t.args[1], t.args[2], t.args[3]
    return None


def o151(ctx):
    """crop"""
    q = TS + "crop"
    m, fn = ctx.prog.func(q)
    ctx.touched(q)
    it, r = run_op(ctx, "crop", [Unk(sym("input"))], {"new_width": P("nw"), "new_height": P("nh"), "output_file": P("output_file")},
                   assume={"new_width is not None": True, "new_height is not None": True})
    upd = protocol(ctx, it, r, q)
    if not upd:
        raise Unsupported("crop does not update the stack", fn)
    idx = data_index(to_term(upd[-1].args[1]))
    if idx is None or len(idx) != 3:
        raise Unsupported("cropped stack is not a window of the input stack", upd[-1].node)
    sam = dict(SIZES, nw=int_sampler(1, 4), nh=int_sampler(1, 4))
    ctx.count(1, {"crop window": [tm.show(x)[:80] for x in idx]})
    if idx[0] != FULL:
        ctx.finding(q, upd[-1].node, "cropping must keep all tilts (full slice on axis 0)", upd[-1].node, m)
    for ax, dim, new, nm in ((1, "stack.n1", "nh", "height"), (2, "stack.n2", "nw", "width")):
        b = slice_bounds(idx[ax])
        ctx.count(1)
        if b is None:
            ctx.finding(q, upd[-1].node, f"axis {ax} ({nm}) must be cropped with a slice", upd[-1].node, m)
            continue
        lo = mk("sub", mk("floordiv", sym(dim), const(2)), mk("floordiv", mk("int", sym(new)), const(2)))
        hi = mk("add", lo, mk("int", sym(new)))
        v1 = tm.equivalent(b[0], lo, samplers=sam, n=40, seed_tag=q + nm + "lo")
        v2 = tm.equivalent(b[1], hi, samplers=sam, n=40, seed_tag=q + nm + "hi")
        if not v1 or not v2:
            ctx.finding(q, upd[-1].node, f"the {nm} window (axis {ax}) must be [{nm}//2 - new//2, +new): the centred window of the "
                        f"image's own {nm} (non-square images differ)", upd[-1].node, m, extracted=[tm.show(x)[:100] for x in b[:2]],
                        witness=(v1.witness or v2.witness))


def o152(ctx):
    """sort / remove / bin"""
    q = TS + "sort_tilts_by_angle"
    m, fn = ctx.prog.func(q)
    ctx.touched(q, "ioutils.tlt_load", "ioutils.indices_load")
    it, r = run_op(ctx, "sort_tilts_by_angle", [Unk(sym("input")), Unk(sym("tilts"))], {"output_file": P("output_file")},
                   no_inline=("ioutils.tlt_load",))
    upd = protocol(ctx, it, r, q)
    idx = data_index(to_term(upd[-1].args[1])) if upd else None
    tl = [e for e in it.events if e.kind == "call" and e.name == "cryocat.ioutils.tlt_load"]
    ctx.count(1, {"sort index": [tm.show(x)[:80] for x in idx] if idx else None})
    ut = to_term(upd[-1].args[1]) if upd else None
    if tl and ut is not None and ut.op == "ite" and ut.args[0].op == "vec" and tm.has_call(ut.args[0], "argsort"):
        # out[perm] = data : a scatter through the sorting permutation
        ctx.finding(q, upd[-1].node, "the images are scattered through the sorting permutation (out[argsort(angles)] = data): image i lands at position "
                    "argsort[i], which is the inverse permutation -- the sorted stack is data[argsort(angles)] (a gather)", upd[-1].node, m,
                    extracted=tm.show(ut)[:160])
        return
    if not tl or idx is None:
        raise Unsupported("sort_tilts_by_angle structure not recognised", fn)
    sa = tl[0].kwargs.get("sort_angles")
    if sa is None or not (is_pyconst(sa) and pyval(sa) is False):
        ctx.finding(q, tl[0].node, "the tilt angles must be loaded in file order (sort_angles=False): the permutation is computed "
                    "from them", tl[0].node, m)
    loaded = None
    for n in tm.walk(idx[0]):
        if n.op == "call" and n.args[0] == "cryocat.ioutils.tlt_load":
            loaded = n
    ctx.count(1)
    if loaded is None or idx[0] != call("argsort", loaded) or idx[1] != FULL or idx[2] != FULL:
        ctx.finding(q, upd[-1].node, "the stack must be reordered on axis 0 by the ascending argsort of the tilt angles", upd[-1].node, m,
                    extracted=tm.show(idx[0])[:120])
    # remove_tilts
    q = TS + "remove_tilts"
    m, fn = ctx.prog.func(q)
    ctx.touched(q)
    it, r = run_op(ctx, "remove_tilts", [Unk(sym("input")), Unk(sym("idx"))], {"numbered_from_1": P("numbered_from_1"), "output_file": P("output_file")},
                   no_inline=("ioutils.indices_load",))
    upd = protocol(ctx, it, r, q)
    il = [e for e in it.events if e.kind == "call" and e.name == "cryocat.ioutils.indices_load"]
    dl = [e for e in it.events if e.kind == "call" and e.name == "numpy.delete"]
    # the same selection written with a keep mask: keep = ones(n, bool); keep[indices] = False; stack[keep, :, :]
    kidx = data_index(to_term(upd[-1].args[1])) if upd else None
    keep_mask = (kidx is not None and len(kidx) == 3 and kidx[1] == FULL and kidx[2] == FULL and kidx[0].op == "ite"
                 and tm.cval(kidx[0].args[1]) is False and tm.cval(kidx[0].args[2]) is True)
    if not il or not (dl or keep_mask) or not upd:
        raise Unsupported("remove_tilts structure not recognised", fn)
    for e_ in il:  # every path that loads the indices (file and list / array input alike)
        nf = e_.kwargs.get("numbered_from_1", e_.arg(1))
        ctx.count(1)
        if nf is None or to_term(nf) != sym("numbered_from_1"):
            ctx.finding(q, e_.node, "the numbered_from_1 option must be passed on to indices_load on every path (file, list and array input)",
                        e_.node, m)
        a0 = to_term(e_.arg(0)) if e_.arg(0) is not None else None
        ctx.count(1)
        if a0 is None or a0 != sym("idx"):
            ctx.finding(q, e_.node, "the caller's indices must reach indices_load as given", e_.node, m, extracted=tm.show(a0)[:80] if a0 is not None else None)
    ctx.count(1)
    if dl:
        ax = dl[0].kwargs.get("axis", dl[0].arg(2))
        ok = ax is not None and is_pyconst(ax) and pyval(ax) == 0 and to_term(dl[0].arg(0)) == sym("stack") \
            and tm.has_call(to_term(dl[0].arg(1)), "cryocat.ioutils.indices_load")
        if not ok or not tm.has_call(to_term(upd[-1].args[1]), "numpy.delete"):
            ctx.finding(q, dl[0].node, "the listed tilts must be deleted along axis 0 of the stack, all others kept in order", dl[0].node, m)
    else:
        # all-True flags with exactly the loaded indices cleared, applied to axis 0
        cleared = kidx[0].args[0]
        if not (cleared.op == "call" and cleared.args[0] == "cryocat.ioutils.indices_load"):
            ctx.finding(q, upd[-1].node, "the listed tilts (and only those) must be dropped along axis 0 of the stack, all others kept in "
                        "order", upd[-1].node, m, extracted=tm.show(kidx[0])[:120])
    # indices_load: minus one iff numbered_from_1, on a copy
    q2 = "ioutils.indices_load"
    m2, fn2 = ctx.prog.func(q2)
    for flag in (True, False):
        it = Interp(ctx.prog, assume=assume_map({"isinstance(input_data, str)": False,
                                                 "isinstance(input_data, list) or isinstance(input_data, np.ndarray)": True,
                                                 "len(indices) == 0": False, "numbered_from_1": flag}))
        arr = typed(Unk(sym("indices_in")), "ndarray")
        it.numeric_syms = ("indices_in",)  # the input is an array of tilt indices
        r = it.run(q2, [arr], {"numbered_from_1": K(flag)})
        want = mk("sub", sym("indices_in"), const(1)) if flag else sym("indices_in")
        v = tm.equivalent(to_term(r.ret), want, seed_tag=q2 + str(flag))
        ctx.count(1, {"numbered_from_1": flag, "returned": tm.show(to_term(r.ret))[:60]})
        if not v:
            ctx.finding(q2, "returned indices", f"with numbered_from_1={flag} the indices must be {'decremented by one' if flag else 'unchanged'}",
                        fn2, m2)
        for e in it.events:
            if e.kind == "inplace" and e.fn == q2:
                ctx.count(1)
                if e.extra.get("fresh") is not True:
                    ctx.finding(q2, e.node, "the caller's index array is modified in place (np.asarray does not copy): a second call "
                                "with the same array removes different tilts", e.node, m2)
    # bin
    q = TS + "bin"
    m, fn = ctx.prog.func(q)
    ctx.touched(q)
    it, r = run_op(ctx, "bin", [Unk(sym("input")), P("b")], {"output_file": P("output_file")})
    upd = protocol(ctx, it, r, q, allow_multi=True)
    ds = [e for e in it.events if e.kind == "call" and e.name.endswith("downscale_local_mean")]
    if not ds or not upd:
        raise Unsupported("bin structure not recognised", fn)
    for u_ in upd:
      ut = to_term(u_.args[1])
      ctx.count(1)
      if not (ut.op == "call" and str(ut.args[0]).endswith("downscale_local_mean")):
        # another way of averaging blocks on some path: sums of raw stack slices are evaluated in the stack's own type
        raw_sums = [n for n in tm.walk(ut) if n.op == "add" and any(x.op == "call" and x.args[0] == "getitem" and x.args[1] == sym("stack") for x in n.args)]
        if raw_sums:
            ctx.finding(q, u_.node, "on some path the block mean is formed by adding slices of the stack itself: the sum is evaluated in the "
                        "stack's own type, so for int16 stacks it wraps around whenever a block sum leaves the int16 range (the result is no "
                        "longer the block mean)", u_.node, m, extracted=tm.show(ut)[:200])
        else:
            raise Unsupported("bin: the stack is not updated with the downscale_local_mean result on every path", u_.node)
    fac = ds[0].arg(1)
    ctx.count(1, {"bin factors": tm.show(to_term(fac))[:60]})
    want = T("vec", const(1), mk("int", sym("b")), mk("int", sym("b")))
    if to_term(ds[0].arg(0)) != sym("stack") or not tm.equivalent(to_term(fac), want, samplers={"b": int_sampler(1, 8)}, seed_tag="bin"):
        ctx.finding(q, ds[0].node, "binning must average (1, b, b) blocks: tilts untouched, height and width by the factor", ds[0].node, m)



def _data_param(ctx, meth, pos):
    """name of the optional data parameter of a TiltStack method (the `pos`-th parameter after self), as it is called today"""
    _, f = ctx.prog.func(TS + "TiltStack." + meth)
    names = [a.arg for a in f.args.posonlyargs + f.args.args][1:]
    if len(names) <= pos:
        raise Unsupported(f"TiltStack.{meth}: no optional data parameter", f)
    return names[pos]


def _written(ctx, w):
    """the array a write_out call hands over (bound through the method's signature)"""
    name = _data_param(ctx, "write_out", 1)
    return w.kwargs.get(name, w.args[1] if len(w.args) > 1 else None)



def _half_of_name(name_term, node):
    """which half a written file is named after: the name must be exactly <prefix>_even.mrc / <prefix>_odd.mrc for every prefix
    (evaluated on prefixes that end in characters of '.mrc', contain dots and directories)"""
    halves = set()
    for prefix in ("ts_017_norm", "out/TS_01.aligned", "stack_mc", "x"):
        try:
            got = tm.evaluate(name_term, {"prefix": prefix})
        except Exception as e:  # noqa
            raise Unsupported(f"file name of a written half is not a string expression of the prefix ({e})", node)
        if got == prefix + "_even.mrc":
            halves.add("even")
        elif got == prefix + "_odd.mrc":
            halves.add("odd")
        else:
            halves.add(f"{prefix!r} -> {got!r}")
    return halves.pop() if len(halves) == 1 else sorted(halves)[0]


def o153(ctx):
    """split / flip / merge"""
    q = TS + "split_stack_even_odd"
    m, fn = ctx.prog.func(q)
    ctx.touched(q)
    it, r = run_op(ctx, "split_stack_even_odd", [Unk(sym("input"))], {"output_file_prefix": P("prefix")},
                   assume={"not ts.n_tilts == 1": True, "output_file_prefix": True})
    loops = [e for e in it.events if e.kind == "loop" and e.fn == q]
    apps = [e for e in it.events if e.kind == "call" and e.name == "list.append" and e.fn == q]
    ctx.count(1, {"loops": len(loops), "appends": len(apps)})
    sliced = False
    if len(loops) == 1 and len(apps) == 2:
        rng_args = getattr(loops[0].args[0], "range_args", None)
        if rng_args is None:
            # another way of walking the stack (enumerate over the images, zip, ...): which images it visits is not read off a range here
            raise Unsupported("split_stack_even_odd: the loop over the tilt images is not a range(...) over the indices: not decided", loops[0].node)
        if len(rng_args) != 1 or to_term(rng_args[0]) != sym("stack.n0"):
            ctx.finding(q, loops[0].node, "the split must visit every tilt index (range(n_tilts)): a stepped walk drops the last image "
                        "of an odd-sized stack", loops[0].node, m)
        else:
            i = loops[0].extra["elem"]
            it_ = to_term(i)
            par = mk("eq", mk("mod", it_, const(2)), const(0))
            for e in apps:
                val = to_term(e.args[1])
                idx = data_index(val)
                guard = [g for g in e.guards if tm.has_sym(g, it_.args[0])] if it_.op == "sym" else []
                ctx.count(1)
                if idx is None or idx[0] != it_ or idx[1] != FULL or idx[2] != FULL or len(guard) != 1:
                    ctx.finding(q, e.node, "each tilt image i must be appended whole to exactly one half, chosen by the parity of i",
                                e.node, m)
            evens = [e for e in apps if any(g == par for g in e.guards)]
            odds = [e for e in apps if any(g == mk("not", par) for g in e.guards)]
            ctx.count(1)
            if len(evens) != 1 or len(odds) != 1 or evens[0].args[0] is odds[0].args[0]:
                ctx.finding(q, apps[0].node, "even tilt indices must go to the even half and odd ones to the odd half", apps[0].node, m)
            else:
                # returned (even, odd) in this order and written to _even / _odd
                wr = [e for e in it.events if e.kind == "call" and e.name.endswith("TiltStack.write_out")]
                ctx.count(1)
                for w in wr:
                    nm = tm.show(to_term(w.arg(0)))
                    nd = _written(ctx, w)
                    hn = _half_of_name(to_term(w.arg(0)), w.node)
                    if hn not in ("even", "odd"):
                        ctx.finding(q, w.node, f"the halves must be written to <prefix>_even.mrc and <prefix>_odd.mrc for every prefix; the name is built "
                                    f"so that {hn}", w.node, m)
                        continue
                    src = evens[0].args[0] if hn == "even" else odds[0].args[0]
                    # which list the written array was stacked from: by identity of the list object (the two lists have the same generic element)
                    stacked = {id(e_.extra.get("ret")): e_.args[0] for e_ in it.events if e_.kind == "call" and e_.name in ("numpy.stack", "numpy.array", "numpy.asarray")
                               and e_.args}
                    from_list = nd if isinstance(nd, Seq) else stacked.get(id(nd))
                    born = getattr(from_list, "born", None)
                    if nd is not None and (born is None or getattr(evens[0].args[0], "born", None) is None
                                           or getattr(evens[0].args[0], "born", None) == getattr(odds[0].args[0], "born", None)):
                        raise Unsupported("which half is handed to write_out is not recognised", w.node)
                    if src is None or nd is None or born != getattr(src, "born", None):
                        ctx.finding(q, w.node, "the even half must be written to <prefix>_even.mrc and the odd half to <prefix>_odd.mrc",
                                    w.node, m)
                if len(wr) != 2:
                    ctx.finding(q, fn, "both halves must be written when a prefix is given", fn, m)
    elif not loops and not apps:
        # the same split written with stepped slices: stack[0::2] / stack[1::2] on the tilt axis
        def half(t):
            idx = data_index(t)
            if idx is None and t.op == "call" and t.args[0] == "getitem" and t.args[1] == sym("stack") and slice_bounds(t.args[2]):
                idx = [t.args[2], FULL, FULL]
            if idx is None or len(idx) != 3 or idx[1] != FULL or idx[2] != FULL or slice_bounds(idx[0]) is None:
                return None
            lo, hi, step = (tm.cval(x) for x in slice_bounds(idx[0]))
            if step != 2 or hi is not None or lo not in (None, 0, 1) or isinstance(lo, bool):
                return None
            return "odd" if lo == 1 else "even"

        wr = [e for e in it.events if e.kind == "call" and e.name.endswith("TiltStack.write_out")]
        co = [e for e in it.events if e.kind == "call" and e.name.endswith("TiltStack.correct_order")]
        halves = [half(to_term(e.args[-1])) if e.args else None for e in co]
        ctx.count(3, {"halves returned": halves})
        if len(co) != 2 or None in halves:
            raise Unsupported("even/odd split idiom not recognised", fn)
        ret_ = [to_term(x) for x in r.ret.items] if isinstance(r.ret, Seq) else []
        if halves != ["even", "odd"] or len(ret_) != 2 or any(not tm.contains(ret_[k_], lambda n, k_=k_: n == to_term(co[k_].args[-1])) for k_ in range(2)):
            ctx.finding(q, co[0].node, "even tilt indices (0, 2, 4, ...) must go to the first returned half and odd ones to the second: "
                        "every tilt in exactly one half", co[0].node, m, halves=halves)
        for w in wr:
            nm = tm.show(to_term(w.arg(0)))
            nd = _written(ctx, w)
            want = _half_of_name(to_term(w.arg(0)), w.node)
            if want not in ("even", "odd"):
                ctx.count(1)
                ctx.finding(q, w.node, f"the halves must be written to <prefix>_even.mrc and <prefix>_odd.mrc for every prefix; the name is built so "
                            f"that {want}", w.node, m)
                continue
            ctx.count(1)
            if want is None or nd is None or half(to_term(nd)) != want:
                ctx.finding(q, w.node, "the even half must be written to <prefix>_even.mrc and the odd half to <prefix>_odd.mrc", w.node, m)
        if len(wr) != 2:
            ctx.finding(q, fn, "both halves must be written when a prefix is given", fn, m)
    else:
        raise Unsupported("even/odd split idiom not recognised", fn)
    ctor = [e for e in it.events if e.kind == "call" and e.name == "cryocat.tiltstack.TiltStack"]
    for opt in ("input_order", "output_order"):
        a = ctor[0].kwargs.get(opt) if ctor else None
        ctx.count(1)
        if a is None or to_term(a) != sym(opt):
            ctx.finding(q, ctor[0].node if ctor else fn, f"the {opt} option must be passed on to TiltStack", ctor[0].node if ctor else fn, m)
    # flips
    q = TS + "flip_along_axes"
    m, fn = ctx.prog.func(q)
    ctx.touched(q)
    REV = call("slice", const(None), const(None), const(-1))
    seen_axes = {}
    for letter in ("x", "y", "z"):
        it, r = run_op(ctx, "flip_along_axes", [Unk(sym("input")), K(letter)], {"output_file": P("output_file")})
        upd = protocol(ctx, it, r, q)
        idx = data_index(to_term(upd[-1].args[1])) if upd else None
        ctx.count(1, {"flip": letter, "index": [tm.show(x) for x in idx] if idx else None})
        if idx is None or sorted(1 if x == REV else 0 if x == FULL else 9 for x in idx) != [0, 0, 1]:
            ctx.finding(q, upd[-1].node if upd else fn, f"flipping along {letter!r} must reverse exactly one axis of the stack (an involution)",
                        upd[-1].node if upd else fn, m)
        elif idx is not None:
            seen_axes[letter] = [k for k, x in enumerate(idx) if x == REV][0]
    ctx.count(1)
    if len(set(seen_axes.values())) != len(seen_axes) or seen_axes.get("z") not in (None, 0):
        ctx.finding(q, fn, f"the three axis letters must reverse three different axes, 'z' the tilt axis (found {seen_axes})", fn, m)
    # merge
    q = TS + "merge"
    m, fn = ctx.prog.func(q)
    ctx.touched(q)
    sf = [n for n in ast.walk(fn) if isinstance(n, ast.Call) and (ctx.prog.resolve(m, n.func) or "").endswith("sort_files_by_idx")]
    cc = [n for n in ast.walk(fn) if isinstance(n, ast.Call) and ctx.prog.resolve(m, n.func) == "numpy.concatenate"]
    ctx.count(2)
    if len(sf) != 1 or not (isinstance(kwarg(sf[0], "order"), ast.Constant) and kwarg(sf[0], "order").value == "ascending"):
        ctx.finding(q, sf[0] if sf else fn, "the partial stacks must be merged in ascending file index order", sf[0] if sf else fn, m)
    if len(cc) != 1 or not (isinstance(kwarg(cc[0], "axis"), ast.Constant) and kwarg(cc[0], "axis").value == 0):
        ctx.finding(q, cc[0] if cc else fn, "the partial stacks must be concatenated along the tilt axis (axis 0)", cc[0] if cc else fn, m)
    for c in [n for n in ast.walk(fn) if isinstance(n, ast.Call) and isinstance(n.func, ast.Name) and n.func.id == "TiltStack"]:
        io = kwarg(c, "input_order")
        ctx.count(1)
        if not (isinstance(io, ast.Constant) and io.value == "zyx"):
            ctx.finding(q, c, "files and internal stacks are in (n,y,x) order: TiltStack must be built with input_order='zyx' here", c, m)


def o155(ctx):
    """TiltStack order handling"""
    q = TS + "TiltStack.__init__"
    m, fn = ctx.prog.func(q)
    ctx.touched(q, TS + "TiltStack.correct_order", TS + "TiltStack.write_out")
    # the element type results are cast back to is the type of the stack AS GIVEN, captured once at construction: a `data_type` computed from the live
    # array (a property, a method) is the type of whatever the array has become -- the casts in correct_order / write_out then compare it with itself
    mc_, cn_ = ctx.prog.cls(TS + "TiltStack")
    live = [d for d in cn_.body if isinstance(d, (ast.FunctionDef, ast.AsyncFunctionDef)) and d.name == "data_type"]
    captured = [a for a in ast.walk(fn) if isinstance(a, ast.Assign) and any(isinstance(t, ast.Attribute) and isinstance(t.value, ast.Name) and t.value.id == "self"
                                                                             and t.attr == "data_type" for t in a.targets)]
    ctx.count(1, {"data_type captured in __init__": [norm_text(a)[:60] for a in captured], "data_type defined on the class": [d.name for d in live]})
    if live:
        ctx.finding(TS + "TiltStack", "element type of the stack", "`data_type` is computed from the live array (a property / method of the class) instead of being captured "
                    "at construction: after an operation whose result has another type (block means, filtered images) it names that new type, so the casts back "
                    "to the input's type in correct_order and write_out never fire -- an int16 stack comes back as float64", live[0], mc_)
    elif not captured or not any(isinstance(x, ast.Attribute) and x.attr == "dtype" for a in captured for x in ast.walk(a.value)):
        raise Unsupported("TiltStack.__init__: where the stack's element type is captured is not recognised", fn)
    for order in ("xyz", "zyx"):
        it = Interp(ctx.prog, assume=assume_map({"not isinstance(tilt_stack, np.ndarray)": False, "self.data.shape == 2": False}))
        me = Obj("tiltstack.TiltStack", {})
        arr = Unk(sym("arr"))
        arr.rank = 3
        it.run(q, [arr], {"input_order": K(order), "output_order": P("output_order")}, self_obj=me)
        t = to_term(me.attrs.get("data"))
        perms = [tuple(tm.cval(a) for a in n.args[2:]) for n in tm.walk(t) if n.op == "call" and n.args[0] == ".transpose"]
        ctx.count(1, {"array input_order": order, "internal data": tm.show(t)[:80]})
        if perms != ([(2, 1, 0)] if order == "xyz" else []):
            ctx.finding(q, f"array input in {order} order", f"an array given in {order} order must be "
                        f"{'permuted with (2,1,0) into' if order == 'xyz' else 'taken as'} the internal (n,y,x) order; found {perms}", fn, m)
        co = me.attrs.get("current_order")
        ctx.count(1)
        if co is None or not (is_pyconst(co) and pyval(co) == "zyx"):
            ctx.finding(q, "current_order", "the internal order must be recorded as 'zyx'", fn, m)
        # the stack holds the caller's values as they are: apart from the axis permutation nothing is done to them (no conversion, no
        # scaling) -- every operation returns values of the array it was given
        SHAPE_ONLY = (".transpose", ".copy", "numpy.transpose", "numpy.ascontiguousarray", "numpy.array", "numpy.asarray", "numpy.copy", "numpy.expand_dims",
                      ".reshape", "numpy.reshape", "numpy.atleast_3d", "numpy.swapaxes", ".swapaxes", "numpy.moveaxis")

        def values_kept(x, base=sym("arr")):
            """does x hold arr's values, re-arranged at most? True / False / None (an operation the rule gives no meaning to)"""
            if x == base:
                return True
            if x.op == "ite":
                a_, b_ = values_kept(x.args[1], base), values_kept(x.args[2], base)
                return None if None in (a_, b_) else (a_ and b_)
            if x.op == "call" and x.args[0] in SHAPE_ONLY and len(x.args) >= 2:
                return values_kept(x.args[1], base)
            if x.op == "call" and x.args[0] == "getitem" and len(x.args) == 3 and all(n.op in ("vec", "const", "call") for n in tm.walk(x.args[2])) \
                    and all(n.args[0] == "slice" for n in tm.walk(x.args[2]) if n.op == "call") and all(tm.cval(n) is None for n in tm.walk(x.args[2]) if n.op == "const"):
                return values_kept(x.args[1], base)  # a[None, :, :] and friends
            if x.op == "call" and x.args[0] in (".astype", "cast", "numpy.float32", "numpy.nan_to_num", "numpy.clip", "numpy.round") or x.op in ("mul", "add", "sub", "div", "narrow", "round"):
                return False
            return None

        kept = values_kept(t)
        ctx.count(1)
        if kept is not True:
            if kept is None or not tm.has_sym(t, "arr"):
                raise Unsupported(f"data held by TiltStack(array) not recognised: {tm.show(t)[:100]}", fn)
            ctx.finding(q, f"values of an array given in {order} order", "TiltStack(array) must hold the array's values unchanged (axes permuted at "
                        f"most); it holds {tm.show(t)[:140]}: the element type or the values change on the way in, so a zero-dose filter, a crop "
                        "or a sort no longer returns the caller's numbers", fn, m)
    it = Interp(ctx.prog, assume=assume_map({"not isinstance(tilt_stack, np.ndarray)": True, "self.data.shape == 2": False}), no_inline=("cryomap.read",))
    me = Obj("tiltstack.TiltStack", {})
    it.run(q, [K("stack.mrc")], {"input_order": K("xyz"), "output_order": P("output_order")}, self_obj=me)
    rd = [e for e in it.events if e.kind == "call" and e.name == "cryocat.cryomap.read"]
    ctx.count(1)
    tr = rd[0].kwargs.get("transpose") if rd else None
    if not rd or tr is None or not (is_pyconst(tr) and pyval(tr) is False) or tm.has_call(to_term(me.attrs.get("data")), ".transpose"):
        ctx.finding(q, rd[0].node if rd else fn, "a stack file is read without axis permutation (transpose=False) whatever input_order says",
                    rd[0].node if rd else fn, m)
    # ... and holds the file's array as read: a stack passed as a file gives the same results as the same stack passed as an array
    if rd and rd[0].extra.get("ret") is not None and me.attrs.get("data") is not None:
        base_ = to_term(rd[0].extra["ret"])
        held_ = to_term(me.attrs["data"])
        kept_ = values_kept(held_, base_)
        ctx.count(1, {"file input, internal data": tm.show(held_)[:100]})
        if kept_ is None:
            raise Unsupported(f"data held by TiltStack(file) not recognised: {tm.show(held_)[:100]}", fn)
        if kept_ is False:
            ctx.finding(q, "values of a stack given as a file", "TiltStack(file) must hold the array read from the file unchanged; it holds "
                        f"{tm.show(held_)[:140]}: element type or values change on the way in for some files, so the same stack gives other results "
                        "(another type, other block means) as a file than as an array", fn, m)
    qc = TS + "TiltStack.correct_order"
    mc, fc = ctx.prog.func(qc)
    for out, cur, want in (("xyz", "zyx", True), ("zyx", "zyx", False)):
        dp = _data_param(ctx, "correct_order", 0)
        it = Interp(ctx.prog, assume=assume_map({"return_data.dtype != self.data_type": False, f"{dp} is not None": False}))
        data = Unk(sym("stack"))
        data.rank = 3
        me = Obj("tiltstack.TiltStack", {"data": data, "data_type": Unk(sym("dtype")), "current_order": K(cur), "output_order": K(out)})
        r = it.run(qc, [], {}, self_obj=me)
        perms = [tuple(tm.cval(a) for a in n.args[2:]) for n in tm.walk(to_term(r.ret)) if n.op == "call" and n.args[0] == ".transpose"]
        ctx.count(1, {"output_order": out, "permutation": perms})
        if perms != ([(2, 1, 0)] if want else []):
            ctx.finding(qc, f"output_order={out}", f"correct_order must {'apply (2,1,0)' if want else 'not permute'} when the requested order is "
                        f"{out!r} and the internal one {cur!r}; found {perms}", fc, mc)
    # the returned array has the stack's data type in either output order (the same conversion the file sink applies)
    for out, cur in (("xyz", "zyx"), ("zyx", "zyx")):
        it = Interp(ctx.prog, assume=assume_map({"return_data.dtype != self.data_type": True, f"{dp} is not None": True}))
        me = Obj("tiltstack.TiltStack", {"data": Unk(sym("stack")), "data_type": Unk(sym("dtype")), "current_order": K(cur), "output_order": K(out)})
        res_ = Unk(sym("result"))
        res_.rank = 3
        r = it.run(qc, [res_], {}, self_obj=me)
        t_ = to_term(r.ret)
        cast_ok = tm.contains(t_, lambda n: n.op == "call" and n.args[0] == ".astype" and len(n.args) > 2 and n.args[1] == sym("result") and n.args[2] == sym("dtype"))
        ctx.count(1, {"output_order": out, "result of another type": tm.show(t_)[:80]})
        if not cast_ok:
            ctx.finding(qc, f"type of the returned array, output_order={out}", f"with output_order={out!r} a result whose type differs from the stack's "
                        "(block means of an int16 stack) must be converted to the stack's data type before it is returned, exactly as the file "
                        f"sink does; returned: {tm.show(t_)[:80]}", fc, mc)
    qw = TS + "TiltStack.write_out"
    mw, fw = ctx.prog.func(qw)
    it = Interp(ctx.prog, no_inline=("cryomap.write",), assume=assume_map({"output_file": True, _data_param(ctx, "write_out", 1) + " is not None": False}))
    me = Obj("tiltstack.TiltStack", {"data": Unk(sym("stack")), "data_type": Unk(sym("dtype"))})
    it.run(qw, [P("output_file")], {}, self_obj=me)
    wr = [e for e in it.events if e.kind == "call" and e.name == "cryocat.cryomap.write"]
    ctx.count(1)
    bw = _c11.bind(ctx.prog, _c11.WR, wr[0]) if wr else {}
    tr = bw.get("transpose")
    if not wr or tr is None or not (is_pyconst(tr) and pyval(tr) is False) or to_term(bw.get(ctx.prog.func(_c11.WR)[1].args.args[0].arg, K(None))) != sym("stack") \
            or to_term(bw.get("data_type", K(None))) != sym("dtype"):
        ctx.finding(qw, wr[0].node if wr else fw, "the internal (n,y,x) stack must be written as it is (transpose=False) with the stack's "
                    "data type", wr[0].node if wr else fw, mw)


def _obligations():
    return [
        Obligation("O15.7", "loaders: tlt_load passes arrays / lists through and returns every file value (sorted only on request); total_dose_load hands doses back as given (shared with C09)", lambda ctx: (_c09.o96(ctx), _c09.o98(ctx)), floor=12),
        Obligation("O15.1", "crop: centred windows on the height axis 1 / width axis 2, protocol", o151, floor=7),
        Obligation("O15.2", "sort (ascending argsort, axis 0), remove (np.delete axis 0, 1-based option, no in-place), bin (1,b,b)", o152, floor=20),
        Obligation("O15.3", "even/odd split by parity over every index; flips reverse one axis each; merge on axis 0 ascending", o153, floor=25),
        Obligation("O15.6", "the file sink: cryomap.write hands the values on unchanged apart from the requested astype -- the same conversion "
                            "correct_order applies to the returned array (shared with C11)", _c11.o111, floor=30),
        Obligation("O15.5", "TiltStack: xyz arrays permuted (2,1,0), files unpermuted, correct_order iff orders differ, write_out", o155, floor=8),
    ]


def obligations():
    return _obligations() + [labels_obligation("C15"), selectors_obligation("C15"), mutations_obligation("C15"), loopstate_obligation("C15"), effects_obligation("C15"), plumbing_obligation("C15"), overrides_obligation("C15"), options_obligation("C15"), handlers_obligation("C15")]
