"""C08 -- particle-list set algebra and identifier discipline"""
from .common import *
import numpy as np
from sa import apicompat

TITLE = "Particle-list set algebra and identifier discipline"
EXPLANATION = (
    "The nine operations are interpreted abstractly over symbolic particle tables (two concrete symbolic lists for the "
    "binary / n-ary ones). Decided per operation: the resulting table has exactly the 20 fields (no index column from a "
    "reset_index without drop, no grouping column lost to the installed pandas' groupby.apply); the row selection is the "
    "documented one -- subset: feature == value, removal: feature != value (exact complement), split: == over unique "
    "values, intersection: a semi-join (isin) of the first list's rows, never an inner merge that multiplies rows; "
    "de-duplication sorts by (id ascending, decision by the given direction) and keeps the first per id; renumbering writes "
    "1..N; merging shifts each input's object numbers above the running maximum (the extracted update is evaluated on "
    "concrete integer id arrays including the tie min == running maximum: the shifted ranges must be disjoint and each "
    "input's grouping preserved); write-sets are limited to the documented columns; class methods work on copies (the "
    "input tables are never written).")
ASSUMPTIONS = TRUSTED + ["sequences of operations are not explored: each step's pandas semantics (boolean row selection, concat, "
                         "sort_values, drop_duplicates) is trusted"]

M = "cryomotl.Motl."
A = {"isinstance(feature_values, list)": False, "isinstance(feature_values, (list, np.ndarray))": False, "reset_index": True, "return_df": False,
     "not isinstance(motl_list, list) or len(motl_list) == 0": False, "m is None": False, "not motl.df.empty": True, "motl.df.empty": False,
     "write_out": False}


def cols20(prog):
    return set(prog.class_attr("cryomotl.Motl", "motl_columns"))


def check_schema(ctx, q, frame, m, fn, what):
    ctx.count(1)
    want = cols20(ctx.prog)
    if not isinstance(frame, Frame):
        raise Unsupported(f"{what}: result is not a tracked table", fn)
    got = set(frame.cols)
    if got != want:
        ctx.finding(q, what, f"{what}: the table must keep exactly the 20 particle fields; extra {sorted(got - want)}, missing {sorted(want - got)}",
                    fn, m)


def _enum_values(t, colf, values, where):
    """value of an enumeration term (unique values of a field, possibly filtered) for a sample column"""
    def ev(n):
        if n == colf:
            return values
        if n.op == "const":
            return tm.cval(n)
        if n.op == "call":
            h, a = str(n.args[0]), n.args[1:]
            if h in ("unique", "numpy.unique", ".unique") and len(a) == 1:
                v = ev(a[0])
                return np.unique(v)
            if h == "getitem" and len(a) == 2:
                return np.asarray(ev(a[0]))[np.asarray(ev(a[1]))]
            if h in ("numpy.nan_to_num", "numpy.isnan", "numpy.isfinite", "numpy.abs", "numpy.sort", "numpy.asarray", "numpy.array") and len(a) == 1:
                return getattr(np, h.split(".")[1])(ev(a[0]))
            if h in (".dropna",) and len(a) == 1:
                v = np.asarray(ev(a[0]), dtype=float)
                return v[~np.isnan(v)]
            if h in ("sorted", "builtins.sorted", "list", "builtins.list", ".tolist", ".to_numpy", ".values") and len(a) == 1:
                return np.asarray(sorted(ev(a[0]))) if "sorted" in h else np.asarray(ev(a[0]))
        if n.op in ("eq", "ne", "lt", "le") and len(n.args) == 2:
            x, y = ev(n.args[0]), ev(n.args[1])
            return {"eq": np.equal, "ne": np.not_equal, "lt": np.less, "le": np.less_equal}[n.op](x, y)
        if n.op == "not":
            return np.logical_not(ev(n.args[0]))
        if n.op in ("and", "or"):
            return (np.logical_and if n.op == "and" else np.logical_or)(ev(n.args[0]), ev(n.args[1]))
        raise Unsupported(f"enumeration of the field's values `{tm.show(t)[:80]}` uses an operation that is not evaluated here", where)
    return ev(t)


_PLAIN_CALLS = {"col", "isin", "each", "unique", "numpy.isclose", "numpy.unique", "sel", "rowelem"}


def plain_selection(filters, where):
    """row selections written as comparisons of fields with values (==, !=, <, isin, and / or / not) are decided; a selection
    that goes through anything else (a lookup table, a rank, a merge indicator) is not read as a predicate here"""
    for f_ in filters:
        for n in tm.walk(f_):
            if n.op == "call" and str(n.args[0]) not in _PLAIN_CALLS and not str(n.args[0]).startswith(("col", "cell")):
                raise Unsupported(f"row selection `{tm.show(f_)[:80]}` is not a comparison of a field with the requested values", where)


def o81(ctx):
    """row selections"""
    # subset / remove / split
    q = M + "get_motl_subset"
    m, fn = ctx.prog.func(q)
    ctx.touched(q, M + "remove_feature", M + "split_by_feature")
    it = Interp(ctx.prog, assume=assume_map(A))
    me = motl_obj(ctx.prog)
    r = it.run(q, [P("v")], {"feature_id": P("feature_id")}, self_obj=me)
    sub = r.ret.attrs["df"] if isinstance(r.ret, Obj) else None
    check_schema(ctx, q, sub, m, fn, "get_motl_subset")
    want_eq = mk("eq", call("col", const("df"), sym("feature_id")), sym("v"))
    ctx.count(1, {"subset filter": [tm.show(x) for x in sub.filters]})
    plain_selection(sub.filters, fn)
    if len(sub.filters) != 1 or sub.filters[0] != want_eq:
        ctx.finding(q, "row selection", "a subset must hold exactly the rows whose feature equals the requested value (==)", fn, m,
                    filters=[tm.show(x)[:100] for x in sub.filters])
    if sub.written or me.attrs["df"].written:
        ctx.finding(q, "write-set", "selecting a subset must not change any field", fn, m)
    ctx.count(1)
    if not any(n[0] == "reset_index" and n[1] is True for n in sub.notes):
        ctx.finding(q, "index of the subset", "the subset must be re-indexed with reset_index(drop=True)", fn, m)
    q2 = M + "remove_feature"
    m2, fn2 = ctx.prog.func(q2)
    it = Interp(ctx.prog, assume=assume_map(dict(A, **{"not isinstance(feature_values, (list, np.ndarray))": True})))
    me = motl_obj(ctx.prog)
    it.run(q2, [P("feature_id"), P("v")], {}, self_obj=me)
    df = me.attrs["df"]
    check_schema(ctx, q2, df, m2, fn2, "remove_feature")
    want_ne = mk("ne", call("col", const("df"), sym("feature_id")), sym("v"))
    ctx.count(1, {"removal filter": [tm.show(x)[:100] for x in df.filters]})
    ok = len(df.filters) == 1 and tm.equivalent(tm.subst(df.filters[0], {n: n.args[1] for n in tm.walk(df.filters[0]) if n.op == "call" and n.args[0] == "each"}),
                                                 want_ne, seed_tag="ne") and not tm.has_call(df.filters[0], "numpy.isclose")
    if ok:
        # the comparison must be exact: evaluate at ties and near-ties
        flt = tm.subst(df.filters[0], {n: n.args[1] for n in tm.walk(df.filters[0]) if n.op == "call" and n.args[0] == "each"})
        for a_, b_ in ((100017.0, 100016.0), (5.0, 5.0), (5.0, 5.0000001)):
            colterm = call("col", const("df"), sym("feature_id"))
            val = tm.evaluate(tm.subst(flt, {colterm: const(a_)}), {"v": b_, "__salt__": 0.1})
            if bool(val) != (a_ != b_):
                ok = False
    if not ok:
        ctx.finding(q2, "row selection", "removal must keep exactly the rows whose feature differs from the value (exact !=, the "
                    "complement of the subset selection)", fn2, m2, filters=[tm.show(x)[:140] for x in df.filters])
    q3 = M + "split_by_feature"
    m3, fn3 = ctx.prog.func(q3)
    it = Interp(ctx.prog, assume=assume_map(A))
    me = motl_obj(ctx.prog)
    r = it.run(q3, [P("feature_id")], {}, self_obj=me)
    ctx.count(1)
    parts = r.ret.items if isinstance(r.ret, Seq) else []
    if len(parts) != 1 or not isinstance(parts[0], Obj):
        raise Unsupported("split_by_feature result not recognised", fn3)
    pf = parts[0].attrs["df"]
    check_schema(ctx, q3, pf, m3, fn3, "split_by_feature")
    uq = call("each", call("unique", call("col", const("df"), sym("feature_id"))))
    colf = call("col", const("df"), sym("feature_id"))
    f0 = pf.filters[0] if len(pf.filters) == 1 else None
    if f0 is not None and f0.op == "eq" and f0.args[0] == colf and f0.args[1].op == "call" and f0.args[1].args[0] == "each":
        # feature == v for every v of an enumeration: the enumeration must hold every value of the field (decided on sample columns;
        # leaving out NaN is immaterial, NaN equals nothing)
        enum = f0.args[1].args[1]
        for samp in ([0.0, 1.0, 1.0, 2.0], [3.0, 0.0, 0.0, -1.0, 5.0], [float("nan"), 1.0, 0.0, 1.0], [7.0]):
            got = _enum_values(enum, colf, np.array(samp), fn3)
            want = {x for x in samp if x == x}
            ctx.count(1)
            if {float(x) for x in np.ravel(got) if x == x} != want:
                ctx.finding(q3, "partition", f"splitting must enumerate every value of the field: for a field holding {samp} the parts are made for "
                            f"{sorted(float(x) for x in np.ravel(got) if x == x)} (particles with another value are in no part)", fn3, m3,
                            filters=[tm.show(x)[:120] for x in pf.filters])
                break
    else:
        plain_selection(pf.filters, fn3)
        ctx.finding(q3, "partition", "splitting must enumerate the unique values of the field and select feature == value for each "
                    "(a partition of the list)", fn3, m3, filters=[tm.show(x)[:120] for x in pf.filters])
    # intersection: semi-join
    q4 = M + "get_motl_intersection"
    m4, fn4 = ctx.prog.func(q4)
    ctx.touched(q4)
    it = Interp(ctx.prog, assume=assume_map(A))
    m1, m2_ = motl_obj(ctx.prog, prefix="a:", name="df1"), motl_obj(ctx.prog, prefix="b:", name="df2")
    r = it.run(q4, [m1, m2_], {"feature_id": P("feature_id")}, self_obj=ClassRef("cryomotl.Motl"))
    res = r.ret.attrs["df"] if isinstance(r.ret, Obj) else None
    check_schema(ctx, q4, res, m4, fn4, "get_motl_intersection")
    ctx.count(1, {"intersection": {"filters": [tm.show(x)[:100] for x in res.filters], "history": [str(n)[:40] for n in res.notes]}})
    merged = [n for n in res.notes if n[0] == "merge"]
    want_isin = call("isin", call("col", const("df1"), sym("feature_id")), call("col", const("df2"), sym("feature_id")))
    if merged:
        ctx.finding(q4, "row selection", "the intersection is computed with an inner merge: every row of the first list is repeated "
                    "once per occurrence of its id in the second list; it must be a semi-join (isin) keeping each row once", fn4, m4)
    elif any(tm.has_call(f_, "isin_assume_unique") for f_ in res.filters):
        ctx.finding(q4, "row selection", "the membership test assumes that no id occurs twice in either list (assume_unique=True): numpy then "
                    "reports an id of the first list as found when it merely occurs twice there; identifiers of a particle list repeat "
                    "(several particles per tomogram, object, class)", fn4, m4, filters=[tm.show(x)[:120] for x in res.filters])
    elif plain_selection(res.filters, fn4) or len(res.filters) != 1 or res.filters[0] != want_isin:
        ctx.finding(q4, "row selection", "the intersection must keep exactly the first list's rows whose id occurs in the second list",
                    fn4, m4, filters=[tm.show(x)[:120] for x in res.filters])
    for c in cols20(ctx.prog):
        if res.cols.get(c) != sym("a:" + c):
            ctx.finding(q4, f"column {c}", "all fields of the intersection must come from the first list", fn4, m4)
            break
    ctx.count(1)
    if m1.attrs["df"].written or m2_.attrs["df"].written or m1.attrs["df"].filters:
        ctx.finding(q4, "inputs", "the input lists must not be modified", fn4, m4)


def dedup_semantics(df):
    """-> (effective lexicographic sort keys [(column term, ascending)], de-duplications [(subset term, keep)]) of a table's history.
    A multi-key sort is stable; a later stable sort refines on top of the order it finds, a later unstable one forgets it.  The first row per
    id is drop_duplicates(subset=id) or the complement of duplicated(subset=id, keep='first') taken on the sorted rows."""
    notes = [n for n in df.notes if n[0] in ("sort_values", "drop_duplicates")]
    keys = []
    for n in (n for n in notes if n[0] == "sort_values"):
        by_ = list(n[1].args) if n[1].op == "vec" else [n[1]]
        asc_ = list(n[2].args) if n[2].op == "vec" else [n[2]] * len(by_)
        stable = len(by_) > 1 or tm.cval(n[3]) in ("stable", "mergesort")
        keys = list(zip(by_, [tm.cval(a_) for a_ in asc_])) + (keys if stable else [])
    dd = [(n[1], tm.cval(n[2])) for n in notes if n[0] == "drop_duplicates"]
    for f_ in df.filters:
        if f_.op == "not" and f_.args[0].op == "call" and f_.args[0].args[0] == "duplicated" and len(f_.args[0].args) == 4:
            dd.append((f_.args[0].args[2], tm.cval(f_.args[0].args[3])))
        else:
            dd.append((None, None))
    # a de-duplication recorded before the last sort acted on another order
    last_sort = max([i_ for i_, n in enumerate(notes) if n[0] == "sort_values"], default=-1)
    early = [n for n in notes[:last_sort] if n[0] == "drop_duplicates"]
    return keys, dd, early


def o84(ctx):
    """renumbering and merging"""
    q = M + "renumber_particles"
    m, fn = ctx.prog.func(q)
    ctx.touched(q, M + "merge_and_renumber", M + "merge_and_drop_duplicates", M + "renumber_objects_sequentially", M + "drop_duplicates")
    it = Interp(ctx.prog)
    me = motl_obj(ctx.prog)
    it.run(q, [], {}, self_obj=me)
    df = me.attrs["df"]
    t = df.cols["subtomo_id"]
    ctx.count(1, {"renumber_particles": tm.show(t)})
    ok = t.op == "call" and t.args[0] == "range" and tm.cval(t.args[1]) == 1 and len(t.args) == 3
    if ok:
        # the stop of the range is N + 1 (however it is spelled: N + 1, 1 + N, start + N with start = 1)
        sizes = [n for n in tm.walk(t.args[2]) if n.op == "call" and n.args[0] in ("nrows", "len")]
        ok = len(sizes) == 1 and bool(tm.equivalent(tm.subst(t.args[2], {sizes[0]: sym("N")}), mk("add", sym("N"), const(1)),
                                                     samplers={"N": int_sampler(0, 200)}, seed_tag="renumN"))
    if not ok or df.written != {"subtomo_id"}:
        ctx.finding(q, last_store(it, df, "subtomo_id") or fn, "renumber_particles must write subtomogram numbers 1..N and nothing else",
                    last_store(it, df, "subtomo_id") or fn, m, extracted=tm.show(t)[:100], written=sorted(df.written))
    # drop_duplicates
    qd = M + "drop_duplicates"
    md, fd = ctx.prog.func(qd)
    for asc in (False, True):
        it = Interp(ctx.prog)
        me = motl_obj(ctx.prog)
        it.run(qd, [], {"duplicates_column": P("dup"), "decision_column": P("dec"), "decision_sort_ascending": K(asc)}, self_obj=me)
        df = me.attrs["df"]
        check_schema(ctx, qd, df, md, fd, "drop_duplicates")
        notes = [n for n in df.notes if n[0] in ("sort_values", "drop_duplicates")]
        ctx.count(1, {"drop_duplicates history": [str(n)[:80] for n in notes], "row filters": [tm.show(x)[:80] for x in df.filters]})
        # effective lexicographic order of the rows: a multi-key sort is stable; a later stable sort refines on top of the order it
        # finds, a later unstable one forgets it.  (one two-key sort == decision sort followed by a stable id sort)
        keys = []
        for n in (n for n in notes if n[0] == "sort_values"):
            by_ = list(n[1].args) if n[1].op == "vec" else [n[1]]
            asc_ = list(n[2].args) if n[2].op == "vec" else [n[2]] * len(by_)
            stable = len(by_) > 1 or tm.cval(n[3]) in ("stable", "mergesort")
            keys = list(zip(by_, [tm.cval(a_) for a_ in asc_])) + (keys if stable else [])
        # the first row per id: drop_duplicates(subset=id) or the complement of duplicated(subset=id, keep='first') taken on the sorted rows
        dd = [(n[1], tm.cval(n[2])) for n in notes if n[0] == "drop_duplicates"]
        for f_ in df.filters:
            if f_.op == "not" and f_.args[0].op == "call" and f_.args[0].args[0] == "duplicated" and len(f_.args[0].args) == 4:
                dd.append((f_.args[0].args[2], tm.cval(f_.args[0].args[3])))
            else:
                dd.append((None, None))
        chain, s_ = [], df.space
        while s_ is not None:
            chain.append(s_.how)
            s_ = s_.parent
        sorted_then_filtered = len(chain) >= 3 and chain[0] == "filter" and chain[-1] == "root" and all(h_ == "sort" for h_ in chain[1:-1])
        ok = keys[:2] == [(sym("dup"), True), (sym("dec"), asc)] and dd == [(sym("dup"), "first")] and sorted_then_filtered
        if not ok or df.written:
            ctx.finding(qd, fd, f"de-duplication must sort by (id ascending, decision {'ascending' if asc else 'descending'}) and keep the "
                        "first row per id, changing no field", fd, md, history=[str(n)[:100] for n in notes])
    # merges: two concrete symbolic lists
    for q, extra_written in ((M + "merge_and_renumber", {"object_id", "subtomo_id"}), (M + "merge_and_drop_duplicates", {"object_id"})):
        m, fn = ctx.prog.func(q)
        it = Interp(ctx.prog, assume=assume_map(A))
        m1, m2_ = motl_obj(ctx.prog, prefix="a:", name="df1"), motl_obj(ctx.prog, prefix="b:", name="df2")
        r = it.run(q, [Seq([m1, m2_], "list")], {}, self_obj=ClassRef("cryomotl.Motl"))
        res = r.ret.attrs["df"] if isinstance(r.ret, Obj) else None
        check_schema(ctx, q, res, m, fn, q.split(".")[-1])
        ctx.count(1, {"written": sorted(res.written)})
        if not res.written <= extra_written:
            ctx.finding(q, "write-set", f"{q.split('.')[-1]} may only renumber {sorted(extra_written)}; it writes {sorted(res.written)}", fn, m)
        if m1.attrs["df"].written or m2_.attrs["df"].written:
            ctx.finding(q, "inputs", "the input lists must not be modified (work on copies)", fn, m)
        # every other field of a merged row is the field of the input row it came from, value for value
        for c_ in sorted(cols20(ctx.prog) - extra_written):
            t_ = res.cols.get(c_)
            ctx.count(1)
            if t_ is None:
                continue
            casts = [n for n in tm.walk(t_) if (n.op == "call" and n.args[0] in ("cast", ".astype")) or n.op in ("narrow", "int", "round")]
            casts += [const(str(n_[1])) for n_ in res.notes if n_[0] == "astype" and str(n_[1]).strip("'").split(".")[-1] not in ("float", "float64", "double", "longdouble")]
            if casts:
                ctx.finding(q, f"field {c_} of the merged table", f"{q.split('.')[-1]}: the merged table passes through a type conversion "
                            f"({tm.show(casts[0])[:80]}): single precision keeps 24 bits, so positions, angles and scores change in their last "
                            "digits and identifiers above 2**24 collapse onto each other", fn, m)
                break
        oid = res.cols["object_id"]
        if oid.op != "concat":
            raise Unsupported("merged object_id is not the concatenation of the two inputs", fn)
        A_, B_ = oid.args
        bad = None
        cases = [([1, 2, 3], [3, 4]), ([3, 3, 5, 7], [1, 2, 2, 7]), ([2, 4], [5, 9]), ([1, 1], [1, 1]), ([5, 6], [1]), ([0, 1], [0, 2]), ([4, 9, 9], [9, 12])]
        for a_ids, b_ids in cases:
            env = {"a:object_id": np.array(a_ids, float), "b:object_id": np.array(b_ids, float), "__salt__": 0.2}
            try:
                ra = np.atleast_1d(np.asarray(tm.evaluate(A_, dict(env)), float))
                rb = np.atleast_1d(np.asarray(tm.evaluate(B_, dict(env)), float))
            except tm.EvalError as e:
                raise Unsupported(f"merged object ids not evaluable: {e}", fn)
            ctx.count(1, {"inputs": (a_ids, b_ids), "merged": (ra.tolist(), rb.tolist())} if (a_ids, b_ids) == cases[0] else None)
            da, db = ra - np.array(a_ids, float), rb - np.array(b_ids, float)
            if set(ra.tolist()) & set(rb.tolist()):
                bad = bad or ("object numbers collide across inputs", a_ids, b_ids, ra.tolist(), rb.tolist())
            if len(set(da.tolist())) != 1 or len(set(db.tolist())) != 1:
                bad = bad or ("an input's grouping is not preserved (ids are not shifted uniformly)", a_ids, b_ids, ra.tolist(), rb.tolist())
        if bad:
            ctx.finding(q, last_store(it, res, "object_id") or fn, f"{bad[0]}: inputs with object ids {bad[1]} and {bad[2]} are merged into "
                        f"{bad[3]} and {bad[4]}", last_store(it, res, "object_id") or fn, m)
        # lists without particles are part of the quantifier: the smallest / largest object number of an input only exists when the
        # input has rows (min/max of nothing is an error or NaN, and a NaN running maximum makes every later comparison False, so
        # the inputs after an empty one are no longer shifted).  Every such reduction must sit behind an emptiness test of that input
        A2 = {k: v for k, v in A.items() if "empty" not in k}
        it2 = Interp(ctx.prog, assume=assume_map(A2))
        e1, e2 = motl_obj(ctx.prog, prefix="a:", name="df1"), motl_obj(ctx.prog, prefix="b:", name="df2")
        it2.run(q, [Seq([e1, e2], "list")], {}, self_obj=ClassRef("cryomotl.Motl"))
        spaces = {"a:": e1.attrs["df"].space.id, "b:": e2.attrs["df"].space.id}
        reds = [e for e in it2.events if e.kind == "call" and e.name.split(".")[-1] in ("min", "max", "amin", "amax", "nanmin", "nanmax") and e.args]
        n_red = 0
        for e in reds:
            t_ = to_term(e.args[0])
            owners = {p_ for p_ in spaces for s_ in tm.symbols(t_) if s_.startswith(p_)}
            if len(owners) != 1:
                continue
            n_red += 1
            sid = spaces[next(iter(owners))]
            guarded = any(n.op == "call" and n.args[0] == "nrows" and tm.cval(n.args[1]) == sid for g in e.guards for n in tm.walk(g))
            if not guarded:
                ctx.finding(q, e.node, "the smallest / largest object number of an input list is taken without testing that the list has "
                            "particles: for an empty input it does not exist (NaN or an error), and a NaN running maximum leaves every "
                            "later input unshifted, so object numbers collide", e.node, m)
        ctx.count(n_red, {"min/max of an input's object numbers behind an emptiness test": n_red})
        if n_red < 2:
            raise Unsupported("object-number range of the inputs (min / max of object_id) not found in the merge", fn)
        if q.endswith("merge_and_drop_duplicates"):
            # one row per subtomogram number, the best-scoring one over *all* inputs: the only de-duplication is the final one, taken on the
            # whole merged table sorted by (number ascending, score descending) -- dropping rows while the inputs are still being collected
            # keeps whichever copy came first
            keys, dd, early = dedup_semantics(res)
            ctx.count(1, {"merge_and_drop_duplicates": {"effective sort keys": [(tm.show(k_), a_) for k_, a_ in keys], "de-duplications": len(dd)}})
            okd = keys[:2] == [(const("subtomo_id"), True), (const("score"), False)] and dd == [(const("subtomo_id"), "first")] and not early
            if not okd:
                ctx.finding(q, fn, "duplicates must be dropped once, on the whole merged table sorted by (subtomo_id ascending, score descending), keeping "
                            "the first row per number: the best-scoring copy over all inputs", fn, m,
                            history=[str(n)[:80] for n in res.notes if n[0] in ("sort_values", "drop_duplicates")])
        if q.endswith("merge_and_renumber"):
            t = res.cols["subtomo_id"]
            ctx.count(1)
            if not (t.op == "call" and t.args[0] == "range" and tm.cval(t.args[1]) == 1):
                ctx.finding(q, "subtomogram numbers", "the merged list must get subtomogram numbers 1..N", fn, m, extracted=tm.show(t)[:80])
        ctx.count(1)
        if not any(n[0] == "reset_index" and n[1] is True for n in res.notes):
            ctx.finding(q, "index", "the merged table must be re-indexed with drop=True", fn, m)


def _groups_back_in_table_order(ctx):
    """pieces of a table produced group by group (`for _, g in df.groupby(key)`) come in the order of the group KEYS; concatenated they are in table order
    only after `.sort_index()` (the pieces keep their row labels) or when they are put back by label -- stored by position (`.values`, `.to_numpy()`) they land
    on the wrong rows whenever the groups are not stored in ascending blocks"""
    q = M + "renumber_objects_sequentially"
    m, fn = ctx.prog.func(q)
    grouped = set()
    for a in ast.walk(fn):
        if isinstance(a, ast.Assign) and len(a.targets) == 1 and isinstance(a.targets[0], ast.Name) and isinstance(a.value, (ast.ListComp, ast.GeneratorExp)) \
                and any(isinstance(g.iter, ast.Call) and isinstance(g.iter.func, ast.Attribute) and g.iter.func.attr == "groupby" for g in a.value.generators):
            grouped.add(a.targets[0].id)
    for st in [n for n in ast.walk(fn) if isinstance(n, ast.Assign)]:
        for c in ast.walk(st.value):
            if isinstance(c, ast.Call) and (ctx.prog.resolve(m, c.func) or "") == "pandas.concat" and c.args and isinstance(c.args[0], ast.Name) and c.args[0].id in grouped:
                ctx.count(1)
                txt = " ".join(ast.unparse(st.value).split())
                after = txt[txt.index("concat("):]
                if ".sort_index()" in after:
                    continue
                if ".values" in after or ".to_numpy(" in after or "asarray(" in txt or "np.array(" in txt:
                    ctx.finding(q, "per-tomogram pieces put back", f"`{norm_text(st)[:90]}`: the pieces come in the order of the tomogram numbers, the table in its own row order; "
                                "stored by position the new numbers land on other rows whenever the tomograms are not stored in ascending blocks (tomo_id 2,1,2,1: objects "
                                "are torn apart and different objects share a number) -- sort_index() or an assignment by label puts them back", st, m)
                elif isinstance(st.targets[0], ast.Subscript):
                    continue  # assigned with its labels: pandas aligns the rows
                else:
                    raise Unsupported("renumber_objects_sequentially: how the per-tomogram pieces are brought back into table order is not recognised", st)


def o82(ctx):
    """reset_index always drops the old index on particle tables; renumber_objects keeps the schema under the installed pandas"""
    _groups_back_in_table_order(ctx)
    n_calls = 0
    for q, m, fn in ctx.prog.functions():
        if not q.startswith("cryomotl.Motl."):
            continue
        for c in ast.walk(fn):
            if isinstance(c, ast.Call) and isinstance(c.func, ast.Attribute) and c.func.attr == "reset_index":
                recv = ast.unparse(c.func.value)
                if not (recv.endswith(".df") or recv.endswith("_df") or recv in ("df", "new_df", "s1", "df_reset") or "self.df" in recv):
                    continue
                n_calls += 1
                d = kwarg(c, "drop")
                if not (isinstance(d, ast.Constant) and d.value is True):
                    ctx.finding(q, c, "reset_index on a particle table must pass drop=True: otherwise the old index becomes a 21st column",
                                c, m)
    ctx.count(n_calls, {"reset_index calls on particle tables": n_calls})
    q = M + "renumber_objects_sequentially"
    m, fn = ctx.prog.func(q)
    # interpreted on a list whose row labels are not known to be 0..n-1 (a selection, a part of a split): what it assigns into the table
    # is typed by the row-label rules (OX.L reads the events of this run)
    it_ = Interp(ctx.prog)
    it_.run(q, [P("starting_number")], {}, self_obj=motl_obj(ctx.prog))
    ctx.count(1, {"interpreted for the row-label rules": q})
    issues, n = apicompat.check_function(ctx.prog, q)
    ctx.count(max(n, 1))
    for i in issues:
        ctx.finding(q, i.node, f"[{i.rule}] {i.message}", i.node, m)
    # the per-group function may only renumber object_id
    inner = [x for x in ast.walk(fn) if isinstance(x, ast.FunctionDef) and x is not fn]
    for f_ in inner:
        writes = {t.slice.value for x in ast.walk(f_) if isinstance(x, ast.Assign) for t in x.targets
                  if isinstance(t, ast.Subscript) and isinstance(t.slice, ast.Constant)}
        ctx.count(1, {"per-group function writes": sorted(writes)})
        if writes - {"object_id"}:
            ctx.finding(q, f_, f"sequential object renumbering may only write object_id (writes {sorted(writes)})", f_, m)
    grp = [x for x in ast.walk(fn) if isinstance(x, ast.Call) and isinstance(x.func, ast.Attribute) and x.func.attr == "groupby"]
    ctx.count(1)
    if len(grp) != 1 or not (grp[0].args and isinstance(grp[0].args[0], ast.Constant) and grp[0].args[0].value == "tomo_id"):
        ctx.finding(q, grp[0] if grp else fn, "objects must be renumbered per tomogram (groupby('tomo_id'))", grp[0] if grp else fn, m)
    elif grp:
        # the per-tomogram numbering is the only way out: a shortcut taken before it (early return under a data test) keeps the old
        # numbers, which is right only if the test itself establishes consecutive numbers per (tomogram, object) -- a test that never
        # looks at the tomograms cannot
        def derived_text(name, depth=0):
            out = [name]
            if depth < 3:
                for a_ in ast.walk(fn):
                    if isinstance(a_, ast.Assign) and any(isinstance(t_, ast.Name) and t_.id == name for t_ in a_.targets):
                        out.append(ast.unparse(a_.value))
                        for n_ in ast.walk(a_.value):
                            if isinstance(n_, ast.Name) and n_.id != name:
                                out.extend(derived_text(n_.id, depth + 1))
            return out

        for r_ in [x for x in ast.walk(fn) if isinstance(x, ast.Return) and x.lineno < grp[0].lineno]:
            p_ = m.parents.get(r_)
            while p_ is not None and not isinstance(p_, (ast.If, ast.FunctionDef)):
                p_ = m.parents.get(p_)
            ctx.count(1)
            if isinstance(p_, ast.If):
                texts = [ast.unparse(p_.test)] + [t_ for n_ in ast.walk(p_.test) if isinstance(n_, ast.Name) for t_ in derived_text(n_.id)]
                if not any("tomo_id" in t_ for t_ in texts):
                    ctx.finding(q, p_, "a shortcut returns before the per-tomogram renumbering on a test that never looks at the tomograms: "
                                "objects with the same number in different tomograms stay fused (the (tomogram, object) groups do not get "
                                "consecutive numbers of their own)", p_, m)
                else:
                    raise Unsupported("renumber_objects_sequentially: data-dependent shortcut before the per-tomogram renumbering", p_)


def o86(ctx):
    """selection and removal are complementary for every form of `feature_values`: the two siblings must agree on what they take for a LIST of
    values (iterate it) and what for ONE value (wrap it).  Cross-check of the two type tests, resolved through the module's imports"""
    def seq_types(q, pname="feature_values"):
        m, fn = ctx.prog.func(q)
        params = [a.arg for a in fn.args.posonlyargs + fn.args.args + fn.args.kwonlyargs]
        if pname not in params:
            raise Unsupported(f"{q}: no parameter {pname}", fn)
        # a normalisation that accepts every array-like: np.atleast_1d(p) / np.asarray(p).ravel() / np.ravel(p)
        for c in ast.walk(fn):
            if isinstance(c, ast.Call) and any(isinstance(a, ast.Name) and a.id == pname for a in c.args[:1]):
                d = ctx.prog.resolve(m, c.func) or ""
                if d in ("numpy.atleast_1d", "numpy.ravel"):
                    return None, fn, m
        found = []
        for c in ast.walk(fn):
            if isinstance(c, ast.Call) and isinstance(c.func, ast.Name) and c.func.id == "isinstance" and len(c.args) == 2 \
                    and isinstance(c.args[0], ast.Name) and c.args[0].id == pname:
                ts = c.args[1].elts if isinstance(c.args[1], ast.Tuple) else [c.args[1]]
                names = set()
                for t in ts:
                    d = ctx.prog.resolve(m, t)
                    names.add(d if d else " ".join(ast.unparse(t).split()))
                found.append((c, frozenset(names)))
        if len(found) != 1:
            raise Unsupported(f"{q}: the test that tells one value from a list of values is not recognised ({len(found)} isinstance tests on {pname})", fn)
        return found[0][1], found[0][0], m
    qa, qb = M + "get_motl_subset", M + "remove_feature"
    ctx.touched(qa, qb)
    ta, na, ma = seq_types(qa)
    tb, nb, mb = seq_types(qb)
    ctx.count(2, {"get_motl_subset iterates": sorted(ta) if ta is not None else "every array-like", "remove_feature iterates": sorted(tb) if tb is not None else "every array-like"})
    if ta == tb:
        return
    more, less, node, mod, qq = (tb, ta, na, ma, qa) if (ta is not None and (tb is None or len(tb - ta) >= len(ta - tb))) else (ta, tb, nb, mb, qb)
    missing = sorted((more or {"every array-like"}) - (less or set()))
    ctx.finding(qq, "what counts as a list of values", f"selection and removal must be complementary for every form of feature_values: {qq.split('.')[-1]} takes "
                f"{', '.join(missing)} for ONE value (compares the column with the whole container, element by element) while its sibling iterates it -- "
                "`get_motl_subset(np.array([3, 2, 1]))` on a three-row list returns the rows where row k equals value k", node, mod)


def _obligations():
    return [
        Obligation("O8.1", "subset ==, removal != (exact complement), split partition, intersection semi-join; schema and inputs untouched", o81, floor=10),
        Obligation("O8.2", "reset_index(drop=True) on every particle table; object renumbering keeps the 20 fields under the installed pandas", o82, floor=15),
        Obligation("O8.6", "selection and removal agree on what is ONE value and what a LIST of values (sibling cross-check)", o86, floor=2),
        Obligation("O8.4", "renumber 1..N; de-duplication order; merges: disjoint object ranges incl. the tie, grouping kept, write-sets", o84, floor=25),
    ]


def obligations():
    return _obligations() + [constructors_obligation(['cryomotl.Motl', 'cryomotl.EmMotl']), labels_obligation("C08"), selectors_obligation("C08"), mutations_obligation("C08"), loopstate_obligation("C08"), effects_obligation("C08"), plumbing_obligation("C08"), overrides_obligation("C08"), options_obligation("C08"), handlers_obligation("C08")]
