"""C07 -- score-ranked distance suppression keeps a separated, dominating set"""
from .common import *
from . import C05 as _c05
from . import C11 as _c11

TITLE = "Score-ranked distance suppression keeps a separated, dominating set"
EXPLANATION = (
    "Motl.clean_by_distance and tmana.scores_extract_particles are interpreted abstractly (loops once for a generic "
    "iteration, events and guards recorded). Decided for clean_by_distance: everything that feeds the keep/remove decision "
    "derives from the subset selected by feature == f for the group being processed (group isolation); particles are "
    "visited in descending metric order iff keep_greater; the removal mask is distance(complete position of the current "
    "particle, complete positions) < d with d the caller's distance (coefficient 1), the current particle excluded, and "
    "applied only while the current particle is still kept; the result is the concatenation of the kept rows of each group. "
    "For scores_extract_particles: candidates are the voxels with score > threshold, processed in descending score; the "
    "KD-tree is built on the list its result indices are used with; the ball radius is the particle diameter itself; a "
    "neighbour is removed only if its score <= the peak's; positions and scores are filtered by the same hit mask; x,y,z = "
    "voxel index + 1 on axes 0,1,2; the angle index is the angle map at the same voxel minus angles_numbering; "
    "phi/theta/psi are columns 0/1/2 of the loaded angle list, and rot_angles_load relabels a zzx file (phi,psi,theta) to "
    "that order.")
ASSUMPTIONS = TRUSTED + ["optimality of the greedy result (separated + dominating) follows from these conditions for a correct "
                         "distance; cluster_size / n_particles options are outside the statement"]

Q1 = "cryomotl.Motl.clean_by_distance"
Q2 = "tmana.scores_extract_particles"


def run_cbd(ctx, keep_greater):
    it = Interp(ctx.prog, summaries={"cryocat.cryomotl.Motl.get_feature": lambda it_, a, k, n, f: Unk(call("col_values", to_term(a[0])))},
                assume=assume_map({"dist_mask is not None": False, "dist_mask is None": True, "keep_greater": keep_greater,
                                   "isinstance(feature_values, list)": False, "isinstance(feature_values, (list, np.ndarray))": False, "reset_index": True, "return_df": False}))
    me = motl_obj(ctx.prog)
    it.run(Q1, [P("distance_in_voxels"), P("feature_id")], {"metric_id": P("metric_id"), "keep_greater": K(keep_greater)}, self_obj=me)
    return it, me


def o71(ctx):
    m, fn = ctx.prog.func(Q1)
    ctx.touched(Q1, "cryomotl.Motl.get_motl_subset", "cryomotl.Motl.get_coordinates", "geom.point_pairwise_dist")
    for kg in (True, False):
        it, me = run_cbd(ctx, kg)
        loops = [e for e in it.events if e.kind == "loop" and e.fn == Q1]
        if len(loops) != 2:
            raise Unsupported("group loop / score-ordered loop not recognised", fn)
        grp, inner = loops
        # the sweep visits every ranked particle of the group: a `break` (or a return) inside it ends the sweep under a condition -- that "everything that
        # is left has been removed already" is a quantitative argument about the loop's progress this rule does not make
        cut = [x_ for x_ in ast.walk(inner.node) if isinstance(x_, (ast.Break, ast.Return))] if isinstance(getattr(inner, "node", None), (ast.For, ast.While)) else []
        ctx.count(1, {"keep_greater": kg, "ways out of the sweep": len(cut)})
        if cut:
            raise Unsupported(f"clean_by_distance: the score-ordered sweep is left early (`{norm_text(cut[0])[:40]}`): whether every particle it skips has been removed is not decided", cut[0])
        f_el = to_term(grp.extra["elem"])
        gmask = mk("eq", call("col", const("df"), sym("feature_id")), f_el)
        # (a) order of visiting
        order = inner.args[0]
        ctx.count(1, {"keep_greater": kg, "visit order": tm.show(to_term(order))[:100], "descending": getattr(order, "descending", None)})
        sb = getattr(order, "sorted_by", None)
        if sb is None and getattr(order, "slice_of", None) is not None and getattr(order.slice_of[0], "sorted_by", None) is not None:
            # the ranking is cut before it is visited (`order[:-1]`, `order[1:]`): whether the particles left out could have removed anybody
            # depends on the removal relation (symmetry, ties), which this rule does not decide
            raise Unsupported("the ranking is cut before it is visited: part of the sorted order is not walked", inner.node)
        want_metric = T("sel", call("col", const("df"), sym("metric_id")), gmask)
        if sb is None or getattr(order, "descending", None) is not kg or not tm.equivalent(to_term(sb), want_metric, seed_tag="metric"):
            ctx.finding(Q1, inner.node, f"with keep_greater={kg} the particles of the group must be visited in "
                        f"{'descending' if kg else 'ascending'} order of the metric column of the group's own rows", inner.node, m,
                        extracted=tm.show(to_term(order))[:160])
        j = to_term(inner.extra["elem"])
        stores = [e for e in it.events if e.kind == "store" and e.fn == Q1 and e.name == "elementwise"]
        # role, not name: the keep-flag array is the loop-carried array the stores of one iteration act on; its value after the
        # iteration is evaluated element-wise for the current particle (index j) and for any other particle, over a truth table of
        # the old flag and of the mask predicate (so mask[j] = False before the store and keep[j] = True after it are the same)
        lvs = {n for e in stores for n in tm.walk(to_term(e.args[0])) if n.op == "call" and str(n.args[0]).startswith("loopvar:")}
        if len(lvs) != 1:
            raise Unsupported("removal store <keep flags>[<mask>] = False not recognised", fn)
        LV = next(iter(lvs))
        keep_stores = [e for e in stores if any(n == LV for n in tm.walk(to_term(e.args[0])))]
        removal = [e for e in keep_stores if to_term(e.args[1]) != j]
        if len(removal) != 1 or any(tm.cval(to_term(e.args[2])) not in (True, False) for e in keep_stores):
            raise Unsupported("removal store <keep flags>[<mask>] = False not recognised", fn)
        rem = removal[0]
        atoms = []

        def mask_at(mt, self_case, env):
            if mt.op == "call" and mt.args[0] == "setelem" and mt.args[2] == j and tm.cval(mt.args[3]) in (True, False):
                return tm.cval(mt.args[3]) if self_case else mask_at(mt.args[1], self_case, env)
            if mt.op == "not":
                return not mask_at(mt.args[0], self_case, env)
            if mt not in atoms:
                atoms.append(mt)
            return env[atoms.index(mt)]

        def after(self_case, k, env):
            st = k
            for e in keep_stores:
                ix, val = to_term(e.args[1]), tm.cval(to_term(e.args[2]))
                if ix == j:
                    st = val if self_case else st
                elif mask_at(ix, self_case, env):
                    st = val
            return st

        after(False, True, [False] * 8)  # collects the predicate atoms
        if len(atoms) != 1:
            raise Unsupported("removal mask is not a single predicate", fn)
        inner_mask = atoms[0]
        # (b) self exclusion: a kept current particle stays kept whatever the predicate says about itself
        ctx.count(2, {"stores on the keep flags in one iteration": len(keep_stores)})
        if not all(after(True, True, [b_]) is True for b_ in (True, False)):
            ctx.finding(Q1, rem.node, "the current particle must be excluded from its own removal set (mask[j] = False)", rem.node, m,
                        mask=tm.show(to_term(rem.args[1]))[:160])
        if not all(after(False, k_, [b_]) is (k_ and not b_) for k_ in (True, False) for b_ in (True, False)):
            ctx.finding(Q1, rem.node, "any other particle must be removed iff the predicate holds for it and must keep its flag otherwise "
                        "(removed particles never come back)", rem.node, m)
        # (c) predicate: distance of complete positions < d
        cmp_ = inner_mask
        ctx.count(1, {"removal predicate": tm.show(no_sel(cmp_))[:200]})
        if cmp_.op not in ("lt", "le") or cmp_.args[1] != sym("distance_in_voxels"):  # (a > b is stored as b < a)
            ctx.finding(Q1, rem.node, "particles must be removed iff their distance is below the caller's distance threshold "
                        "(distance < d, d unscaled)", rem.node, m, predicate=tm.show(cmp_)[:200])
        else:
            dist = cmp_.args[0]
            P_ = [mk("add", sym(c), sym("shift_" + c)) for c in "xyz"]
            want = None
            for p_ in P_:
                dlt = mk("sub", call("at", p_, no_sel(j)), p_)
                want = mk("mul", dlt, dlt) if want is None else mk("add", want, mk("mul", dlt, dlt))
            want = T("sqrt", want)
            v = tm.equivalent(no_sel(dist), want, seed_tag="dist" + str(kg))
            ctx.count(1, {"distance": "sqrt(sum((P_j - P)^2)), P = x + shift", "equal": bool(v)})
            if not v:
                ctx.finding(Q1, rem.node, "the distance must be the Euclidean distance between the *complete* positions (x+shift) of the "
                            "current particle and of all particles of the group", rem.node, m, witness=v.witness,
                            extracted=tm.show(no_sel(dist))[:300])
            # (d) group isolation: every table column in the decision is restricted to feature == f of this iteration
            sels = tm.find(dist, lambda n: n.op == "sel")
            raw = [n for n in tm.walk(dist) if n.op == "sym" and n.args[0] in ("x", "y", "z", "shift_x", "shift_y", "shift_z")]
            covered = all(len(s_.args) == 2 and s_.args[1] == gmask for s_ in sels)
            n_raw_in_sel = sum(1 for s_ in sels for _ in [0])
            ctx.count(1, {"restricted columns": len(sels), "group mask": tm.show(gmask)})
            unrestricted = _has_unselected(dist)
            if not sels or not covered or unrestricted:
                ctx.finding(Q1, rem.node, "positions used for the decision must come from the subset of the group being processed "
                            "(feature == f): particles of different groups must never affect each other", rem.node, m)
        # (e) only kept particles suppress
        ctx.count(1)
        keep_guard = [g for g in rem.guards if g.op == "call" and g.args[0] == "getitem" and g.args[1] == to_term(rem.args[0])
                      and g.args[2] == j]
        if not keep_guard:
            ctx.finding(Q1, rem.node, "a particle may suppress others only while it is itself still kept (if temp_keep[j])", rem.node, m,
                        guards=[tm.show(g)[:60] for g in rem.guards])
        # (f) result: concatenation of the kept rows of each group
        df = me.attrs["df"]
        ctx.count(1, {"result history": [str(n) for n in df.notes][-4:]})
        if not isinstance(df, Frame) or not any(n[0] == "concat" for n in df.notes):
            ctx.finding(Q1, fn, "the cleaned list must be the concatenation of the kept rows of every group", fn, m)
        if isinstance(df, Frame) and df.written:
            ctx.finding(Q1, fn, f"surviving particles must not be altered (columns written: {sorted(df.written)})", fn, m)


def _has_unselected(t, inside=False):
    """is there a table column symbol that is not under a sel(...) marker?"""
    if not isinstance(t, T):
        return False
    if t.op == "sel":
        return False
    if t.op == "sym" and t.args[0] in ("x", "y", "z", "shift_x", "shift_y", "shift_z", "score"):
        return True
    return any(_has_unselected(a) for a in t.args)


def run_sep(ctx, order=None):
    def rd(it_, a, k, n, f):
        u = Unk(call("map", to_term(a[0])))
        u.rank = 3
        return u

    it = Interp(ctx.prog, summaries={"cryocat.cryomap.read": rd,
                                     "cryocat.ioutils.rot_angles_load": lambda it_, a, k, n, f: Unk(call("anglist", *[to_term(x) for x in a]))},
                no_inline=("cryomotl.Motl.write_out", "tmana.compute_scores_map_threshold_triangle"),
                assume=assume_map({"scores_threshold is not None": True, "tomo_mask is not None": False, "object_id is None": False, "k == 0": False,
                                   "cluster_size is not None": False, "n_particles is not None": False, "symmetry > 1": False,
                                   "output_path is not None": False, "symmetry.lower().startswith('c')": True}))
    r = it.run(Q2, [Unk(sym("scores")), Unk(sym("angles")), Unk(sym("anglist_in")), P("tomo_id"), P("particle_diameter")],
               {"scores_threshold": P("thr"), "angles_numbering": P("numbering"), "angles_order": P("angles_order") if order is None else K(order), "symmetry": K("c1"),
                "object_id": P("object_id")})
    return it, r


def o75(ctx):
    m, fn = ctx.prog.func(Q2)
    ctx.touched(Q2, "ioutils.rot_angles_load", "cryomotl.Motl.fill")
    it, r = run_sep(ctx)
    env = r.env
    SC = call("map", sym("scores"))
    # threshold
    wh = [e for e in it.events if e.kind == "call" and e.name == "numpy.where" and e.fn == Q2 and len(e.args) == 1]
    ctx.count(1)
    if not wh:
        raise Unsupported("candidate selection np.where(scores > threshold) not found", fn)
    c = to_term(wh[0].args[0])
    if c.op != "lt" or c.args[1] != SC or c.args[0] != sym("thr"):  # strictly above: a voxel equal to the threshold is not a candidate
        ctx.finding(Q2, wh[0].node, "candidates must be the voxels whose score exceeds the threshold (score > threshold)", wh[0].node, m,
                    predicate=tm.show(c)[:120])
    # every candidate enters the list: a slice taken from the ordering of the candidates (argsort / argpartition of their scores) keeps all of them
    cuts = {}
    for e in it.events:
        if e.fn != Q2:
            continue
        for a_ in list(e.args) + list(e.kwargs.values()):
            try:
                t_ = to_term(a_)
            except Exception:  # noqa
                continue
            for n in tm.walk(t_):
                if n.op == "call" and n.args[0] == "getitem" and len(n.args) == 3 and hasattr(n.args[2], "op") and n.args[2].op == "call" \
                        and n.args[2].args[0] == "slice" and (tm.has_call(n.args[1], "numpy.argsort") or tm.has_call(n.args[1], "argsort")
                                                               or tm.has_call(n.args[1], "numpy.argpartition")) \
                        and tm.contains(n.args[1], lambda x: x == c):
                    cuts.setdefault(n.key(), (n, e))
    for e in it.events:
        if e.fn == Q2 and e.kind == "index" and e.name == "slice":
            b_ = to_term(e.args[0])
            if (tm.has_call(b_, "numpy.argsort") or tm.has_call(b_, "argsort") or tm.has_call(b_, "numpy.argpartition")) and tm.contains(b_, lambda x: x == c):
                n_ = call("getitem", b_, to_term(e.args[1]))
                cuts.setdefault(n_.key(), (n_, e))
    for n, e in cuts.values():
        lo, hi, step = n.args[2].args[1:4]
        ctx.count(1, {"slice of the ordered candidates": tm.show(n.args[2])[:120]})
        if tm.cval(lo) not in (None, 0) or tm.cval(step) not in (None, 1):
            ctx.finding(Q2, e.node, "the ordered candidate positions are cut at the front / thinned out: every voxel above the threshold must enter "
                        "the candidate list", e.node, m, cut=tm.show(n.args[2])[:120])
            continue
        if tm.cval(hi) is None and hi.op == "const":
            continue
        counts = [x for x in tm.walk(hi) if x.op == "call" and x.args[0] == "nrows"]
        if not counts:
            raise Unsupported("the ordered candidates are cut at a bound that is not derived from their number", e.node)
        if not any(tm.equivalent(hi, x, seed_tag="cut") for x in counts):
            ctx.finding(Q2, e.node, f"the ordered candidate positions are cut at {tm.show(hi)[:80]}, which is not the number of candidates: the "
                        "lowest-scoring voxels above the threshold never enter the candidate list, so an isolated one of them is missing among the peaks",
                        e.node, m)
    # descending processing order
    srt = [e for e in it.events if e.kind == "call" and e.name == "builtins.sorted" and e.fn == Q2]
    ctx.count(1)
    if len(srt) != 1:
        raise Unsupported("sorting of the candidates not found", fn)
    rev = srt[0].kwargs.get("reverse")
    key = srt[0].kwargs.get("key")
    key_ok = isinstance(key, Func) and isinstance(key.node.body[0].value, ast.Subscript) and isinstance(key.node.body[0].value.slice, ast.Constant) \
        and key.node.body[0].value.slice.value == 1
    if rev is None or not (is_pyconst(rev) and pyval(rev) is True) or not key_ok:
        ctx.finding(Q2, srt[0].node, "candidates must be processed in descending order of their score (sorted(..., key=score, reverse=True))",
                    srt[0].node, m)
    # KD-tree and ball query
    trees = [e for e in it.events if e.kind == "call" and e.name.endswith("KDTree") and e.fn == Q2]
    balls = [e for e in it.events if e.kind == "call" and e.name == "method:query_ball_point" and e.fn == Q2]
    if len(trees) != 1 or len(balls) != 1:
        raise Unsupported("KD-tree suppression structure not recognised", fn)
    sc = srt[0].extra.get("ret")  # the sorted candidate list (by role: the value sorted(...) produced)
    sc_t = to_term(sc) if sc is not None else None
    ctx.count(1, {"ball radius": tm.show(to_term(balls[0].args[2]))})
    if to_term(balls[0].args[2]) != sym("particle_diameter"):
        ctx.finding(Q2, balls[0].node, "the suppression radius must be the particle diameter itself (coefficient 1, no truncation): peaks "
                    "must be farther apart than the diameter", balls[0].node, m, radius=tm.show(to_term(balls[0].args[2])))
    ctx.count(1)
    if sc_t is None or not tm.contains(to_term(trees[0].args[0]), lambda n: n == sc_t):
        ctx.finding(Q2, trees[0].node, "the KD-tree must be built on the sorted candidate list (its result indices are used with that list)",
                    trees[0].node, m)
    idx_uses = [e for e in it.events if e.kind == "index" and e.fn == Q2 and sc_t is not None and to_term(e.args[0]) == sc_t]
    ctx.count(1, {"uses of tree indices on the candidate list": len(idx_uses)})
    ok_idx = any(tm.has_call(to_term(e.args[1]), "method:query_ball_point") or tm.has_call(to_term(e.args[1]), ".query_ball_point") for e in idx_uses)
    if not ok_idx:
        ctx.finding(Q2, balls[0].node, "the indices returned by the ball query must index the list the tree was built on", balls[0].node, m)
    # neighbour removed only if its score <= the peak's
    brs = [e for e in it.events if e.kind == "branch" and e.fn == Q2 and tm.contains(to_term(e.args[0]), lambda n: n.op in ("le", "lt"))
           and tm.has_call(to_term(e.args[0]), "dictcomp")]
    ctx.count(1)
    good = False
    for b in brs:
        for n in tm.walk(to_term(b.args[0])):
            if n.op in ("le", "lt") and tm.has_call(n.args[0], "dictcomp") and not tm.has_call(n.args[1], "dictcomp"):
                good = True
    if not good:
        ctx.finding(Q2, brs[0].node if brs else fn, "a neighbour may be removed only if its score is <= the score of the peak being kept",
                    brs[0].node if brs else fn, m)
    # fill: positions, scores, angles
    fills = [e for e in it.events if e.kind == "call" and e.name.endswith("Motl.fill")]
    if len(fills) != 1 or not isinstance(fills[0].args[0], DictV):
        raise Unsupported("Motl.fill call not found", fn)
    d = fills[0].args[0].items
    full = call("slice", const(None), const(None), const(None))
    # by role: the remaining positions are the array whose column 0 feeds "x"; the remaining scores feed "score"
    cands = [n.args[1] for n in tm.walk(to_term(d["x"])) if n.op == "call" and n.args[0] == "getitem" and len(n.args) == 3
             and n.args[2] == T("vec", full, const(0))] if "x" in d else []
    fs = d.get("score")
    if not cands or fs is None:
        raise Unsupported("remaining positions (array whose column 0 gives x) / scores not found in Motl.fill", fn)
    rp = cands[0]
    comp = lambda k: call("getitem", rp, T("vec", full, const(k)))
    for k, c in enumerate("xyz"):
        ctx.count(1)
        v = c in d and tm.equivalent(to_term(d[c]), mk("add", comp(k), const(1)), seed_tag="fill" + c)
        if not v:
            ctx.finding(Q2, fills[0].node, f"{c} must be the voxel index on axis {k} plus 1 (0-based index -> 1-based position)", fills[0].node, m,
                        extracted=tm.show(to_term(d[c]))[-120:] if c in d else None)
    ctx.count(1)
    if not tm.contains(to_term(fs), lambda n: n == SC or n == sym("scores")):
        ctx.finding(Q2, fills[0].node, "each peak must carry its own score (taken from the scores map)", fills[0].node, m)
    # positions and scores filtered by the same mask
    ctx.count(1, {"rpos": tm.show(rp)[-80:], "scores": tm.show(to_term(fs))[-80:]})
    ok = rp.op == "call" and rp.args[0] == "getitem" and to_term(fs).op == "call" and to_term(fs).args[0] == "getitem" \
        and rp.args[2] == to_term(fs).args[2]
    if not ok:
        ctx.finding(Q2, fills[0].node, "positions and scores must be filtered by the same hit mask (otherwise scores are paired with the "
                    "wrong positions)", fills[0].node, m)
    else:
        b0, b1 = rp.args[1], to_term(fs).args[1]
        same_src = b0.op == "vec" and b1.op == "vec" and tm.has_call(b0, "unpack") and tm.has_call(b1, "unpack")
        if not same_src:
            pass
    ai = mk("sub", call(".astype", call("getitem", call("map", sym("angles")), T("vec", comp(0), comp(1), comp(2))), const("ref:builtins.int")), sym("numbering"))
    for order in (None, "zxz", "zzx"):
        if order is None:
            d_o, AL = d, call("anglist", sym("anglist_in"), sym("angles_order"))
        else:
            it_o, r_o = run_sep(ctx, order)
            f_o = [e for e in it_o.events if e.kind == "call" and e.name.endswith("Motl.fill")]
            d_o, AL = f_o[0].args[0].items, call("anglist", sym("anglist_in"), const(order))
        for k, c in enumerate(("phi", "theta", "psi")):
            want = call("getitem", AL, T("vec", ai, const(k)))
            ctx.count(1)
            v = c in d_o and tm.equivalent(to_term(d_o[c]), want, seed_tag="ang" + c + str(order))
            if not v:
                ctx.finding(Q2, fills[0].node, f"{c} must be column {k} of the loaded angle list (rot_angles_load already returns phi, theta, "
                            f"psi order for every angles_order; here {order or 'any'}) at the index stored in the angle map at the peak's own "
                            "voxel minus angles_numbering", fills[0].node, m, extracted=tm.show(to_term(d_o[c]))[:200] if c in d_o else None)
    # rot_angles_load relabels a zzx file to (phi, theta, psi)
    qa = "ioutils.rot_angles_load"
    ma, fa = ctx.prog.func(qa)
    for order, names in (("zzx", ["phi", "psi", "theta"]), ("zxz", ["phi", "theta", "psi"])):
        it2 = Interp(ctx.prog, assume=assume_map({"not os.path.exists(input_angles)": False, "len(angles.columns) != 3": False}))
        r2 = it2.run(qa, [K("angles.csv")], {"angles_order": K(order)})
        a = r2.ret
        ctx.count(1, {"angles_order": order, "returned columns": [tm.show(c) for c in a.cols] if isinstance(a, Arr) else str(a)})
        want = [sym(f"csv:{names.index(c)}") for c in ("phi", "theta", "psi")]
        if not isinstance(a, Arr) or a.cols != want:
            ctx.finding(qa, "returned angle array", f"a {order} angle file (columns {names}) must be returned in (phi, theta, psi) order",
                        fa, ma, got=[tm.show(c) for c in a.cols] if isinstance(a, Arr) else str(a))
        # the list is addressed by position (angles map value - numbering): every line of the file, in file order
        rd = [e for e in it2.events if e.kind == "call" and e.name in ("pandas.read_csv", "pandas.read_table") and isinstance(e.extra.get("ret"), Frame)]
        if len(rd) != 1:
            raise Unsupported("read of the angle list file not recognised", fa)
        same_rows_same_order(ctx, qa, a, rd[0].extra["ret"], f"rot_angles_load({order} file) returns one row per line of the file, in file order", fa, ma)
    S_ = Space("the caller's angle array", how="root")
    src_ = Arr([sym("a0"), sym("a1"), sym("a2")], 2, space=S_)
    it3 = Interp(ctx.prog, assume=assume_map({"isinstance(input_angles, str)": False, "isinstance(input_angles, np.ndarray)": True}))
    for order_ in ("zxz", "zzx"):
        it3 = Interp(ctx.prog, assume=assume_map({"isinstance(input_angles, str)": False, "isinstance(input_angles, np.ndarray)": True}))
        src_ = Arr([sym("a0"), sym("a1"), sym("a2")], 2, space=S_)
        r3 = it3.run(qa, [src_], {"angles_order": K(order_)})
        if not isinstance(r3.ret, Arr):
            raise Unsupported("rot_angles_load(ndarray) result not recognised", fa)
        same_rows_same_order(ctx, qa, r3.ret, src_, f"rot_angles_load(ndarray, {order_!r}) returns the rows as given", fa, ma)
        # ... and the columns as given: an array list directly holds phi, theta, psi (the order option describes angle *files*); the peak
        # extraction reads column k of what it gets for both orders
        ctx.count(1, {"array list, angles_order": order_, "returned columns": [tm.show(c_) for c_ in r3.ret.cols]})
        if [c_ for c_ in r3.ret.cols] != [sym("a0"), sym("a1"), sym("a2")]:
            ctx.finding(qa, f"array input, angles_order={order_!r}", "an angle list given as an array is returned with its columns as given (phi, theta, psi) "
                        f"whatever angles_order says; got {[tm.show(c_) for c_ in r3.ret.cols]}: every peak extracted with this list carries two of its "
                        "angles exchanged", fa, ma)
    if True:
        pass
    # the tm function loads the list with the caller's order
    ral = [e for e in it.events if e.kind == "call" and e.name == "cryocat.ioutils.rot_angles_load"]
    ctx.count(1)
    ao = ral[0].kwargs.get("angles_order") if ral else None
    if not ral or ao is None or to_term(ao) != sym("angles_order"):
        ctx.finding(Q2, ral[0].node if ral else fn, "the angles_order option must be passed on to rot_angles_load", ral[0].node if ral else fn, m)


def _obligations():
    return [
        Obligation("O7.20", "accessors of the particle list: get_coordinates = (x,y,z) + shifts, get_angles / get_rotations = the stored zxz angles, fill stores values as given (shared with C05)", _c05.accessors, floor=20),
        Obligation("O7.9", "score / angle maps given by path are read as written (shared with C11)", lambda ctx: (_c11.o111(ctx), _c11.o115(ctx)), floor=37),
        Obligation("O7.1", "clean_by_distance: group isolation, visit order, distance of complete positions < d, self-exclusion, kept-only", o71, floor=14),
        Obligation("O7.5", "scores_extract_particles: threshold, descending order, radius = diameter, tree/index agreement, fill wiring", o75, floor=16),
    ]


def obligations():
    return _obligations() + [constructors_obligation(['cryomotl.Motl', 'cryomotl.EmMotl']), labels_obligation("C07"), selectors_obligation("C07"), mutations_obligation("C07"), loopstate_obligation("C07"), effects_obligation("C07"), plumbing_obligation("C07"), overrides_obligation("C07"), options_obligation("C07"), handlers_obligation("C07")]
