"""C11 -- map files round-trip voxels and axis order across MRC, REC and EM"""
from .common import *

TITLE = "Map files round-trip voxels and axis order across MRC, REC and EM"
EXPLANATION = (
    "cryomap.read and cryomap.write are interpreted abstractly for every accepted extension and both values of the "
    "transpose option: the term reaching the library reader/writer must contain exactly the self-inverse axis permutation "
    "(2,1,0) iff transpose is set (writer: iff the data is 3-D), the same library family must serve an extension on both "
    "sides, float64 must be narrowed to float32 before the library call, data_type applied first, overwrite plumbed. "
    "em2mrc / mrc2em are interpreted for a matrix of configurations (invert on/off, default/explicit output name, file "
    "stems ending in characters of the extension): the call into cryomap.write is bound to write's signature, so the "
    "data must be the read map negated iff invert, the default output name must be the input name with the extension "
    "replaced (decided by constant evaluation of the name expression), and the caller's overwrite must reach write's "
    "overwrite parameter (not another positional slot).")
ASSUMPTIONS = TRUSTED + ["mrcfile stores data.shape = (nz, ny, nx) with x fastest and emfile (zdim, ydim, xdim) likewise, so the "
                         "(2,1,0) permutation of an (x,y,z) array gives the interchange layout; header bytes are the libraries'"]

RD, WR = "cryomap.read", "cryomap.write"
FAMILY = {"mrc": "mrcfile", "rec": "mrcfile", "em": "emfile"}


def perms_in(term, name=".transpose"):
    out = []
    for n in tm.walk(term):
        if n.op == "call" and n.args[0] == name:
            out.append(tuple(tm.cval(a) for a in n.args[2:]))
        if n.op == "call" and n.args[0] in ("transposed", "method:T", ".T"):
            out.append(("T",))
    return out


def _value_leaves(t):
    """sub-terms that supply the values of `t`, looking through conditionals, astype, copy and axis permutations"""
    if t.op == "ite":
        return _value_leaves(t.args[1]) | _value_leaves(t.args[2])
    if t.op == "call" and t.args[0] in (".astype", ".transpose", ".copy", "numpy.transpose", "numpy.ascontiguousarray", "numpy.asarray", "numpy.array",
                                         ".view", ".swapaxes", "numpy.swapaxes", "numpy.moveaxis"):
        return _value_leaves(t.args[1])
    return {t}


def _norm_casts(t):
    """x.astype(T) with T = (T1 if x.dtype == D else x.dtype) is (x.astype(T1) if x.dtype == D else x): a conversion to the array's own type is
    the identity; np.dtype(T) names the type T.  Rewritten bottom-up so that the rules below see one spelling of a conditional narrowing."""
    def rw(n):
        if n.op in ("const", "sym"):
            return n
        args = tuple(rw(a) if isinstance(a, T) else a for a in n.args)
        n = T(n.op, *args) if any(a is not b for a, b in zip(args, n.args)) else n
        if n.op == "call" and n.args[0] == "numpy.dtype" and len(n.args) == 2 and n.args[1].op == "const" and str(n.args[1].args[0]).startswith("ref:numpy."):
            return n.args[1]  # np.dtype(np.float32) names the type; np.dtype(<a value that may be None>) does not (np.dtype(None) is float64)
        if n.op == "call" and n.args[0] == ".astype" and len(n.args) >= 3 and n.args[2].op == "ite":
            x, (c, a, b) = n.args[1], n.args[2].args
            own = lambda d: d.op == "call" and str(d.args[0]) in (".dtype", "dtype") and len(d.args) >= 2 and d.args[1] == x
            if own(b):
                return mk("ite", c, call(".astype", x, a), x)
            if own(a):
                return mk("ite", c, x, call(".astype", x, b))
        return n
    return rw(t)


def _casts(t):
    """target types of the astype calls on the value path of `t`"""
    if t.op == "ite":
        return _casts(t.args[1]) + _casts(t.args[2])
    if t.op == "call" and t.args[0] == ".astype":
        return [t.args[2]] + _casts(t.args[1]) if len(t.args) > 2 else _casts(t.args[1])
    if t.op == "call" and t.args[0] == ".view" and len(t.args) > 2:
        return [call("reinterpret", t.args[2])] + _casts(t.args[1])  # .view(dtype): the bytes re-read as another type
    if t.op == "call" and t.args[0] in (".transpose", ".copy", "numpy.transpose", "numpy.ascontiguousarray", "numpy.asarray", "numpy.array", ".view",
                                         ".swapaxes", "numpy.swapaxes", "numpy.moveaxis"):
        return _casts(t.args[1])
    return []


def o111(ctx):
    m, fn = ctx.prog.func(RD)
    ctx.touched(RD, WR)
    for ext in ("mrc", "rec", "em"):
        for tr in (True, False):
            it = Interp(ctx.prog)
            r = it.run(RD, [K(f"maps/volume_a.{ext}")], {"transpose": K(tr)})
            t = to_term(r.ret)
            libs = sorted({n.args[0].split(".")[0] for n in tm.walk(t) if n.op == "call" and n.args[0].split(".")[0] in ("mrcfile", "emfile")})
            ps = perms_in(t)
            ctx.count(1, {"read": f".{ext}", "transpose": tr, "library": libs, "permutations": ps})
            if libs != [FAMILY[ext]]:
                ctx.finding(RD, f"dispatch of .{ext}", f"a .{ext} file must be read with {FAMILY[ext]} (found {libs})", fn, m)
            rc_ = _casts(t)
            ctx.count(1)
            narrowing_ = lambda c_: any(x.op == "const" and str(x.args[0]) in ("ref:numpy.float32", "ref:numpy.single", "ref:numpy.float16", "ref:numpy.half", "ref:numpy.int8",
                                                                                "ref:numpy.uint8", "ref:builtins.int", "ref:numpy.int16", "ref:numpy.int32")
                                        and not tm.contains(c_, lambda y: y.op == "ite") for x in tm.walk(c_))
            if rc_ and getattr(ctx, "prop", "C11") != "C11" and not any((c_.op == "call" and c_.args[0] == "reinterpret") or narrowing_(c_) for c_ in rc_):
                # for the properties that only READ maps through this function the element type is not part of the statement; whether a conversion
                # keeps every value (a widening) is not decided here
                raise Unsupported(f"cryomap.read converts the data of a .{ext} file to {tm.show(rc_[0])[:60]}: whether every value survives is not decided", fn)
            if rc_:
                ctx.finding(RD, f"type handling for .{ext}", f"the voxels must be returned with the values and type the file holds (data_type only on request); "
                            f"the data are converted / re-interpreted as {tm.show(rc_[0])[:60]}", fn, m)
            want = [(2, 1, 0)] if tr else []
            if ps != want:
                ctx.finding(RD, f"axis handling for .{ext}, transpose={tr}", f"reading with transpose={tr} must apply "
                            f"{'exactly the permutation (2,1,0)' if tr else 'no permutation'} to the library's (z,y,x) data; found {ps}",
                            fn, m)
    mw, fw = ctx.prog.func(WR)
    for ext in ("mrc", "rec", "em"):
        for tr in (True, False):
            it = Interp(ctx.prog, assume=assume_map({"transpose and data_to_write.ndim == 3": tr, "data_type is not None": True}))
            data = Unk(sym("volume"))
            it.run(WR, [data, K(f"out/volume_b.{ext}")], {"transpose": K(tr), "data_type": P("data_type"), "overwrite": P("overwrite")})
            evs = [e for e in it.events if e.kind == "call" and e.name in ("mrcfile.write", "emfile.write", "mrcfile.new", "mrcfile.open")]
            if len(evs) != 1:
                raise Unsupported(f"library write call for .{ext} not found", fw)
            ev = evs[0]
            ctx.count(1, {"write": f".{ext}", "transpose": tr, "library": ev.name})
            # every map is written: no way out of write() before the library call that depends on the voxel values (an all-zero map is a map)
            early = [e for e in it.events if e.kind == "return" and e.name == WR and it.events.index(e) < it.events.index(ev)
                     and any(tm.has_sym(g_, "volume") for g_ in e.guards)]
            guarded = [g_ for g_ in ev.guards if tm.has_sym(g_, "volume") and not tm.contains(g_, lambda n: n.op == "call" and str(n.args[0]) in (".ndim", ".dtype", "dtype", ".shape"))]
            ctx.count(1)
            if early or guarded:
                nd_ = early[0].node if early else ev.node
                ctx.finding(WR, "maps that are not written", "write() leaves without calling the library writer under a condition on the voxel values "
                            f"({tm.show((early[0].guards if early else guarded)[-1])[:80]}): for such a map no file is written (a file already standing under the name keeps "
                            "its old voxels) and read() does not return what was written", nd_, mw)
            if ev.name.split(".")[0] != FAMILY[ext]:
                ctx.finding(WR, ev.node, f"a .{ext} file must be written with {FAMILY[ext]}", ev.node, mw)
            nm_ = ev.kwargs.get("name") or ev.kwargs.get("path") or ev.arg(0)  # mrcfile.write(name=...), emfile.write(path=...), or first positional
            ctx.count(1)
            if nm_ is None or not (is_pyconst(nm_) and pyval(nm_) == f"out/volume_b.{ext}"):
                ctx.finding(WR, ev.node, "the library writer must be given the caller's file name itself: its overwrite check (refuse to replace an "
                            f"existing file unless asked) then applies to that file; it is given {tm.show(to_term(nm_))[:60] if nm_ is not None else None}",
                            ev.node, mw)
            d = ev.kwargs.get("data") or ev.arg(1)
            t = _norm_casts(to_term(d))
            ps = perms_in(t)
            want = [(2, 1, 0)] if tr else []
            if ps != want:
                ctx.finding(WR, ev.node, f"writing with transpose={tr} must apply {'exactly the permutation (2,1,0)' if tr else 'no permutation'}"
                            f" before the library call; found {ps}", ev.node, mw)
            # float64 -> float32 narrowing present on the path, data_type applied first
            narrow = [n for n in tm.walk(t) if n.op == "ite" and tm.contains(n.args[0], lambda x: x.op == "const" and x.args[0] == "ref:numpy.float64")
                      and tm.contains(n.args[1], lambda x: x.op == "call" and x.args[0] == ".astype"
                                      and tm.show(x.args[2]) in ("'ref:numpy.float32'", "'ref:numpy.single'"))]
            ctx.count(1)
            if not narrow:
                ctx.finding(WR, ev.node, "float64 data must be narrowed to float32 before the library call", ev.node, mw,
                            data=tm.show(t)[:200])
            for n_ in narrow:
                # the test looks at the array that is about to be written (after the requested data_type has been applied), at nothing else: a map
                # written with data_type=int16 is an int16 file whatever the type of the array the caller held
                # the arrays whose type is compared with float64 (the operands of those comparisons themselves, not what is nested inside them)
                tested = []
                for c_ in tm.walk(n_.args[0]):
                    if c_.op in ("eq", "ne") and any(a_.op == "const" and a_.args[0] == "ref:numpy.float64" for a_ in c_.args):
                        for a_ in c_.args:
                            if a_.op == "call" and str(a_.args[0]) in ("dtype", ".dtype") and len(a_.args) >= 2:
                                tested.append(a_.args[1])
                ctx.count(1, {"narrowing decided on the type of": sorted({tm.show(x)[:60] for x in tested})} if ext == "mrc" and tr else None)
                if tested and any(x != n_.args[2] for x in tested):
                    other_ = [x for x in tested if x != n_.args[2]][0]
                    ctx.finding(WR, ev.node, "the float64 -> float32 narrowing is (also) decided on the type of another array than the one written "
                                f"({tm.show(other_)[:60]}): a float64 map written with an integer data_type is converted a second time and stored as float32",
                                ev.node, mw)
            ctx.count(1)
            if not tm.contains(t, lambda x: x.op == "call" and x.args[0] == ".astype" and tm.has_sym(x, "data_type")):
                ctx.finding(WR, ev.node, "a requested data_type must be applied to the data before writing", ev.node, mw)
            # value path: between the caller's array and the library call only type conversion and axis permutation may act
            leaves = _value_leaves(t)
            ctx.count(1, {"values handed to the library": sorted({tm.show(x)[:40] for x in leaves})} if ext == "mrc" else None)
            casts = _casts(t)
            ctx.count(1)
            odd = [c_ for c_ in casts if not (c_ == sym("data_type") or (c_.op == "const" and str(c_.args[0]) in ("ref:numpy.float32", "ref:numpy.single")))]
            if odd:
                ctx.finding(WR, ev.node, "the only type conversions on the way to the file are the requested data_type and float64 -> float32; the data "
                            f"are also converted to {tm.show(odd[0])[:80]} (a narrower type chosen by the writer can wrap values)", ev.node, mw)
            bad = [x for x in leaves if x != sym("volume")]
            if bad:
                ctx.finding(WR, ev.node, "the voxel values must reach the file as they are: only the requested type conversion (astype) and the axis "
                            f"permutation may act on them, but the data also pass through {tm.show(bad[0])[:80]}", ev.node, mw)
            ow = ev.kwargs.get("overwrite")
            ctx.count(1)
            if ow is None or to_term(ow) != sym("overwrite"):
                ctx.finding(WR, ev.node, "the overwrite option must be passed on to the library writer", ev.node, mw)
    # TiltStack uses the un-permuted layout on both sides (decided on the calls that reach cryomap.read / cryomap.write, wherever they are made from)
    for q, callee, args, me in (("tiltstack.TiltStack.__init__", "read", [K("stack.mrc")], Obj("tiltstack.TiltStack", {})),
                                ("tiltstack.TiltStack.write_out", "write", [P("output_file")],
                                 Obj("tiltstack.TiltStack", {"data": Unk(sym("stack")), "data_type": Unk(sym("dtype"))}))):
        mq, fq = ctx.prog.func(q)
        it = Interp(ctx.prog, no_inline=("cryomap.read", "cryomap.write"),
                    assume=assume_map({"not isinstance(tilt_stack, np.ndarray)": True, "isinstance(tilt_stack, np.ndarray)": False, "self.data.shape == 2": False,
                                       "data.shape == 2": False, "output_file": True, "new_data is not None": False, "data is not None": False}))
        kw = {"input_order": K("xyz"), "output_order": P("output_order")} if callee == "read" else {}
        it.run(q, args, kw, self_obj=me)
        evs = [e for e in it.events if e.kind == "call" and e.name == f"cryocat.cryomap.{callee}"]
        ctx.count(1)
        okt = len(evs) == 1
        if okt:
            tr = bind(ctx.prog, RD if callee == "read" else WR, evs[0]).get("transpose")
            okt = tr is not None and is_pyconst(tr) and pyval(tr) is False
        if not okt:
            ctx.finding(q, evs[0].node if evs else fq, f"tilt stacks are kept in file (n,y,x) order: cryomap.{callee} must be called with "
                        "transpose=False on both the reading and the writing side", evs[0].node if evs else fq, mq)


def o112(ctx):
    """extension sets: every extension write accepts is read by the same family (decided by interpreting both functions per extension, so a
    dispatch through a table or a helper is the same as an if-chain)"""
    mw, fw = ctx.prog.func(WR)
    mr, fr_ = ctx.prog.func(RD)
    wexts = []
    lib_of = lambda e: "mrcfile" if e.name.startswith("mrcfile") else "emfile"
    # the last extension alone selects the container: stems that merely contain another extension must not change the choice
    stems = ("x/file_q", "sta_ref.mrc", "tomo_012.rec_bin4", "avg.em", "vol.em.b2", "run.rec.7x")
    for ext in ("mrc", "rec", "em", "txt"):
        for stem in stems:
            name = f"{stem}.{ext}"
            it = Interp(ctx.prog, assume=assume_map({"data_type is not None": False}))
            try:
                r = it.run(WR, [Unk(sym("volume")), K(name)], {"transpose": K(False), "overwrite": P("overwrite")})
            except AbstractRaise:
                r = None
            evs = [e for e in it.events if e.kind == "call" and e.name in ("mrcfile.write", "emfile.write", "mrcfile.new", "mrcfile.open")]
            ctx.count(1)
            if ext != "txt" and not evs and r is not None:
                # write() ran to its end on this name without a library writer being seen: the writer is reached through a form the interpretation does
                # not resolve (a callable picked from a table by a generator, ...) -- nothing is read off that
                raise Unsupported(f"cryomap.write({name!r}) ends without a recognised library writer call and without an error: the dispatch is not resolved", fw)
            if evs and stem == stems[0]:
                wexts.append(ext)
            libs = sorted({lib_of(e) for e in evs})
            if ext != "txt" and stem != stems[0] and libs != [FAMILY[ext]]:
                ctx.finding(WR, "extension dispatch", f"the container must be selected by the final extension alone: {name!r} must be "
                            f"written with {FAMILY[ext]} (the code uses {libs or 'no writer'})", fw, mw)
            if ext == "txt" and stem != stems[0] and evs:
                ctx.finding(WR, "extension dispatch", f"write must refuse {name!r} (it ends neither in .mrc, .rec nor .em)", fw, mw)
    ctx.count(len(wexts), {"extensions accepted by write": sorted(wexts), "stems probed": list(stems)})
    if not {"mrc", "rec", "em"} <= set(wexts):
        ctx.finding(WR, "extension dispatch", f"write must accept .mrc, .rec and .em (accepts {sorted(wexts)})", fw, mw)
    if "txt" in wexts:
        ctx.finding(WR, "extension dispatch", "write must refuse file names that end neither in .mrc, .rec nor .em", fw, mw)
    for ext in sorted(e_ for e_ in wexts if e_ != "txt"):
        for stem in stems:
            name = f"{stem}.{ext}"
            it = Interp(ctx.prog)
            libs, returns = [], False
            try:
                r = it.run(RD, [K(name)], {})
                returns = bool(r.returns)
                t = to_term(r.ret)
                libs = sorted({n.args[0].split(".")[0] for n in tm.walk(t) if n.op == "call" and n.args[0].split(".")[0] in ("mrcfile", "emfile")})
            except (Unsupported, AbstractRaise):
                libs = []
            ctx.count(1)
            if not returns or libs != [FAMILY.get(ext, "?")]:
                ctx.finding(RD, f"reading of .{ext}", f"{name!r} written by cryomap.write cannot be read back by cryomap.read with the "
                            f"same library family (read uses {libs})", fr_, mr)


def bind(prog, qual, ev):
    """bind a call event to the callee's signature: param -> abstract value"""
    m, fn = prog.func(qual)
    params = [a.arg for a in fn.args.args]
    out = {}
    for i, a in enumerate(ev.args):
        if i < len(params):
            out[params[i]] = a
    out.update(ev.kwargs)
    return out


def o114(ctx):
    for q, src_ext, dst_ext in (("cryomap.em2mrc", "em", "mrc"), ("cryomap.mrc2em", "mrc", "em")):
        m, fn = ctx.prog.func(q)
        ctx.touched(q)
        stems = ["data/volume", "data/frame", "tomogram", "t_01", "maps/avg_c", "x.e", "r.mr"]
        for invert in (True, False):
            for explicit in (None, f"out/result_1.{dst_ext}"):
                for stem in stems[: (len(stems) if explicit is None else 2)]:
                    name = f"{stem}.{src_ext}"
                    it = Interp(ctx.prog, no_inline=("cryomap.read", "cryomap.write"), assume=assume_map({"invert": invert}))
                    it.run(q, [K(name)], {"invert": K(invert), "overwrite": P("overwrite"), "output_name": K(explicit)})
                    evs = [e for e in it.events if e.kind == "call" and e.name == "cryocat.cryomap.write"]
                    if len(evs) != 1:
                        raise Unsupported(f"{q}: expected one call of cryomap.write", fn)
                    b = bind(ctx.prog, WR, evs[0])
                    node = evs[0].node
                    # the converted file is written on every path: nothing but the configured options may stand between the call and the write
                    gs = [g for g in evs[0].guards if not (g.op == "call" and g.args[0] == "in_loop")]
                    early = [e for e in it.events[:it.events.index(evs[0])] if e.kind == "return" and e.name.endswith(q)]
                    gs += [g for e in early for g in e.guards] or ([const("an earlier return")] if early else [])
                    ctx.count(1)
                    if gs:
                        ctx.finding(q, "file written on every path", f"{q} does not write the converted file on every path (it returns early / writes only "
                                    f"under the condition {tm.show(gs[0])[:120]}): a file of that name left from an earlier call (other options, other "
                                    "content) stays in place as if it were the result", early[0].node if early else node, m)
                    want_name = explicit if explicit is not None else f"{stem}.{dst_ext}"
                    got_name = b.get("file_name")
                    ctx.count(1, {"function": q, "input": name, "invert": invert, "output_name": explicit,
                                  "file written": pyval(got_name) if got_name is not None and is_pyconst(got_name) else str(got_name)})
                    if got_name is None or not is_pyconst(got_name) or pyval(got_name) != want_name:
                        ctx.finding(q, "output file name", f"{q}({name!r}, output_name={explicit!r}) must write {want_name!r}; it writes "
                                    f"{pyval(got_name) if got_name is not None and is_pyconst(got_name) else got_name!r}", node, m)
                    rd = call("cryocat.cryomap.read", const(name))
                    want_data = mk("mul", rd, const(-1)) if invert else rd
                    d = b.get("data_to_write")
                    # read(name) and read(name, transpose=True, data_type=None) are the same call: options written out with their default values
                    rd_ev = [e_ for e_ in it.events if e_.kind == "call" and e_.name == "cryocat.cryomap.read"]
                    canon = {}
                    for e_ in rd_ev:
                        br = bind(ctx.prog, RD, e_)
                        if is_pyconst(br.get("input_map", K(None))) and pyval(br["input_map"]) == name \
                                and (("transpose" not in br) or (is_pyconst(br["transpose"]) and pyval(br["transpose"]) is True)) \
                                and (("data_type" not in br) or (is_pyconst(br["data_type"]) and pyval(br["data_type"]) is None)):
                            r_ = e_.extra.get("ret")
                            if r_ is not None:
                                canon[to_term(r_)] = rd
                    dt_ = tm.subst(to_term(d), canon) if d is not None and canon else (to_term(d) if d is not None else None)
                    v = d is not None and tm.equivalent(dt_, want_data, seed_tag=q + "d")
                    ctx.count(1)
                    if not v:
                        ctx.finding(q, "data passed to cryomap.write", f"with invert={invert} and output_name={explicit!r} the voxels written "
                                    f"must be the read map{' times -1' if invert else ''}; found {tm.show(to_term(d))[:100] if d is not None else None}",
                                    node, m)
                    ow = b.get("overwrite")
                    ctx.count(1)
                    if ow is None or to_term(ow) != sym("overwrite"):
                        ctx.finding(q, node, f"the caller's overwrite flag must reach cryomap.write's overwrite parameter; the call binds "
                                    f"{ {k: tm.show(to_term(v_))[:30] for k, v_ in b.items() if k not in ('data_to_write', 'file_name')} }",
                                    node, m)
                    ctx.count(1)
                    if "transpose" in b and not (is_pyconst(b["transpose"]) and pyval(b["transpose"]) is True):
                        ctx.finding(q, node, "the converters must write with the default axis permutation (transpose=True), "
                                    f"but the call binds transpose={tm.show(to_term(b['transpose']))}", node, m)


def o115(ctx):
    """the data_type option of read: whenever it is given, the returned map has been converted to it -- unconditionally (a stored type that
    'fits into' the requested one is still not the requested one: int8 * int8 overflows where float32 * float32 does not)"""
    m, fn = ctx.prog.func(RD)
    ctx.touched(RD)
    for name in ("x/vol.mrc", "x/vol.rec", "x/vol.em"):
        for transpose in (True, False):
            it = Interp(ctx.prog, assume=assume_map({"data_type is not None": True, "transpose": transpose}))
            r = it.run(RD, [K(name)], {"data_type": P("dt"), "transpose": K(transpose)})
            t = to_term(r.ret)
            ctx.count(1, {"file": name, "transpose": transpose, "returned": tm.show(t)[:120]})
            if not (t.op == "call" and t.args[0] == ".astype" and len(t.args) == 3 and t.args[2] == sym("dt")):
                conds = [n.args[0] for n in tm.walk(t) if n.op == "ite"]
                ctx.finding(RD, "conversion to data_type", f"read({name!r}, data_type=T) must return the map converted to T whenever T is given; the "
                            f"conversion is {'conditional on ' + tm.show(conds[0])[:120] if conds else 'missing'}", fn, m, returned=tm.show(t)[:200])
    it = Interp(ctx.prog, assume=assume_map({"data_type is not None": False}))
    r = it.run(RD, [K("x/vol.mrc")], {})
    ctx.count(1)
    if tm.has_call(to_term(r.ret), ".astype"):
        ctx.finding(RD, "no data_type", "without data_type the map must come back in its stored type", fn, m, returned=tm.show(to_term(r.ret))[:200])
    # the voxels of the file come back as they are stored: what read returns is the library's array, at most with its axes permuted
    for name, lib_ in (("x/vol.mrc", "mrcfile.open"), ("x/vol.rec", "mrcfile.open"), ("x/vol.em", "emfile.read")):
        for transpose in (True, False):
            it = Interp(ctx.prog, assume=assume_map({"data_type is not None": False, "transpose": transpose}))
            r = it.run(RD, [K(name)], {"transpose": K(transpose)})
            t = to_term(r.ret)
            core = t
            while core.op == "call" and core.args[0] in (".transpose", ".copy", "numpy.transpose", "numpy.ascontiguousarray", "numpy.array", "numpy.asarray") \
                    and len(core.args) >= 2:
                core = core.args[1]
            plain = core.op == "call" and ((core.args[0] == ".data" and core.args[1].op == "call" and core.args[1].args[0] == lib_)
                                           or (core.args[0] in ("getitem", "unpack") and core.args[1].op == "call" and core.args[1].args[0] == lib_
                                               and tm.cval(core.args[2]) == 1))
            ctx.count(1, {"file": name, "transpose": transpose, "returned without data_type": tm.show(t)[:100]})
            if not plain:
                if not tm.has_call(t, lib_):
                    raise Unsupported(f"what read({name!r}) returns is not recognised: {tm.show(t)[:120]}", fn)
                ctx.finding(RD, "voxels returned by read", f"read({name!r}) must hand back the voxels stored in the file (axes permuted when transpose is "
                            f"set, nothing else); it returns {tm.show(t)[:160]}: values are replaced or transformed on the way (a NaN, an infinite "
                            "or a small value no longer reads back as written)", fn, m)
                break


def _obligations():
    return [
        Obligation("O11.5", "read(data_type=T) converts to T whenever T is given (all extensions, both transpose settings), and only then", o115, floor=7),
        Obligation("O11.1", "read/write apply the same self-inverse axis permutation per option, same library per extension, narrowing, overwrite", o111, floor=30),
        Obligation("O11.2", "every extension write accepts is read back by the same library family", o112, floor=5),
        Obligation("O11.4", "em2mrc / mrc2em: data negated iff invert, default name = extension replaced, overwrite reaches write", o114, floor=60),
    ]


def obligations():
    return _obligations() + [labels_obligation("C11"), selectors_obligation("C11"), mutations_obligation("C11"), loopstate_obligation("C11"), effects_obligation("C11"), plumbing_obligation("C11"), overrides_obligation("C11"), options_obligation("C11"), handlers_obligation("C11")]
