"""C09 -- spatial filters keep exactly the particles that lie inside"""
from .common import *
from . import C08 as _c08

TITLE = "Spatial filters keep exactly the particles that lie inside"
EXPLANATION = (
    "remove_out_of_bounds_particles, adapt_to_trimming, clean_by_distance_to_points and clean_by_tomo_mask are interpreted "
    "abstractly. The keep/remove predicates are extracted as closed forms and evaluated on decisive sample points (clearly "
    "inside; outside through each lower and each upper face, one axis at a time; non-cubic dimensions so that swapped axes "
    "show): bounds must be tested on both sides per axis against the particle's own tomogram (lookup tomo_id == row's "
    "tomo_id); trimming shifts x,y,z by start-1 and drops exactly x' < 1 or x' > end-(start-1) (ties evaluated); the point "
    "cleaner builds its tree on the complete positions of the group's own subset, queries it with the points of the same "
    "group value, with the caller's radius, drops by positions from a positionally-labelled table and adds every group's "
    "survivors unconditionally; the mask cleaner pairs tomogram i of the checked list with mask i, tests both sides of "
    "the mask bounds, looks the mask up at (c0,c1,c2), removes exactly the zero-valued voxels' particles, and maps the "
    "positions found in the bounds-filtered array back to the unfiltered subset before using them as labels (row-space "
    "typing); the voxel of a position is its floor (a position between -1 and 0 is outside the volume, not voxel 0). Survivors are never written to.")
ASSUMPTIONS = TRUSTED + ["which voxel a 1-based position sits on, and whether bounds are inclusive, is left open by the statement: "
                         "direction and presence of both sides are decided, not strictness"]

M = "cryomotl.Motl."
BASE_A = {"isinstance(feature_values, list)": False, "isinstance(feature_values, (list, np.ndarray))": False, "reset_index": True, "return_df": False, "output_file": False, "inplace": True,
          "isinstance(tomo_masks, list)": True, "len(tomos) != len(tomo_masks)": False, "requries_loading": True,
          "output_file is not None": False, "tomo_number is None": True}


def dims_summary(it, args, kwargs, node, fr):
    d = Frame({c: sym("dim:" + c) for c in ("tomo_id", "x", "y", "z")}, ["tomo_id", "x", "y", "z"], name="dim")
    d.space = Space("dims", how="root")
    return d


def _iterrows_labels_as_positions(ctx, q, m, fn):
    """`for i, row in T.iterrows(): ... keep.append(i)` followed by `<table>.iloc[keep]`: i is a row LABEL of T and is used as a POSITION; that is right only
    when T carries the labels 0..n-1, i.e. is built from label-free values (arrays, `.values`) or renumbered -- a helper table built from columns of the
    particle table carries the particle table's labels (a list sorted by score, a selection)"""
    strip = lambda e: (isinstance(e, ast.Attribute) and e.attr == "values") or (isinstance(e, ast.Call) and isinstance(e.func, ast.Attribute) and e.func.attr in ("to_numpy", "tolist"))
    for lp in [n for n in ast.walk(fn) if isinstance(n, ast.For)]:
        it_ = lp.iter
        if not (isinstance(it_, ast.Call) and isinstance(it_.func, ast.Attribute) and it_.func.attr == "iterrows" and isinstance(it_.func.value, ast.Name)
                and isinstance(lp.target, ast.Tuple) and isinstance(lp.target.elts[0], ast.Name)):
            continue
        tab, lab = it_.func.value.id, lp.target.elts[0].id
        kept = {c.func.value.id for c in ast.walk(lp) if isinstance(c, ast.Call) and isinstance(c.func, ast.Attribute) and c.func.attr == "append"
                and isinstance(c.func.value, ast.Name) and c.args and isinstance(c.args[0], ast.Name) and c.args[0].id == lab}
        positional_use = [s_ for s_ in ast.walk(fn) if isinstance(s_, ast.Subscript) and isinstance(s_.value, ast.Attribute) and s_.value.attr == "iloc"
                          and any(isinstance(x, ast.Name) and x.id in kept for x in ast.walk(s_.slice))]
        if not positional_use:
            continue
        ctx.count(1, {"labels of": tab, "used as positions in": norm_text(positional_use[0])[:60]})
        ctors = [a for a in ast.walk(fn) if isinstance(a, ast.Assign) and any(isinstance(t, ast.Name) and t.id == tab for t in a.targets)]
        if len(ctors) != 1 or not (isinstance(ctors[0].value, ast.Call) and (ctx.prog.resolve(m, ctors[0].value.func) or "") == "pandas.DataFrame"):
            raise Unsupported(f"{q}: how the table `{tab}` walked by iterrows() is built is not recognised (are its labels 0..n-1?)", lp)
        c = ctors[0].value
        if any(k.arg == "index" for k in c.keywords):
            raise Unsupported(f"{q}: `{tab}` is built with an explicit index", c)
        vals = list(c.args[0].values) if c.args and isinstance(c.args[0], ast.Dict) else None
        if vals is None:
            raise Unsupported(f"{q}: data of `{tab}` not recognised", c)
        for v in vals:
            labelled = [x for x in ast.walk(v) if isinstance(x, ast.Subscript) and isinstance(x.value, ast.Attribute) and x.value.attr == "df"
                        and not any(strip(p_) and any(y is x for y in ast.walk(p_)) for p_ in ast.walk(v))]
            if labelled:
                ctx.finding(q, "labels of the helper table", f"the helper table `{tab}` is built from columns of the particle table ({norm_text(v)[:50]}) and carries that table's row "
                            f"labels; iterrows() hands those labels to `{norm_text(positional_use[0])[:40]}`, which takes positions: for a list whose labels are not 0..n-1 in row "
                            "order (sorted by score, a selection) the rows of other particles are kept", v, m)
                return


def o91(ctx):
    q = M + "remove_out_of_bounds_particles"
    m, fn = ctx.prog.func(q)
    deferred = None
    try:
        _iterrows_labels_as_positions(ctx, q, m, fn)
    except Unsupported as e_:  # the label rule has no verdict: the other rules of the obligation still speak; without any finding the obligation is undecided
        deferred = e_
    _o91_main(ctx)
    if deferred is not None and not ctx.cur.findings:
        raise deferred


def _o91_main(ctx):
    q = M + "remove_out_of_bounds_particles"
    m, fn = ctx.prog.func(q)
    ctx.touched(q)
    for bt in ("center", "whole"):
        it = Interp(ctx.prog, summaries={"cryocat.ioutils.dimensions_load": dims_summary}, assume=assume_map({"box_size": True}))
        me = motl_obj(ctx.prog)
        it.run(q, [P("dimensions")], {"boundary_type": K(bt), "box_size": P("box_size")}, self_obj=me)
        brs = [e for e in it.events if e.kind == "branch" and e.fn == q and tm.has_sym(to_term(e.args[0]), "dim:x")]
        if len(brs) != 1:
            raise Unsupported("keep condition of remove_out_of_bounds_particles not recognised", fn)
        cond = to_term(brs[0].args[0])
        node = brs[0].node
        # per-tomogram lookup
        sels = [n for n in tm.walk(cond) if n.op == "sel" and any(tm.has_sym(n.args[0], "dim:" + c) for c in "xyz")]
        ctx.count(1, {"boundary_type": bt, "dimension lookups": len(sels)})
        if len(sels) < 3 or not all(len(s_.args) == 2 and tm.equivalent(s_.args[1], mk("eq", sym("dim:tomo_id"), sym("tomo_id")), seed_tag="lk") for s_ in sels):
            ctx.finding(q, node, "the dimensions must be those of the particle's own tomogram (row with tomo_id == the particle's tomo_id)",
                        node, m)
        b = 6.0 if bt == "whole" else 0.0
        base = {"x": 50.0, "y": 60.0, "z": 30.0, "shift_x": 0.25, "shift_y": -0.25, "shift_z": 0.0, "dim:x": 100.0, "dim:y": 140.0, "dim:z": 70.0,
                "box_size": 12.0, "tomo_id": 2.0, "dim:tomo_id": 2.0, "__salt__": 0.3}
        cases = [("inside", {}, True)]
        for c, d in (("x", "dim:x"), ("y", "dim:y"), ("z", "dim:z")):
            cases.append((f"beyond the lower {c} face", {c: -5.0 - b}, False))
            cases.append((f"beyond the upper {c} face", {c: base[d] + 5.0 + b}, False))
            cases.append((f"inside near the upper {c} face", {c: base[d] - 3.0 - b}, True))
        if bt == "whole":
            cases.append(("centre inside but box leaves through the lower x face", {"x": 3.0}, False))
            cases.append(("centre inside but box leaves through the upper z face", {"z": base["dim:z"] - 3.0}, False))
            # odd box sizes: the half extent is rounded up (box 5 -> 3 voxels, box 1 -> 1 voxel)
            cases.append(("odd box (5) reaching the upper z face", {"box_size": 5.0, "z": base["dim:z"] - 3.0}, False))
            cases.append(("odd box (5) one voxel further in", {"box_size": 5.0, "z": base["dim:z"] - 4.0}, True))
            cases.append(("box of one voxel on the last x plane", {"box_size": 1.0, "x": base["dim:x"] - 1.0}, False))
            cases.append(("box of one voxel one plane further in", {"box_size": 1.0, "x": base["dim:x"] - 2.0}, True))
        # non-cubic: a z that fits the y dimension but not the z dimension
        cases.append(("z beyond dim_z but below dim_y", {"z": 100.0}, False))
        cases.append(("y inside dim_y but beyond dim_z", {"y": 100.0}, True))
        lower_bad, other_bad = [], []
        for label, upd, want in cases:
            env = dict(base)
            env.update(upd)
            try:
                got = bool(np.all(tm.evaluate(cond, env)))
            except tm.EvalError as e:
                raise Unsupported(f"keep condition not evaluable: {e}", node)
            ctx.count(1, {"boundary_type": bt, "case": label, "kept": got, "expected": want} if label in ("inside", "beyond the lower x face") else None)
            if got != want:
                (lower_bad if "lower" in label else other_bad).append((label, got))
        if lower_bad:
            ctx.finding(q, "lower bound test", f"boundary_type={bt!r}: particles (or boxes) leaving the tomogram through a lower face are kept "
                        f"({[l for l, _ in lower_bad][:3]}): the lower bound must be tested per axis like the upper one", node, m,
                        condition=tm.show(cond)[:200])
        if other_bad:
            ctx.finding(q, "upper bound test", f"boundary_type={bt!r}: wrong decision for {other_bad[:3]}: each axis must be compared with the "
                        "matching dimension of the tomogram", node, m, condition=tm.show(cond)[:200])
        df = me.attrs["df"]
        ctx.count(1)
        if df.written:
            ctx.finding(q, "write-set", f"survivors must not be altered (writes {sorted(df.written)})", fn, m)


def o92(ctx):
    q = M + "adapt_to_trimming"
    m, fn = ctx.prog.func(q)
    ctx.touched(q)
    it = Interp(ctx.prog)
    me = motl_obj(ctx.prog)
    S = [sym(f"s{k}") for k in range(3)]
    E = [sym(f"e{k}") for k in range(3)]
    it.run(q, [Arr(S, 1), Arr(E, 1)], {}, self_obj=me)
    df = me.attrs["df"]
    exp = {c: mk("sub", sym(c), mk("sub", S[k], const(1))) for k, c in enumerate("xyz")}
    isam = {c: int_sampler(-20, 120) for c in "xyz"}
    isam.update({f"s{k}": int_sampler(1, 40) for k in range(3)})
    isam.update({f"e{k}": int_sampler(41, 100) for k in range(3)})
    expect_cols(ctx, it, q, df, exp, unchanged=[c for c in ctx.prog.class_attr("cryomotl.Motl", "motl_columns") if c not in "xyz"], samplers=isam,
                what="adapt_to_trimming (x' = x - (start - 1))")
    keep = None
    for f_ in df.filters:
        keep = f_ if keep is None else mk("and", keep, f_)
    if keep is None:
        raise Unsupported("adapt_to_trimming does not filter rows", fn)
    want = None
    for k, c in enumerate("xyz"):
        xp = exp[c]
        ck = mk("and", mk("ge", xp, const(1.0)), mk("le", xp, mk("sub", E[k], mk("sub", S[k], const(1)))))
        want = ck if want is None else mk("and", want, ck)
    envs = []
    rng = np.random.default_rng(tm.SEED + 9)
    for i in range(60 * tm.N_MULT):
        env = {k: f(rng) for k, f in isam.items()}
        env["__salt__"] = 0.5
        ax = "xyz"[i % 3]
        k = i % 3
        for j_, c_ in enumerate("xyz"):  # the other two axes well inside the box: the axis under test decides
            if j_ != k:
                env[c_] = float(rng.integers(int(env[f"s{j_}"]), int(env[f"e{j_}"]) + 1))
        if i % 4 == 0:
            env[ax] = env[f"s{k}"]          # x' == 1: first voxel of the trimmed volume, kept
        elif i % 4 == 1:
            env[ax] = env[f"s{k}"] - 1      # x' == 0: dropped
        elif i % 4 == 2:
            env[ax] = env[f"e{k}"]          # x' == extent: last voxel, kept
        else:
            env[ax] = env[f"e{k}"] + 1      # beyond
        envs.append(env)
    v = tm.equivalent(no_sel(keep), want, n=len(envs), extra_envs=envs, seed_tag=q + "keep", need=30)
    ctx.count(60, {"keep predicate": tm.show(no_sel(keep))[:200], "equal": bool(v)})
    if not v:
        ctx.finding(q, "row filter", "exactly the particles with 1 <= x' <= end - (start - 1) on every axis must be kept (dropped iff x' < 1 "
                    "or x' > extent)", fn, m, witness=v.witness)


def o93(ctx):
    q = M + "clean_by_distance_to_points"
    m, fn = ctx.prog.func(q)
    ctx.touched(q)
    it = Interp(ctx.prog, assume=assume_map(BASE_A), no_inline=("cryomotl.Motl.write_out",))
    me = motl_obj(ctx.prog)
    pts = Frame(name="points", open_=True, prefix="pt:")
    pts.space = Space("points", how="root")
    it.run(q, [pts, P("radius")], {"feature_id": P("feature_id")}, self_obj=me)
    ev = [e for e in it.events if e.fn == q]
    loops = [e for e in ev if e.kind == "loop"]
    trees = [e for e in ev if e.kind == "call" and e.name.endswith("KDTree")]
    balls = [e for e in ev if e.kind == "call" and e.name == "method:query_ball_point"]
    drops = [e for e in ev if e.kind == "call" and e.name == "DataFrame.drop"]
    cats = [e for e in ev if e.kind == "call" and e.name == "pandas.concat"]
    # the radius test is inclusive (d <= r, as query_ball_point does); a nearest-neighbour query bounded by distance_upper_bound is strict
    strict = [e for e in ev if e.kind == "call" and e.name == "method:query" and "distance_upper_bound" in e.kwargs
              and tm.has_sym(to_term(e.kwargs["distance_upper_bound"]), "radius")]
    ctx.count(1)
    if strict:
        ctx.finding(q, strict[0].node, "the neighbours are searched with query(..., distance_upper_bound=radius), which only returns points "
                    "strictly closer than the radius: a particle exactly at the radius from a point is kept (within the radius means d <= r)",
                    strict[0].node, m)
        return
    if len(loops) != 2 or len(trees) != 1 or len(balls) != 1 or len(drops) != 1 or len(cats) != 1:
        raise Unsupported("clean_by_distance_to_points structure not recognised", fn)
    f_el = to_term(loops[0].extra["elem"])
    gmask = mk("eq", call("col", const("df"), sym("feature_id")), f_el)
    pmask = mk("eq", call("col", const("points"), sym("feature_id")), f_el)
    tdata = trees[0].args[0]
    ctx.count(1, {"tree data": tm.show(to_term(tdata))[:160]})
    ok = isinstance(tdata, Arr) and len(tdata.cols) == 3
    if ok:
        for k, c in enumerate("xyz"):
            col = tdata.cols[k]
            if not tm.equivalent(no_sel(col), mk("add", sym(c), sym("shift_" + c)), seed_tag="tp" + c):
                ok = False
            sels = tm.find(col, lambda n: n.op == "sel")
            if not sels or not all(len(s_.args) == 2 and s_.args[1] == gmask for s_ in sels):
                ok = False
    if not ok:
        ctx.finding(q, trees[0].node, "the tree must hold the complete positions (x+shift) of the particles of the group being processed",
                    trees[0].node, m)
    # the reference points: what the ball query is centred on -- the (n, 3) array handed to one batched query, or the array whose rows a
    # per-point loop walks over
    qarg = balls[0].args[1] if len(balls[0].args) > 1 else balls[0].kwargs.get("x")
    pit = qarg if isinstance(qarg, Arr) and qarg.ndim == 2 and not qarg.single_row else loops[1].args[0]
    ctx.count(1, {"query points": tm.show(to_term(pit))[:160]})
    okp = isinstance(pit, Arr) and len(pit.cols) == 3
    if okp:
        for k, c in enumerate("xyz"):
            col = pit.cols[k]
            if no_sel(col) != sym("pt:" + c):
                okp = False
            sels = tm.find(col, lambda n: n.op == "sel")
            if not sels or not all(len(s_.args) == 2 and s_.args[1] == pmask for s_ in sels):
                okp = False
    if not okp:
        ctx.finding(q, loops[1].node, "the reference points must be the x,y,z of the points whose group value equals the group being "
                    "processed (same tomogram)", loops[1].node, m)
    # ... and all of them: the only selection on the caller's point table is the one by group value
    chain_ = pit.space.chain() if isinstance(pit, Arr) and pit.space is not None else None
    ctx.count(1, {"rows of the query points": chain_})
    steps_ = []
    sp_ = pit.space if isinstance(pit, Arr) else None
    while sp_ is not None:
        steps_.append((sp_.name, sp_.how))
        sp_ = sp_.parent
    # exactly: the caller's table, one selection (the one by group value, checked above); conversions that keep every row apart
    extra_steps = [s_ for s_ in steps_[1:-1] if s_[1] not in ("same", "values")] if len(steps_) >= 2 else []
    if chain_ is not None and (extra_steps or any(w_ in chain_ for w_ in ("dedup", "sample", "head", "sort"))):
        if not any(w_ in chain_ for w_ in ("dedup", "sample", "head", "sort")) and not all(s_[1] in ("filter", "slice", "dedup") or s_[0] in ("dropna",) for s_ in extra_steps):
            raise Unsupported(f"the point table goes through a step that is not modelled before the per-group selection ({chain_})", loops[1].node)
        ctx.finding(q, loops[1].node, f"the point table is reduced before the per-group selection ({chain_}): every reference point the caller "
                    "gave counts -- a point that is dropped (a duplicate position of another group, a row with a missing value in some other column, "
                    "the rows beyond a cut) leaves the particles around it in the result", loops[1].node, m)
    r_ = balls[0].kwargs.get("r", balls[0].args[2] if len(balls[0].args) > 2 else None)
    ctx.count(1)
    if r_ is None or to_term(r_) != sym("radius"):
        ctx.finding(q, balls[0].node, "the ball radius must be the caller's radius (coefficient 1)", balls[0].node, m)
    ctx.count(1)
    if not tm.has_call(to_term(balls[0].args[0]), "scipy.spatial.KDTree"):
        ctx.finding(q, balls[0].node, "the ball query must run on the tree of the group's particles", balls[0].node, m)
    dfr = drops[0].args[0]
    ctx.count(1)
    if not (isinstance(dfr, Frame) and dfr.labels_positional and dfr.filters and dfr.filters[-1] == gmask):
        ctx.finding(q, drops[0].node, "tree positions are used as index labels: the table they are dropped from must be the group's "
                    "own subset, re-indexed 0..n-1 (reset_index=True)", drops[0].node, m)
    ctx.count(1, {"guards of the concat": [tm.show(g)[:60] for g in cats[0].guards]})
    extra = [g for g in cats[0].guards if not (g.op == "call" and g.args[0] == "in_loop")]
    if extra:
        ctx.finding(q, cats[0].node, "the survivors of a group are added to the result only under a condition "
                    f"({tm.show(extra[0])[:80]}): a group without reference points loses all its particles", cats[0].node, m)
    df = me.attrs["df"]
    ctx.count(1)
    if not isinstance(df, Frame) or df.written:
        ctx.finding(q, "result", "survivors must not be altered", fn, m)


def _mask_removal(ev):
    """how clean_by_tomo_mask takes the hits out of the whole list -> dict(form, field, values, restricted, node) or None
       form 'remove_feature': <list>.remove_feature(field, values)      (over the whole list)
       form 'filter':         <list>.df = <list>.df[~(<restriction> & <list>.df[field].isin(values))]"""
    rf = [e for e in ev if e.kind == "call" and e.name.endswith("Motl.remove_feature")]
    if len(rf) == 1:
        f_ = pyval(rf[0].args[0]) if is_pyconst(rf[0].args[0]) else None
        return {"form": "remove_feature", "field": f_, "values": no_sel(to_term(rf[0].args[1])), "restricted": None, "node": rf[0].node}
    if rf:
        return None
    fl = [e for e in ev if e.kind == "filter" and len(e.args) > 1 and tm.has_call(to_term(e.args[1]), "isin")]
    if len(fl) != 1:
        return None
    mk_ = to_term(fl[0].args[1])
    if mk_.op != "not":
        return None
    conj = []

    def flat(t_):
        if t_.op == "and":
            for a_ in t_.args:
                flat(a_)
        else:
            conj.append(t_)

    flat(mk_.args[0])
    isins = [c_ for c_ in conj if c_.op == "call" and c_.args[0] == "isin"]
    if len(isins) != 1 or isins[0].args[1].op != "sym":
        return None
    rest = [c_ for c_ in conj if c_ is not isins[0]]
    return {"form": "filter", "field": str(isins[0].args[1].args[0]), "values": no_sel(isins[0].args[2]), "restricted": rest, "node": fl[0].node}


def o94(ctx):
    q = M + "clean_by_tomo_mask"
    m, fn = ctx.prog.func(q)
    ctx.touched(q)

    def binz(it_, a, k, n, f):
        u = Unk(call("binarize", to_term(a[0])))
        u.rank = 3
        return u

    it = Interp(ctx.prog, assume=assume_map({k: v for k, v in BASE_A.items() if k != "len(tomos) != len(tomo_masks)"}),
                summaries={"cryocat.ioutils.tlt_load": lambda it_, a, k, n, f: Unk(call("tlt_load", to_term(a[0]))),
                           "cryocat.cryomap.binarize": binz}, no_inline=("cryomotl.Motl.write_out",))
    me = motl_obj(ctx.prog)
    it.run(q, [P("tomo_list"), Unk(sym("tomo_masks"))], {}, self_obj=me)
    ev = [e for e in it.events if e.fn == q]
    loops = [e for e in ev if e.kind == "loop"]
    if len(loops) != 1:
        raise Unsupported("tomogram loop of clean_by_tomo_mask not recognised", fn)
    seq_t = None
    it_t = to_term(loops[0].args[0])
    if it_t.op == "call" and it_t.args[0] == "enumerate":
        seq_t = it_t.args[1]
    lenchk = [e for e in ev if e.kind == "branch" and tm.has_call(to_term(e.args[0]), "len") and tm.has_sym(to_term(e.args[0]), "tomo_masks")]
    ctx.count(1, {"loop over": tm.show(it_t)[:100], "length check": tm.show(to_term(lenchk[0].args[0]))[:100] if lenchk else None})
    checked = None
    if lenchk:
        for n in tm.walk(to_term(lenchk[0].args[0])):
            if n.op == "call" and n.args[0] == "len" and not tm.has_sym(n, "tomo_masks"):
                checked = n.args[1]
    midx = [e for e in ev if e.kind == "index" and to_term(e.args[0]) == sym("tomo_masks")]
    ctx.count(1)
    if seq_t is None or not midx or checked is None or checked != seq_t \
            or to_term(midx[0].args[1]) != call("enum_index", seq_t):
        ctx.finding(q, midx[0].node if midx else loops[0].node, "mask i must belong to tomogram i of the list whose length was checked against "
                    "the mask list: the loop position must index the same, unfiltered tomogram list", midx[0].node if midx else loops[0].node, m,
                    looped=tm.show(it_t)[:120], checked=tm.show(checked)[:80] if checked is not None else None)
    t_el = call("each", seq_t) if seq_t is not None else None
    # bounds mask, evaluated
    rows = [e for e in ev if e.kind == "index" and e.name == "rows"]
    if not rows:
        raise Unsupported("bounds filter coords[within_bounds] not found", fn)
    wb = to_term(rows[0].args[1])
    shp = sorted({s_ for s_ in tm.symbols(wb) if ".n" in s_})
    if len(shp) != 3:
        raise Unsupported("mask shape symbols not found in the bounds filter", rows[0].node)
    base = {"x": 20.0, "y": 30.0, "z": 10.0, "shift_x": 0.0, "shift_y": 0.0, "shift_z": 0.0, "tomo_id": 1.0, "__salt__": 0.4,
            shp[0]: 40.0, shp[1]: 60.0, shp[2]: 25.0}
    for s_ in tm.symbols(wb):
        base.setdefault(s_, 1.0)
    bad = []
    cases = [("inside", {}, True)]
    for k, c in enumerate("xyz"):
        cases.append((f"negative {c}", {c: -3.0}, False))
        cases.append((f"{c} between -1 and 0 (a fractional position just below the first voxel: truncation toward zero would call it voxel 0)", {c: -0.4}, False))
        cases.append((f"{c} in the last voxel (dim - 0.4)", {c: base[shp[k]] - 0.4}, True))
        cases.append((f"{c} beyond the mask", {c: base[shp[k]] + 2.0}, False))
    cases.append(("z beyond shape[2] but within shape[1]", {"z": 40.0}, False))
    for label, upd, want in cases:
        env = dict(base)
        env.update(upd)
        got = bool(np.all(tm.evaluate(no_sel(wb), env)))
        ctx.count(1)
        if got != want:
            bad.append(label)
    if bad:
        ctx.finding(q, rows[0].node, f"the bounds filter must reject coordinates outside the mask on both sides of every axis (wrong for: {bad[:4]}): "
                    "negative indices wrap around in NumPy", rows[0].node, m)
    # mask lookup at (c0, c1, c2)
    look = [e for e in ev if e.kind == "index" and tm.has_call(to_term(e.args[0]), "binarize") and e.name == "getitem"]
    ctx.count(1)
    okl = False
    if look:
        idx = look[0].args[1]
        if isinstance(idx, Seq) and len(idx.items) == 3:
            # the voxel holding the position; the lookup only happens for positions inside the volume (>= 0), where truncation and floor agree
            inside_ = {s_: pos_sampler(0.0, 40.0) for c_ in "xyz" for s_ in (c_, "shift_" + c_)}
            okl = all(tm.equivalent(no_sel(to_term(idx.items[k])), T("floor", mk("add", sym(c), sym("shift_" + c))), samplers=inside_, seed_tag="lk" + c)
                      for k, c in enumerate("xyz"))
    if not okl:
        ctx.finding(q, look[0].node if look else fn, "the mask must be looked up at the particle's (x, y, z) voxel in axis order", look[0].node if look else fn, m)
    # removed iff mask value == 0 ; positions mapped back to the subset before .loc
    takes = [e for e in ev if e.kind == "take"]
    if len(takes) != 1:
        raise Unsupported("label lookup tm.df.loc[positions, ...] not found", fn)
    frame, pos = takes[0].args
    ctx.count(1, {"positions": tm.show(to_term(pos))[:140], "index into": frame.space.chain() if frame.space else None,
                  "positions of": pos.pos_of.chain() if getattr(pos, "pos_of", None) is not None else None})
    if getattr(pos, "pos_of", None) is None or frame.space is None or not pos.pos_of.same(frame.space) or not frame.labels_positional:
        ctx.finding(q, takes[0].node, "the positions found in the bounds-filtered coordinate array are used as row labels of the unfiltered "
                    "subset: once one particle is outside the mask the wrong particle is removed (map them through the kept positions "
                    "first)", takes[0].node, m)
    ctx.count(1)
    zt = to_term(getattr(pos, "indexed_by", None) or pos)
    if not tm.contains(zt, lambda n: n.op == "eq" and tm.cval(n.args[1]) in (0, 0.0) and tm.has_call(n.args[0], "binarize")):
        ctx.finding(q, takes[0].node, "exactly the particles sitting on zero-valued mask voxels must be removed (mask value == 0)", takes[0].node, m)
    rm = _mask_removal(ev)
    ctx.count(1, {"removal form": rm and rm["form"], "field": rm and rm["field"]})
    if rm is None:
        # the hits leave the list in another way (row labels, a keep array, ...): which rows that removes is not read off here
        raise Unsupported("clean_by_tomo_mask: how the particles on zero voxels are taken out of the list is not recognised (neither one remove_feature call "
                          "nor one row filter of the form ~(<restriction> & <field>.isin(<values>)))", fn)
    # the field the rows are removed by and the values handed over belong together: the subset's own values of that field
    if rm["field"] is None or rm["values"] != sym(rm["field"]):
        ctx.finding(q, rm["node"], "the particles must be removed by the values the hits carry in the very field the removal selects on "
                    f"(field {rm['field']!r}, values {tm.show(rm['values'])[:60]})", rm["node"], m)
    subs = [e for e in ev if e.kind == "call" and e.name.endswith("Motl.get_motl_subset")]
    ctx.count(1)
    if not subs or t_el is None or to_term(subs[0].args[0]) != t_el:
        ctx.finding(q, subs[0].node if subs else fn, "the particles of tomogram t must be selected for mask t", subs[0].node if subs else fn, m)


def o911(ctx):
    """cleaning by a tomogram mask removes exactly the particles of tomogram t that sit on zero voxels 'and keeps all others': what is taken out of the
    WHOLE list must identify rows of tomogram t.  A removal of the whole list's rows by one field's values alone (remove_feature(field, values of the
    hits)) also removes every particle of another tomogram that carries one of these values -- subtomogram numbers restart per tomogram in lists
    concatenated from per-tomogram picking (repeated field values are part of 'all particle lists')."""
    q = M + "clean_by_tomo_mask"
    m, fn = ctx.prog.func(q)
    ctx.touched(q, M + "remove_feature")

    def binz(it_, a, k, n, f):
        u = Unk(call("binarize", to_term(a[0])))
        u.rank = 3
        return u

    it = Interp(ctx.prog, assume=assume_map({k: v for k, v in BASE_A.items() if k != "len(tomos) != len(tomo_masks)"}),
                summaries={"cryocat.ioutils.tlt_load": lambda it_, a, k, n, f: Unk(call("tlt_load", to_term(a[0]))),
                           "cryocat.cryomap.binarize": binz}, no_inline=("cryomotl.Motl.write_out", "cryomotl.Motl.remove_feature"))
    me = motl_obj(ctx.prog)
    it.run(q, [P("tomo_list"), Unk(sym("tomo_masks"))], {}, self_obj=me)
    ev = [e for e in it.events if e.fn == q]
    rm = _mask_removal(ev)
    loops = [e for e in ev if e.kind == "loop"]
    if rm is None or rm["field"] is None or len(loops) != 1:
        raise Unsupported("clean_by_tomo_mask: removal of the hits from the list not recognised (neither one remove_feature call nor one row filter "
                          "~(<restriction> & <field>.isin(<values>)))", fn)
    it_t = to_term(loops[0].args[0])
    seq_t = it_t.args[1] if it_t.op == "call" and it_t.args[0] == "enumerate" else it_t
    t_el = call("each", seq_t)
    f_ = rm["field"]
    restricted = bool(rm["restricted"]) and any(c_.op == "eq" and c_.args[0] == sym("tomo_id") and c_.args[1] == t_el for c_ in rm["restricted"])
    ctx.count(1, {"removal": f"{rm['form']}: field {f_!r}, values {tm.show(rm['values'])[:60]}", "restricted to the tomogram of the mask": restricted})
    if rm["form"] == "filter" and rm["restricted"] and not restricted:
        raise Unsupported("clean_by_tomo_mask: the row filter carries a restriction that is not `tomo_id == <tomogram of this iteration>`: not decided", rm["node"])
    if f_ != "tomo_id" and not restricted:
        ctx.finding(q, "removal by one field over the whole list",
                    f"the particles on zero voxels of tomogram t are removed from the WHOLE list by their {f_} values alone: every particle of "
                    f"another tomogram that carries one of these {f_} values is removed as well (numbers that restart in every tomogram are common in lists "
                    "concatenated from per-tomogram picking); the property keeps all particles that do not sit on a zero voxel of their own tomogram's mask",
                    rm["node"], m)


def o96(ctx):
    """ioutils.tlt_load: 'If it is a numpy array, it will be returned as is' -- the id list paired with the masks keeps the caller's order"""
    q = "ioutils.tlt_load"
    m, fn = ctx.prog.func(q)
    ctx.touched(q)
    for kind, test in (("ndarray", "isinstance(input_tlt, np.ndarray)"), ("list", "isinstance(input_tlt, list)")):
        for srt in (True, False):
            S = Space(f"the caller's {kind}", how="root")
            src = Val(sym("ids"), space=S)
            src.pykind = kind
            amap = {"isinstance(input_tlt, np.ndarray)": kind == "ndarray", "isinstance(input_tlt, list)": kind == "list",
                    "isinstance(input_tlt, str)": False, "input_tlt.size == 0": False, "len(input_tlt) == 0": False, "sort_angles": srt}
            it = Interp(ctx.prog, assume=assume_map(amap))
            r = it.run(q, [src], {"sort_angles": K(srt)})
            got = r.ret
            what = f"tlt_load({kind}, sort_angles={srt}) returns the values as given"
            if got is None or not isinstance(got, (Val, Unk, Arr)):
                raise Unsupported(f"{what}: result not recognised", fn)
            same_rows_same_order(ctx, q, got, src, what, fn, m)
            ctx.count(1)
            t = to_term(got)
            if not tm.contains(t, lambda n: n == sym("ids")) or tm.contains(t, lambda n: n.op == "call" and str(n.args[0]) in ("numpy.sort", "numpy.unique", "sorted")):
                ctx.finding(q, what, f"{what}: got {tm.show(t)[:80]}", fn, m)


def o98x(ctx):
    """Warp XML files: the values of a node come back one per line of that node's text, all of them, in the file's order -- no other node of
    the file decides which are returned (entry i goes with image i of the stack)"""
    q = "ioutils.get_data_from_warp_xml"
    m, fn = ctx.prog.func(q)
    ctx.touched(q)
    it = Interp(ctx.prog)
    r = it.run(q, [K("ts.xml"), P("node_name")], {"node_level": K(1)})
    t = to_term(r.ret)
    look = [e for e in it.events if e.kind == "call" and e.name in ("method:find", "method:findall", "method:iter", "method:findtext", "method:iterfind")
            and tm.has_call(to_term(e.args[0]), "xml.etree.ElementTree.parse")]
    own = [e for e in look if len(e.args) > 1 and to_term(e.args[1]) == sym("node_name")]
    ctx.count(1, {"node lookups": [tm.show(to_term(e.args[1]))[:40] if len(e.args) > 1 else "?" for e in look], "returned": tm.show(t)[:120]})
    if not own:
        raise Unsupported("lookup of the requested node in get_data_from_warp_xml not recognised", fn)
    other = [e for e in look if e not in own]
    if other:
        ctx.finding(q, other[0].node, f"the values returned for a node depend on another node of the file ({tm.show(to_term(other[0].args[1]))[:40] if len(other[0].args) > 1 else 'a second lookup'}): "
                    "every consumer pairs entry i with image i of the stack it was given, so the list must hold one value per line of the "
                    "requested node, none left out", other[0].node, m)
    thin = [n for n in tm.walk(t) if n.op == "call" and str(n.args[0]) in ("numpy.unique", "builtins.sorted", "numpy.sort", "builtins.set", "builtins.zip", "numpy.flip")]
    ctx.count(1)
    if thin:
        ctx.finding(q, "returned values", f"the values of the node are re-ordered / thinned ({tm.show(thin[0])[:60]}) before they are returned", fn, m)


def o98(ctx):
    """loaders used with per-image data: file values come back complete (sorted only on request, never thinned); array / list doses as given"""
    o98x(ctx)
    q = "ioutils.tlt_load"
    m, fn = ctx.prog.func(q)
    ctx.touched(q)
    THIN = ("numpy.unique", "unique", "numpy.argsort", "builtins.sorted", "builtins.set", "numpy.flip")
    for srt in (False, True):
        it = Interp(ctx.prog, no_inline=("ioutils.one_value_per_line_read",))
        r = it.run(q, [K("series_017.tlt")], {"sort_angles": K(srt)})
        t = to_term(r.ret)
        calls_ = [str(n.args[0]) for n in tm.walk(t) if n.op == "call"]
        sorts = calls_.count("numpy.sort")
        ctx.count(1, {"tilt file, sort_angles": srt, "returned": tm.show(t)[:100]})
        bad_thin = [c_ for c_ in calls_ if c_ in THIN]
        if not any(c_.endswith("one_value_per_line_read") for c_ in calls_) or bad_thin or sorts != (1 if srt else 0):
            ctx.finding(q, f"file input, sort_angles={srt}", f"tlt_load(file, sort_angles={srt}) must return every value of the file"
                        f"{', sorted ascending' if srt else ' in file order'} (repeated angles kept); it returns {tm.show(t)[:100]}", fn, m)
    # the file reader behind both loaders: every line of the file is a value (no header line, nothing skipped), first column, file order
    q1 = "ioutils.one_value_per_line_read"
    m1, fn1 = ctx.prog.func(q1)
    ctx.touched(q1)
    it = Interp(ctx.prog, assume=assume_map({"not os.path.isfile(file_path)": False, "data_df.empty": False}))
    r = it.run(q1, [K("series_017.tlt")], {})
    rc_ = [e for e in it.events if e.kind == "call" and e.name in ("pandas.read_csv", "pandas.read_table", "numpy.loadtxt", "numpy.genfromtxt")]
    ctx.count(1, {"value file reader": [(e.name, {k: tm.show(to_term(v))[:30] for k, v in e.kwargs.items()}) for e in rc_]})
    if len(rc_) != 1:
        raise Unsupported("file reading call of one_value_per_line_read not recognised", fn1)
    e = rc_[0]
    if e.name.startswith("pandas."):
        hdr = e.kwargs.get("header")
        if hdr is None or not (is_pyconst(hdr) and pyval(hdr) is None):
            ctx.finding(q1, e.node, "the value file has no header line: it must be read with header=None on every path, otherwise its first value is "
                        f"taken for a column title and lost (header={tm.show(to_term(hdr)) if hdr is not None else 'default (first line)'})", e.node, m1)
    for kw in ("skiprows", "skipfooter", "nrows", "max_rows", "usecols"):
        v_ = e.kwargs.get(kw)
        ctx.count(1)
        if v_ is not None and not (is_pyconst(v_) and pyval(v_) in (0, None)):
            ctx.finding(q1, e.node, f"every line of the value file is a value: {kw}={tm.show(to_term(v_))[:40]} drops some", e.node, m1)
    q2 = "ioutils.total_dose_load"
    m2, fn2 = ctx.prog.func(q2)
    ctx.touched(q2)
    for kind in ("ndarray", "list"):
        S_ = Space(f"the caller's {kind} of doses", how="root")
        src = Val(sym("doses_in"), space=S_)
        src.pykind = kind
        amap = {"isinstance(input_dose, np.ndarray)": kind == "ndarray", "isinstance(input_dose, list)": kind == "list",
                "isinstance(input_dose, (np.ndarray, list))": True, "isinstance(input_dose, str)": False}
        r = Interp(ctx.prog, assume=assume_map(amap)).run(q2, [src], {})
        t = to_term(r.ret)
        bare = t
        while bare.op == "call" and str(bare.args[0]) in ("numpy.asarray", "numpy.array", ".copy", ".astype") and len(bare.args) > 1:
            bare = bare.args[1]
        ctx.count(1, {"dose input": kind, "returned": tm.show(t)[:100]})
        if bare != sym("doses_in"):
            ctx.finding(q2, f"{kind} input", f"total_dose_load({kind}) must hand the doses back as given (image i is filtered with dose i, a dose of 0 "
                        f"leaves the image unchanged); it returns {tm.show(t)[:120]}", fn2, m2)


def o97(ctx):
    """masks given as files: binarize hands back the map in the (x, y, z) axis order the particle coordinates index it with"""
    from .C11 import perms_in
    q = "cryomap.binarize"
    m, fn = ctx.prog.func(q)
    ctx.touched(q, "cryomap.read")
    for ext in ("mrc", "em"):
        it = Interp(ctx.prog)
        r = it.run(q, [K(f"masks/tomo_017.{ext}")], {})
        t = to_term(r.ret)
        ps = perms_in(t)
        ctx.count(1, {"mask file": ext, "axis permutations on the way": ps})
        if ps != [(2, 1, 0)]:
            ctx.finding(q, f"axis order of a .{ext} mask", f"a mask read from a .{ext} file must come back in (x, y, z) order (exactly one (2,1,0) permutation of the "
                        f"library's (z, y, x) block): the voxel of a particle is looked up as mask[x, y, z]; found {ps}", fn, m)


def o99(ctx):
    """ioutils.dimensions_load: a table with one row per tomogram (tomo_id, x, y, z) comes back as given -- the columns named in this order,
    every row with its own tomogram number -- whether or not a list of tomograms is passed as well; one x y z triplet is repeated for
    every listed tomogram"""
    q = "ioutils.dimensions_load"
    m, fn = ctx.prog.func(q)
    ctx.touched(q)
    for tomo_idx in (None, P("tomos")):
        it = Interp(ctx.prog, no_inline=("ioutils.tlt_load",))
        f = Frame({k: sym(f"in:{k}") for k in range(4)}, [0, 1, 2, 3], name="dims_in")
        f.space = Space("dims_in", how="root")
        r = it.run(q, [f], {} if tomo_idx is None else {"tomo_idx": tomo_idx})
        d = r.ret
        if not isinstance(d, Frame) or d.order is None:
            raise Unsupported("dimensions_load(<N x 4 table>) does not return a table", fn)
        what = "with a list of tomograms" if tomo_idx is not None else "without a list of tomograms"
        ctx.count(1, {"N x 4 table " + what: {c: tm.show(t)[:60] for c, t in d.cols.items()}})
        if list(d.order) != ["tomo_id", "x", "y", "z"]:
            ctx.finding(q, "column names", f"an N x 4 table must come back with the columns tomo_id, x, y, z in this order (got {list(d.order)})", fn, m)
            continue
        for k, c in enumerate(d.order):
            ctx.count(1)
            if d.cols[c] != sym(f"in:{k}"):
                ctx.finding(q, f"column {c}", f"dimensions_load(<N x 4 table>) {what}: column {c} must be column {k} of the table as given -- every "
                            f"row keeps its own tomogram number and dimensions; it becomes {tm.show(d.cols[c])[:100]}", last_store(it, d, c) or fn, m)
        if tomo_idx is None:
            same_rows_same_order(ctx, q, d, f, "dimensions_load(<N x 4 table>) keeps the rows of the table", fn, m)
    # a tilt.com file: x, y = FULLIMAGE, z = THICKNESS as written in the file, and no other entry of the file has a say (the array that is filled
    # element by element is outside the interpreter's model, so this branch is read off the syntax tree)
    blocks = [n for n in ast.walk(fn) if isinstance(n, ast.If) and isinstance(n.test, ast.Call) and isinstance(n.test.func, ast.Attribute)
              and n.test.func.attr == "endswith" and n.test.args and isinstance(n.test.args[0], ast.Constant) and n.test.args[0].value == ".com"]
    if len(blocks) != 1:
        raise Unsupported("dimensions_load: branch for .com files not found", fn)
    body = blocks[0].body
    rd = [a_ for st_ in body for a_ in ast.walk(st_) if isinstance(a_, ast.Assign) and isinstance(a_.value, ast.Call)
          and (ctx.prog.resolve(m, a_.value.func) or "").endswith("imod_com_read") and isinstance(a_.targets[0], ast.Name)]
    if len(rd) != 1:
        raise Unsupported("dimensions_load: call of imod_com_read in the .com branch not found", blocks[0])
    dname = rd[0].targets[0].id
    keys = []
    for st_ in body:
        for x_ in ast.walk(st_):
            if isinstance(x_, ast.Subscript) and isinstance(x_.value, ast.Name) and x_.value.id == dname and isinstance(x_.slice, ast.Constant):
                keys.append((x_.slice.value, x_))
            if isinstance(x_, ast.Call) and isinstance(x_.func, ast.Attribute) and isinstance(x_.func.value, ast.Name) and x_.func.value.id == dname \
                    and x_.args and isinstance(x_.args[0], ast.Constant):
                keys.append((x_.args[0].value, x_))
    ctx.count(1, {"entries of tilt.com read for the dimensions": sorted({k_ for k_, _ in keys})})
    for k_, node_ in keys:
        if k_ not in ("FULLIMAGE", "THICKNESS"):
            ctx.finding(q, node_, f"dimensions_load(<tilt.com>) also reads the entry {k_!r}: the dimensions are FULLIMAGE (x, y) and THICKNESS (z) as written "
                        "in the file -- the wedge list and the out-of-bounds test use them together with SHIFT from the same file, in the same (unbinned) "
                        "pixels", node_, m)
    if {k_ for k_, _ in keys} >= {"FULLIMAGE", "THICKNESS"}:
        arith = [x_ for st_ in body for x_ in ast.walk(st_) if isinstance(x_, (ast.BinOp, ast.AugAssign))]
        ctx.count(1)
        if arith and not any(k_ not in ("FULLIMAGE", "THICKNESS") for k_, _ in keys):
            ctx.finding(q, arith[0], f"the .com branch computes with the dimensions (`{norm_text(arith[0])[:60]}`): they must be handed on as written in the file",
                        arith[0], m)
    else:
        ctx.finding(q, blocks[0], "dimensions_load(<tilt.com>) must take x, y from FULLIMAGE and z from THICKNESS", blocks[0], m)
    # one triplet for all tomograms
    it = Interp(ctx.prog, no_inline=("ioutils.tlt_load",))
    f = Frame({k: sym(f"in:{k}") for k in range(3)}, [0, 1, 2], name="dims_in")
    f.space = Space("dims_in", how="root")
    f.single_row = True
    r = it.run(q, [f], {"tomo_idx": P("tomos")})
    d = r.ret
    ctx.count(1, {"1 x 3 table with a list of tomograms": {c: tm.show(t)[:80] for c, t in d.cols.items()} if isinstance(d, Frame) else repr(d)[:80]})
    if not isinstance(d, Frame) or "tomo_id" not in d.cols:
        raise Unsupported("dimensions_load(<1 x 3>, tomo_idx) does not return a table with a tomo_id column", fn)
    if not tm.has_call(d.cols["tomo_id"], "cryocat.ioutils.tlt_load") or not tm.has_sym(d.cols["tomo_id"], "tomos"):
        ctx.finding(q, "tomo_id of the repeated triplet", "one x y z triplet must be repeated for the listed tomograms, each row numbered with its tomogram "
                    f"(got {tm.show(d.cols['tomo_id'])[:100]})", fn, m)
    for k, c in enumerate("xyz"):
        ctx.count(1)
        t_ = d.cols.get(c)
        okc = t_ is not None and tm.has_sym(t_, f"in:{k}") and not any(tm.has_sym(t_, f"in:{j}") for j in range(3) if j != k)
        if t_ is not None and not okc and t_.op == "call" and t_.args[0] == "colof" and tm.cval(t_.args[2]) == k:
            # column k of the triplet repeated along the rows: np.repeat(<x y z>, n, axis=0)
            rep = t_.args[1]
            vecs = [n for n in tm.walk(rep) if n.op == "vec" and list(n.args) == [sym("in:0"), sym("in:1"), sym("in:2")]]
            ax = rep.args[-1] if rep.op == "call" else None
            ax = ax.args[-1] if ax is not None and ax.op in ("kw", "call") else ax
            okc = rep.op == "call" and rep.args[0] == "numpy.repeat" and bool(vecs) and rep.args[1] == vecs[0] and ax is not None and tm.cval(ax) == 0
        if not okc:
            ctx.finding(q, f"column {c} of the repeated triplet", f"the repeated {c} must be the triplet's entry {k} (got "
                        f"{tm.show(d.cols[c])[:100] if c in d.cols else 'absent'})", fn, m)


def _obligations():
    return [
        Obligation("O9.20", "accessors of the particle list: get_coordinates = (x,y,z) + shifts, get_angles / get_rotations = the stored zxz angles, fill stores values as given (shared with C05)", lambda ctx: __import__('spec.C05', fromlist=['accessors']).accessors(ctx), floor=20),
        Obligation("O9.9", "dimensions_load: an N x 4 table comes back as given (own tomogram number per row, columns tomo_id x y z), one triplet is repeated per listed tomogram", o99, floor=10),
        Obligation("O9.11", "clean_by_tomo_mask: what is removed from the whole list identifies rows of the tomogram whose mask was consulted (not one field's values alone)", o911, floor=1),
        Obligation("O9.10", "helpers the filters remove through: remove_feature keeps exactly the rows that differ (exact !=), subsets select == (shared with C08)", lambda ctx: _c08.o81(ctx), floor=10),
        Obligation("O9.8", "tlt_load(file) returns every value (sorted only on request); total_dose_load hands arrays / lists back as given", o98, floor=4),
        Obligation("O9.7", "binarize returns file masks in (x,y,z) axis order (the order the coordinates index)", o97, floor=2),
        Obligation("O9.6", "tlt_load returns list / array input as given: tomogram i stays paired with mask i", o96, floor=8),
        Obligation("O9.1", "out-of-bounds removal: both sides, per axis, against the particle's own tomogram", o91, floor=30),
        Obligation("O9.2", "trimming: x' = x - (start-1), kept iff 1 <= x' <= extent on every axis (ties)", o92, floor=70),
        Obligation("O9.3", "point cleaner: group subsets on both tables, complete positions, caller's radius, positional drop, unconditional concat", o93, floor=7),
        Obligation("O9.4", "mask cleaner: mask i with tomogram i, two-sided bounds, axis order, zero voxels, positions mapped back", o94, floor=14),
    ]


def obligations():
    return _obligations() + [constructors_obligation(['cryomotl.Motl', 'cryomotl.EmMotl']), labels_obligation("C09"), selectors_obligation("C09"), mutations_obligation("C09"), loopstate_obligation("C09"), effects_obligation("C09"), plumbing_obligation("C09"), overrides_obligation("C09"), options_obligation("C09"), handlers_obligation("C09")]
