"""C20 -- membrane thickness pairs: one-to-one, forward, within range and cone"""
from .common import *

TITLE = "Membrane thickness pairs: one-to-one, forward, within range and cone"
EXPLANATION = (
    "measure_thickness_cpu, the numba kernel find_matches_parallel and the CUDA kernel find_all_possible_matches_kernel "
    "(reached only statically) are interpreted abstractly; the conjunction of guards under which a candidate pair is "
    "recorded is extracted as a closed form of the offset vector d = target - source, the source normal n and the angle "
    "parameter, and compared by evaluation on decisive samples (unit normals, offsets at angles 0..80 degrees around the "
    "cone boundary, max_angle 1..30 degrees, forward and backward) with: <d,n> > 0 and angle(d,n) < max_angle (and |d| < "
    "max_thickness/voxel_size where the kernel tests it); all three kernels must agree with it. Row-space typing: "
    "tree-local neighbour indices must be mapped through target_indices / source_indices before they index the point "
    "arrays. The candidate ball must be centred on the source points with radius max_thickness/voxel_size. "
    "process_matches_cpu2cpu: matches sorted by distance before the greedy loop, a pair accepted only if neither point is "
    "taken, both marked taken with a marker that can never read as 'free', tuple layout (dist, source, target) agreed "
    "between producer and consumer, thickness = distance * voxel_size. Direction '2to1' swaps the two surfaces. measure_thickness_cpu returns the results of the one-to-one assignment unchanged, keyed by the source point.")
ASSUMPTIONS = TRUSTED + ["normals are unit vectors (stated input contract); invariance under rigid motion follows from using only "
                         "dot products and norms"]

MT = "memthick."


def make_inputs():
    S = Space("points", how="root")
    pts = Arr([sym("px"), sym("py"), sym("pz")], 2, S)
    nrm = Arr([sym("nx"), sym("ny"), sym("nz")], 2, S)
    return S, pts, nrm


def normalise(cond):
    """rename the extracted point / normal accesses to d = (dx,dy,dz) pieces: target coords t*, source coords s*, normal n*"""
    mp = {}
    for n in tm.walk(cond):
        if n.op == "call" and n.args[0] in ("at", "rowelem", "elem") and isinstance(n.args[1], T) and n.args[1].op == "sym" \
                and n.args[1].args[0] in ("px", "py", "pz", "nx", "ny", "nz"):
            base = n.args[1].args[0]
            idx = tm.show(n.args[2])
            mp.setdefault((base, idx), n)
    return mp


def cone_samples(rng, with_range=True):
    from scipy.spatial.transform import Rotation as R
    envs = []
    for alpha in (1.0, 5.0, 10.0, 20.0, 30.0):
        thetas = list(rng.uniform(0, 80, 10)) + [alpha * 0.5, alpha * 0.9, alpha * 0.98, alpha * 1.02, alpha * 1.1, alpha + 2, alpha + 4, alpha + 6,
                                                  40.0, 44.0, 46.0, 60.0, 95.0, 120.0, 175.0]
        for th in thetas:
            Rm = R.random(random_state=int(rng.integers(0, 2 ** 31))).as_matrix()
            n = Rm @ np.array([0, 0, 1.0])
            phi = rng.uniform(0, 2 * np.pi)
            length = float(rng.uniform(0.5, 9.0))
            dloc = length * np.array([np.sin(np.radians(th)) * np.cos(phi), np.sin(np.radians(th)) * np.sin(phi), np.cos(np.radians(th))])
            d = Rm @ dloc
            s = rng.uniform(-20, 20, 3)
            envs.append({"alpha": alpha, "theta": th, "n": n, "d": d, "s": s, "t": s + d, "len": length})
    # range test: the Euclidean distance decides (max = 10 in decide_cone), not the projection on the normal: off-axis targets inside the
    # cone with proj < max <= dist must be rejected
    for alpha, th, length in ((30.0, 25.0, 10.2), (30.0, 28.0, 11.0), (20.0, 18.0, 10.3), (30.0, 25.0, 9.9), (10.0, 0.0, 10.5), (10.0, 5.0, 9.95),
                              (30.0, 29.0, 11.3)):
        Rm = R.random(random_state=int(rng.integers(0, 2 ** 31))).as_matrix()
        n = Rm @ np.array([0, 0, 1.0])
        phi = rng.uniform(0, 2 * np.pi)
        dloc = length * np.array([np.sin(np.radians(th)) * np.cos(phi), np.sin(np.radians(th)) * np.sin(phi), np.cos(np.radians(th))])
        d = Rm @ dloc
        s = rng.uniform(-20, 20, 3)
        envs.append({"alpha": alpha, "theta": th, "n": n, "d": d, "s": s, "t": s + d, "len": length})
    return envs


def eval_accept(cond, acc, sample, extra):
    env = {"__salt__": 0.5}
    for (base, idx), node in acc.items():
        pass
    env.update(extra)
    return env


def accept_condition(guards):
    g = [x for x in guards if not (x.op == "call" and x.args[0] == "in_loop")]
    c = None
    for x in g:
        c = x if c is None else mk("and", c, x)
    return c, g


def decide_cone(ctx, q, label, cond, role_of, m, node, max_vox_sym=None, cos_sym=None, alpha_sym=None):
    """cond: extracted accept condition; role_of: maps accessor term -> ('t'|'s'|'n', k)"""
    rng = np.random.default_rng(tm.SEED + 20)
    bad = []
    n_eval = 0
    for smp in cone_samples(rng):
        mapping = {}
        for node_t, (role, k) in role_of.items():
            mapping[node_t] = const(float({"t": smp["t"], "s": smp["s"], "n": smp["n"]}[role][k]))
        c2 = tm.subst(cond, mapping)
        env = {"__salt__": 0.5}
        maxvox = 10.0
        if max_vox_sym:
            env[max_vox_sym] = maxvox
        if cos_sym:
            env[cos_sym] = float(np.cos(np.radians(smp["alpha"])))
        if alpha_sym:
            env[alpha_sym] = smp["alpha"]
        for s_ in tm.symbols(c2):
            env.setdefault(s_, 1.0)
        try:
            got = bool(np.all(tm.evaluate(c2, env)))
        except tm.EvalError as e:
            raise Unsupported(f"accept condition not evaluable: {e}", node)
        want = smp["theta"] < smp["alpha"] and np.dot(smp["d"], smp["n"]) > 0 and (smp["len"] < maxvox)
        n_eval += 1
        if got != want:
            bad.append((round(smp["alpha"], 1), round(float(smp["theta"]), 2), got))
    ctx.count(n_eval, {"kernel": label, "samples": n_eval, "disagreements": len(bad)})
    if bad:
        ctx.finding(q, "cone / direction test", f"{label}: a candidate must be accepted iff it lies ahead of the source along its normal "
                    f"and the angle between the offset and the normal is below max_angle; disagreements (max_angle, actual angle, accepted): "
                    f"{bad[:5]}", node, m)


def roles(cond, tgt_pred, src_pred):
    out = {}
    for n in tm.walk(cond):
        if n.op == "call" and n.args[0] in ("at", "rowelem", "elem") and isinstance(n.args[1], T) and n.args[1].op == "sym":
            base = n.args[1].args[0]
            if base in ("px", "py", "pz"):
                k = "xyz".index(base[1])
                idx = n.args[2]
                if tgt_pred(idx):
                    out[n] = ("t", k)
                elif src_pred(idx):
                    out[n] = ("s", k)
            elif base in ("nx", "ny", "nz"):
                out[n] = ("n", "xyz".index(base[1]))
    return out


def o201(ctx):
    S, pts, nrm = make_inputs()
    # ---- CPU
    q = MT + "measure_thickness_cpu"
    m, fn = ctx.prog.func(q)
    ctx.touched(q, MT + "find_matches_parallel", MT + "find_all_possible_matches_kernel")
    it = Interp(ctx.prog, assume=assume_map({"num_threads is not None": False, "logger": False, "np.sum(valid_mask) > 0": False,
                                             "valid_matches >= max_matches_per_point": False}), no_inline=("memthick.process_matches_cpu2cpu",))
    it.run(q, [pts, nrm, Val(sym("mask1"), space=S), Val(sym("mask2"), space=S), P("voxel_size")],
           {"max_thickness_nm": P("max_nm"), "max_angle_degrees": P("alpha"), "direction": K("1to2")})
    aps = [e for e in it.events if e.kind == "call" and e.name == "list.append" and e.fn == q]
    if len(aps) != 1:
        raise Unsupported("recording of candidate matches not recognised (cpu)", fn)
    cond, _ = accept_condition(aps[0].guards)
    rl = roles(cond, lambda i: tm.has_sym(i, "mask2"), lambda i: tm.has_sym(i, "mask1") and not tm.has_sym(i, "mask2"))
    if len(rl) < 9:
        raise Unsupported("point / normal accesses in the cpu accept condition not recognised", aps[0].node)
    # the cpu path pre-filters by the ball query: emulate the range test in the expectation by a generous max (no range guard here)
    decide_cone_cpu = tm.subst(cond, {})
    decide_cone(ctx, q, "measure_thickness_cpu", cond_with_range(cond, rl), rl, m, aps[0].node, max_vox_sym="__maxvox__", alpha_sym="alpha")
    # ---- numba kernel
    q2 = MT + "find_matches_parallel"
    m2, fn2 = ctx.prog.func(q2)
    it2 = Interp(ctx.prog)
    tidx = Val(sym("tidx"), space=Space("T", how="root"), pos_of=S)
    it2.run(q2, [pts, nrm, Val(sym("smask"), space=S), Val(sym("tmask"), space=S), tidx, P("maxvox"), P("cosa"), Unk(sym("md")), Unk(sym("mi")), Unk(sym("mc"))], {})
    st = [e for e in it2.events if e.kind == "store" and tm.show(to_term(e.args[0])).startswith("loopvar:match_distances")]
    if len(st) != 1:
        raise Unsupported("recording of candidate matches not recognised (numba)", fn2)
    cond2, g2 = accept_condition([g for g in st[0].guards if not tm.has_sym(g, "md") and not tm.has_sym(g, "smask")])
    rl2 = roles(cond2, lambda i: tm.has_sym(i, "tidx"), lambda i: not tm.has_sym(i, "tidx"))
    if len(rl2) < 9:
        raise Unsupported("point / normal accesses in the numba accept condition not recognised", st[0].node)
    decide_cone(ctx, q2, "find_matches_parallel (numba)", cond2, rl2, m2, st[0].node, max_vox_sym="maxvox", cos_sym="cosa")
    # ---- CUDA twin
    q3 = MT + "find_all_possible_matches_kernel"
    m3, fn3 = ctx.prog.func(q3)
    it3 = Interp(ctx.prog)
    it3.run(q3, [pts, nrm, Val(sym("smask"), space=S), Val(sym("tmask"), space=S), Unk(sym("md")), Unk(sym("mi")), Unk(sym("mc")), P("maxvox"), P("cosa"), P("maxm")], {})
    st3 = [e for e in it3.events if e.kind == "store" and tm.show(to_term(e.args[0])).startswith("loopvar:match_distances")]
    if len(st3) != 1:
        raise Unsupported("recording of candidate matches not recognised (cuda)", fn3)
    cond3, g3 = accept_condition([g for g in st3[0].guards if not tm.has_sym(g, "maxm") and not tm.has_sym(g, "smask") and not tm.has_sym(g, "tmask")])
    rl3 = roles(cond3, lambda i: i.op == "sym" and i.args[0].startswith("ri@"), lambda i: i.op == "sym" and i.args[0].startswith("tid@"))
    if len(rl3) < 9:
        raise Unsupported("point / normal accesses in the cuda accept condition not recognised", st3[0].node)
    decide_cone(ctx, q3, "find_all_possible_matches_kernel (CUDA)", cond3, rl3, m3, st3[0].node, max_vox_sym="maxvox", cos_sym="cosa")
    # the cosine handed to the kernels is cos(radians(max_angle))
    n_c = 0
    for qq, mm, ff in ctx.prog.functions():
        if not qq.startswith(MT):
            continue
        for a in ast.walk(ff):
            if isinstance(a, ast.Assign) and isinstance(a.targets[0], ast.Name) and a.targets[0].id == "max_angle_cos":
                n_c += 1
                it_ = Interp(ctx.prog)
                from sa.interp import Frame_
                v = it_.eval(a.value, Frame_(qq, mm, {"max_angle_degrees": P("alpha")}))
                ok = tm.equivalent(to_term(v), T("cos", T("radians", sym("alpha"))), samplers={"alpha": lambda r: float(r.uniform(1, 30))}, seed_tag="cos")
                if not ok:
                    ctx.finding(qq, a, "the cone parameter handed to the kernels must be cos(radians(max_angle_degrees))", a, mm)
    ctx.count(n_c, {"max_angle_cos definitions": n_c})


def cond_with_range(cond, rl):
    """the cpu path enforces the range through the KD-tree ball query; add |d| < max for a uniform expectation"""
    t = {k: None for k in range(3)}
    s = {k: None for k in range(3)}
    for node, (role, k) in rl.items():
        if role == "t":
            t[k] = node
        elif role == "s":
            s[k] = node
    d2 = None
    for k in range(3):
        dk = mk("sub", t[k], s[k])
        d2 = mk("mul", dk, dk) if d2 is None else mk("add", d2, mk("mul", dk, dk))
    return mk("and", cond, mk("lt", T("sqrt", d2), sym("__maxvox__")))


def o202(ctx):
    """candidate radius, row spaces, direction swap"""
    S, pts, nrm = make_inputs()
    q = MT + "measure_thickness_cpu"
    m, fn = ctx.prog.func(q)
    for direction, smask, tmask in (("1to2", "mask1", "mask2"), ("2to1", "mask2", "mask1")):
        it = Interp(ctx.prog, assume=assume_map({"num_threads is not None": False, "logger": False, "np.sum(valid_mask) > 0": False,
                                                 "valid_matches >= max_matches_per_point": False}), no_inline=("memthick.process_matches_cpu2cpu",))
        it.run(q, [pts, nrm, Val(sym("mask1"), space=S), Val(sym("mask2"), space=S), P("voxel_size")],
               {"max_thickness_nm": P("max_nm"), "max_angle_degrees": P("alpha"), "direction": K(direction)})
        trees = [e for e in it.events if e.kind == "call" and e.name.endswith("KDTree")]
        balls = [e for e in it.events if e.kind == "call" and e.name == "method:query_ball_point"]
        if len(trees) != 1 or len(balls) != 1:
            raise Unsupported("tree / ball query of measure_thickness_cpu not recognised", fn)
        td, qp, rad = trees[0].args[0], balls[0].args[1], balls[0].args[2]
        tsp, qsp = getattr(td, "space", None), getattr(qp, "space", None)
        ctx.count(1, {"direction": direction, "tree on": tsp.chain() if tsp else None, "queried with": qsp.chain() if qsp else None,
                      "radius": tm.show(to_term(rad))})
        okt = tsp is not None and getattr(tsp, "mask", None) is None and tm.show(to_term(td)) == "vec(px, py, pz)" and tmask in tsp.name
        okq = qsp is not None and tm.show(to_term(qp)) == "vec(px, py, pz)" and smask in qsp.name
        if not okt or not okq:
            ctx.finding(q, balls[0].node, f"direction {direction!r}: the tree must hold the points of the target surface and be queried with the "
                        f"(unshifted) points of the source surface ({'surfaces swapped for 2to1' if direction == '2to1' else 'surface 1 -> 2'})",
                        balls[0].node, m, tree=tsp.chain() if tsp else None, query=tm.show(to_term(qp))[:100])
        v = tm.equivalent(to_term(rad), mk("div", sym("max_nm"), sym("voxel_size")), samplers={"voxel_size": pos_sampler(0.5, 3.0)}, seed_tag="rad")
        ctx.count(1)
        if not v:
            ctx.finding(q, balls[0].node, "the candidate radius must be max_thickness converted to voxels (max_thickness_nm / voxel_size): "
                        "every target within the maximum thickness must be a candidate", balls[0].node, m, radius=tm.show(to_term(rad))[:100])
        # row-space typing
        n = 0
        for e in it.events:
            if e.kind != "index" or e.fn != q:
                continue
            base, idx = e.args[0], e.args[-1]
            pos = getattr(idx, "pos_of", None)
            if pos is None:
                continue
            n += 1
            bs = getattr(base, "space", None)
            if bs is None or not pos.same(bs):
                ctx.finding(q, e.node, f"a position into '{pos.chain()}' indexes an array living in '{bs.chain() if bs else '?'}': tree-local "
                            "neighbour indices must be mapped through target_indices / source_indices first", e.node, m)
        ctx.count(n, {"direction": direction, "position-indexing sites typed": n})
        if n < 6:
            raise Unsupported("fewer position-indexing sites than expected in measure_thickness_cpu", fn)
        # the normal is the source's
        aps = [e for e in it.events if e.kind == "call" and e.name == "list.append" and e.fn == q]
        tup = aps[0].args[1] if aps else None
        ctx.count(1)
        if not aps:
            raise Unsupported("no candidate is recorded on the interpreted path of measure_thickness_cpu (list.append not reached): not decided", fn)
        if aps and not (isinstance(tup, Seq) and len(tup.items) == 3):
            # the candidates are kept in another layout (parallel lists, an array): what each piece holds is not read off a tuple here
            raise Unsupported("the candidate matches are not recorded as one tuple per candidate: layout not decided", aps[0].node)
        if isinstance(tup, Seq) and len(tup.items) == 3:
            s_t, t_t = to_term(tup.items[1]), to_term(tup.items[2])
            known_s = tm.has_sym(s_t, smask) or tm.has_sym(s_t, tmask)
            known_t = tm.has_sym(t_t, smask) or tm.has_sym(t_t, tmask)
            if not (known_s and known_t):
                # an index that reaches the tuple through a form the interpretation does not follow back to the masks (a zip of the index array with
                # the neighbour lists, ...): which surface it belongs to is not read off here
                raise Unsupported("the source / target index recorded with a candidate is not traced back to the surface masks: not decided", aps[0].node)
        if not (isinstance(tup, Seq) and len(tup.items) == 3 and tm.has_sym(to_term(tup.items[1]), smask) and tm.has_sym(to_term(tup.items[2]), tmask)
                and tm.contains(to_term(tup.items[0]), lambda x: x.op == "sqrt")):
            ctx.finding(q, aps[0].node if aps else fn, "candidates must be recorded as (distance, source index, target index)", aps[0].node if aps else fn, m)


def o202_returns(ctx):
    """measure_thickness_cpu hands back what the one-to-one assignment produced: results keyed by the SOURCE point of the search (for '2to1' a
    point of surface 2), unchanged"""
    q = MT + "measure_thickness_cpu"
    m, fn = ctx.prog.func(q)
    src = lambda n: " ".join(ast.unparse(n).split())
    calls = [a for a in ast.walk(fn) if isinstance(a, ast.Assign) and isinstance(a.value, ast.Call) and (ctx.prog.resolve(m, a.value.func) or src(a.value.func)).endswith("process_matches_cpu2cpu")]
    if len(calls) != 1 or not (isinstance(calls[0].targets[0], ast.Tuple) and all(isinstance(e, ast.Name) for e in calls[0].targets[0].elts)):
        raise Unsupported("measure_thickness_cpu: unpacking of process_matches_cpu2cpu's results not recognised", fn)
    names = [e.id for e in calls[0].targets[0].elts]
    rets = [r for r in ast.walk(fn) if isinstance(r, ast.Return) and r.value is not None]
    nested = {id(x) for n in ast.walk(fn) if isinstance(n, (ast.FunctionDef, ast.Lambda)) and n is not fn for x in ast.walk(n)}
    rets = [r for r in rets if id(r) not in nested]
    ctx.count(1, {"results of the assignment step": names, "returned": [src(r.value)[:60] for r in rets]})
    ok_ret = any(isinstance(r.value, ast.Tuple) and [src(e) for e in r.value.elts] == names for r in rets)
    if not ok_ret:
        raise Unsupported("measure_thickness_cpu does not return the unpacked results of process_matches_cpu2cpu as they are named", fn)
    # between the assignment step and the return nothing rebinds or writes into the three results
    for n in ast.walk(fn):
        if id(n) in nested or not isinstance(n, (ast.Assign, ast.AugAssign)) or n is calls[0] or n.lineno < calls[0].lineno:
            continue
        tg = n.targets if isinstance(n, ast.Assign) else [n.target]
        hit = [x.id for t_ in tg for x in ast.walk(t_) if isinstance(x, ast.Name) and x.id in names and (isinstance(x.ctx, ast.Store) or isinstance(t_, ast.Subscript))]
        ctx.count(1)
        if hit:
            ctx.finding(q, n, f"`{src(n)[:80]}` changes `{hit[0]}` after the one-to-one assignment: thickness, validity and partner of a measurement belong to "
                        "the source point of the search (row i describes source point i; for '2to1' a point of surface 2) -- re-keying or editing them afterwards "
                        "breaks 'source on the source surface, partner on the target surface' and the equivalence of '2to1' with exchanged masks", n, m)


def o203(ctx):
    q = MT + "process_matches_cpu2cpu"
    m, fn = ctx.prog.func(q)
    ctx.touched(q)
    src = lambda n: " ".join(ast.unparse(n).split())
    loops = [n for n in fn.body if isinstance(n, ast.For)]
    if len(loops) != 1:
        raise Unsupported("greedy loop of process_matches_cpu2cpu not recognised", fn)
    lp = loops[0]
    # sorted by distance before the loop; tuple layout
    before = fn.body[:fn.body.index(lp)]
    def guarded_sorts(stmts):
        """`x.sort()` at the top level, or under `if x:` / `if len(x) > 0:` (an empty list needs no sorting)"""
        out = []
        for s_ in stmts:
            if isinstance(s_, ast.If) and not s_.orelse:
                t_ = s_.test
                nonempty = (isinstance(t_, ast.Name) and t_.id == src(lp.iter)) or \
                    (empty_test_polarity(t_) is False and src(lp.iter) in {x.id for x in ast.walk(t_) if isinstance(x, ast.Name)})
                if nonempty:
                    out.extend(guarded_sorts(s_.body))
            else:
                out.append(s_)
        return out

    before = guarded_sorts(before)
    sorts = [s for s in before if isinstance(s, ast.Expr) and isinstance(s.value, ast.Call) and src(s.value.func).endswith(".sort")
             and src(s.value.func).split(".")[0] == src(lp.iter)] + \
            [s for s in before if isinstance(s, ast.Assign) and "sorted(" in src(s.value) and src(s.targets[0]) == src(lp.iter)]
    ctx.count(1, {"sort before the greedy loop": [src(s) for s in sorts]})
    ok_sort = bool(sorts) and not any(k.arg in ("reverse",) and getattr(k.value, "value", None) for s in sorts for k in ast.walk(s) if isinstance(k, ast.keyword))
    if not ok_sort:
        ctx.finding(q, lp, "the candidate matches must be sorted by increasing distance before the greedy assignment", lp, m)
    names = [e.id for e in lp.target.elts] if isinstance(lp.target, ast.Tuple) else []
    if len(names) != 3:
        # the loop reads the candidates in another way (indexing, a named tuple): the roles of the three entries are not identified here
        if ctx.cur.findings:
            return
        raise Unsupported("the greedy loop does not unpack its candidates as (distance, source index, target index): layout not decided", lp)
    mc, fc = ctx.prog.func(MT + "measure_thickness_cpu")
    # the producer: the list handed to process_matches_cpu2cpu as first argument, and the tuples appended to it
    handoff = [n for n in ast.walk(fc) if isinstance(n, ast.Call) and (ctx.prog.resolve(mc, n.func) or "").endswith("process_matches_cpu2cpu")]
    if len(handoff) != 1 or not handoff[0].args or not isinstance(handoff[0].args[0], ast.Name):
        raise Unsupported("hand-off of the candidate list to process_matches_cpu2cpu not recognised", fc)
    lst = handoff[0].args[0].id
    prod = [n for n in ast.walk(fc) if isinstance(n, ast.Call) and isinstance(n.func, ast.Attribute) and n.func.attr == "append"
            and isinstance(n.func.value, ast.Name) and n.func.value.id == lst and n.args and isinstance(n.args[0], ast.Tuple)]

    def role(name_node):
        """distance: defined through a square root; source / target index: defined in the outer / inner neighbour loop"""
        if not isinstance(name_node, ast.Name):
            return "?"
        defs = [a for a in ast.walk(fc) if isinstance(a, ast.Assign) and isinstance(a.targets[0], ast.Name) and a.targets[0].id == name_node.id]
        if len(defs) != 1:
            return "?"
        if any(isinstance(c_, ast.Call) and src(c_.func).endswith("sqrt") for c_ in ast.walk(defs[0].value)):
            return "distance"
        depth, p_ = 0, mc.parents.get(defs[0])
        while p_ is not None and p_ is not fc:
            depth += isinstance(p_, ast.For)
            p_ = mc.parents.get(p_)
        return {1: "source", 2: "target"}.get(depth, "?") if isinstance(defs[0].value, ast.Subscript) else "?"

    proles = [role(e) for e in prod[0].args[0].elts] if len(prod) == 1 else None
    ctx.count(1, {"consumer tuple": names, "producer tuple": [src(e) for e in prod[0].args[0].elts] if prod else None, "producer roles": proles})
    if proles is None or "?" in proles:
        raise Unsupported(f"roles of the producer's tuple elements not recognised ({[src(e) for e in prod[0].args[0].elts] if prod else None})", fc)
    if len(names) != 3 or proles != ["distance", "source", "target"]:
        ctx.finding(q, lp, "producer and consumer must agree on the tuple layout (distance, source index, target index): the distance must "
                    "come first so that sorting orders by distance", lp, m, producer_roles=proles)
    d_name, s_name, t_name = names if len(names) == 3 else ("dist", "source_idx", "target_idx")
    ifs = [n for n in lp.body if isinstance(n, ast.If)]
    if len(ifs) != 1:
        raise Unsupported("acceptance test of the greedy loop not recognised", lp)
    test = ifs[0].test
    body = ifs[0].body
    # taken-tests and markers.  Two spellings of the same test: `if free(s) and free(t): <assign>` and the guard clause
    # `if taken(s) or taken(t): continue` followed by <assign>
    guard_clause = len(ifs[0].body) == 1 and isinstance(ifs[0].body[0], ast.Continue) and not ifs[0].orelse
    checks = {}
    if guard_clause:
        body = lp.body[lp.body.index(ifs[0]) + 1:]
        parts = test.values if isinstance(test, ast.BoolOp) and isinstance(test.op, ast.Or) else [test]
        for c in parts:
            if isinstance(c, ast.Compare) and len(c.ops) == 1 and isinstance(c.ops[0], ast.In) and isinstance(c.left, ast.Name):
                checks[c.left.id] = ("set", src(c.comparators[0]))
            elif isinstance(c, ast.Subscript) and isinstance(c.slice, ast.Name):
                checks[c.slice.id] = ("flag", src(c.value))
            else:
                raise Unsupported(f"taken-test {src(c)!r} not recognised", c)
    else:
        conj = test.values if isinstance(test, ast.BoolOp) and isinstance(test.op, ast.And) else [test]
        for c in conj:
            if isinstance(c, ast.Compare) and isinstance(c.ops[0], ast.NotIn) and isinstance(c.left, ast.Name):
                checks[c.left.id] = ("set", src(c.comparators[0]))
            elif isinstance(c, ast.UnaryOp) and isinstance(c.op, ast.Not) and isinstance(c.operand, ast.Subscript) and isinstance(c.operand.slice, ast.Name):
                checks[c.operand.slice.id] = ("flag", src(c.operand.value))
    ctx.count(1, {"acceptance test": src(test), "taken tests": checks})
    if set(checks) != {s_name, t_name}:
        ctx.finding(q, test, "a pair may be accepted only if neither the source nor the target is already assigned", test, m)
    for idx_name, (kind, holder) in checks.items():
        ctx.count(1)
        if kind == "set":
            marks = [s for s in body if isinstance(s, ast.Expr) and isinstance(s.value, ast.Call) and src(s.value.func) == holder + ".add"
                     and s.value.args and src(s.value.args[0]) == idx_name]
            if not marks:
                ctx.finding(q, ifs[0], f"an accepted pair must mark {idx_name} as assigned ({holder}.add)", ifs[0], m)
        else:
            marks = [s for s in body if isinstance(s, ast.Assign) and src(s.targets[0]) == f"{holder}[{idx_name}]"]
            if not marks:
                ctx.finding(q, ifs[0], f"an accepted pair must mark {idx_name} as assigned in {holder}", ifs[0], m)
            else:
                v = marks[0].value
                truthy = isinstance(v, ast.Constant) and bool(v.value)
                if not truthy:
                    ctx.finding(q, marks[0], f"the 'assigned' marker stored in {holder}[{idx_name}] is {src(v)}, which can be falsy (index 0): "
                                f"the test `not {holder}[{idx_name}]` then reads an assigned point as free and uses it twice", marks[0], m)
    # thickness = dist * voxel_size
    st = [s for s in body if isinstance(s, ast.Assign) and src(s.targets[0]).endswith(f"[{s_name}]") and isinstance(s.value, ast.Name) and s.value.id == d_name]
    after = fn.body[fn.body.index(lp) + 1:]
    scale = [s.value for s in after if isinstance(s, ast.Assign) and st and src(s.targets[0]) == src(st[0].targets[0]).split("[")[0]]
    if not scale and st:
        # scaled in the return expression itself: the first returned element
        rets = [s for s in after if isinstance(s, ast.Return) and isinstance(s.value, ast.Tuple) and s.value.elts]
        scale = [r_.value.elts[0] for r_ in rets if not isinstance(r_.value.elts[0], ast.Name)]
    ctx.count(1, {"thickness": [src(s) for s in st] + [src(s) for s in scale]})
    ok = bool(st) and bool(scale)
    if ok:
        it = Interp(ctx.prog)
        from sa.interp import Frame_
        arr = src(st[0].targets[0]).split("[")[0]
        v = it.eval(scale[0], Frame_(q, m, {arr: P("d"), "voxel_size": P("voxel_size")}))
        ok = bool(tm.equivalent(to_term(v), mk("mul", sym("d"), sym("voxel_size")), samplers={"voxel_size": pos_sampler(0.3, 3)}, seed_tag="thick"))
    if not ok:
        ctx.finding(q, fn, "a pair's thickness must be its distance (voxels) multiplied by the voxel size", fn, m)
    pp = [s for s in body if isinstance(s, ast.Assign) and src(s.targets[0]).endswith(f"[{s_name}]") and isinstance(s.value, ast.Name) and s.value.id == t_name]
    ctx.count(1)
    if not pp:
        ctx.finding(q, ifs[0], "the accepted target must be recorded for its source", ifs[0], m)


def o204(ctx):
    """the per-source cap counts *accepted* candidates: the counter that is compared with the cap is incremented exactly where a candidate is
    recorded (same enclosing conditions), never for candidates that merely passed an earlier test"""
    src = lambda n: " ".join(ast.unparse(n).split())
    found = 0
    for q in (MT + "measure_thickness_cpu", MT + "find_matches_parallel"):
        if not ctx.prog.has(q):
            continue
        m, fn = ctx.prog.func(q)
        ctx.touched(q)

        def chain(n):
            out, ch, p = [], n, m.parents.get(n)
            while p is not None and p is not fn:
                if isinstance(p, ast.If):
                    out.append((id(p), "body" if any(ch is x for x in p.body) else "orelse"))
                ch, p = p, m.parents.get(p)
            return tuple(out)

        class _Inc:  # `c += 1` and `c = c + 1` alike
            def __init__(self, node, name):
                self.node, self.target, self.lineno = node, ast.Name(id=name), node.lineno

        incs = [_Inc(n, n.target.id) for n in ast.walk(fn) if isinstance(n, ast.AugAssign) and isinstance(n.op, ast.Add) and isinstance(n.target, ast.Name)
                and isinstance(n.value, ast.Constant) and n.value.value == 1]
        incs += [_Inc(n, n.targets[0].id) for n in ast.walk(fn) if isinstance(n, ast.Assign) and len(n.targets) == 1 and isinstance(n.targets[0], ast.Name)
                 and isinstance(n.value, ast.BinOp) and isinstance(n.value.op, ast.Add)
                 and {src(n.value.left), src(n.value.right)} == {n.targets[0].id, "1"}]
        caps = {}
        for c in ast.walk(fn):
            if isinstance(c, ast.Compare) and len(c.ops) == 1 and isinstance(c.left, ast.Name) and isinstance(c.comparators[0], ast.Name):
                if "max_matches" in c.comparators[0].id:
                    caps[c.left.id] = c
                elif "max_matches" in c.left.id:  # mirrored spelling: max_matches > count
                    caps[c.comparators[0].id] = c
        for inc in incs:
            if inc.target.id not in caps:
                continue
            name = inc.target.id
            # where a candidate is recorded: an append of a tuple, or a store indexed by the counter
            rec = [n for n in ast.walk(fn) if (isinstance(n, ast.Call) and isinstance(n.func, ast.Attribute) and n.func.attr == "append" and n.args
                                               and isinstance(n.args[0], ast.Tuple))
                   or (isinstance(n, ast.Assign) and isinstance(n.targets[0], ast.Subscript)
                       and any(isinstance(x, ast.Name) and x.id == name for x in ast.walk(n.targets[0].slice)))]
            if not rec:
                raise Unsupported(f"{q}: where a candidate is recorded not recognised", inc.node)
            found += 1
            ctx.count(1, {"function": q, "counter": name, "recorded at lines": [r_.lineno for r_ in rec], "incremented at line": inc.lineno})
            if not any(chain(r_) == chain(inc.node) for r_ in rec):
                ctx.finding(q, inc.node, f"the counter `{name}` that is compared with the cap is incremented under other conditions than the ones under which a "
                            "candidate is recorded: candidates that are not accepted use up the cap, and sources in dense regions lose admissible targets",
                            inc.node, m)
    if not found:
        raise Unsupported("cap counter of the candidate kernels not found")


def o205(ctx):
    """the voxel size the pipeline measures with is the spacing stored in the segmentation's header, in nm (Angstrom / 10), digit for digit:
    thickness = distance in voxels x voxel size, so a rounded voxel size is a relative error on every thickness"""
    q = "memthick.read_segmentation"
    m, fn = ctx.prog.func(q)
    ctx.touched(q)
    it = Interp(ctx.prog)
    r = it.run(q, [K("seg.mrc")], {})
    if not (isinstance(r.ret, Seq) and len(r.ret.items) >= 2):
        raise Unsupported("read_segmentation does not return (segmentation, voxel_size, ...)", fn)
    vs = to_term(r.ret.items[1])
    hdr = [n for n in tm.walk(vs) if n.op == "call" and n.args[0] == ".x" and tm.has_call(n, ".voxel_size")]
    if not hdr:
        raise Unsupported(f"voxel size returned by read_segmentation does not come from the header: {tm.show(vs)[:100]}", fn)
    got = tm.subst(vs, {hdr[0]: sym("spacing")})
    v = tm.equivalent(got, mk("div", sym("spacing"), const(10.0)), samplers={"spacing": lambda g: float(g.choice([7.84, 13.48, 10.68, 8.0, 3.3712, 21.001, 1.0]))},
                      n=14, tol=1e-12, seed_tag=q)
    ctx.count(1, {"voxel size": tm.show(vs)[:120], "equals header spacing / 10": bool(v)})
    if not v:
        ctx.finding(q, "voxel size", f"the voxel size must be the header's spacing in nm (Angstrom / 10) as it is; the code returns {tm.show(got)[:100]}: "
                    "7.84 A becomes 0.78 nm when rounded to two decimals, and every thickness is off by that ratio", fn, m, witness=v.witness)
    data = to_term(r.ret.items[0])
    ctx.count(1)
    core = data
    while core.op == "call" and core.args[0] in (".copy", "numpy.array", "numpy.asarray", "numpy.ascontiguousarray") and len(core.args) >= 2:
        core = core.args[1]
    if not (core.op == "call" and core.args[0] == ".data"):
        ctx.finding(q, "segmentation", f"the labels must be the file's data as stored; the code returns {tm.show(data)[:100]}", fn, m)


def _obligations():
    return [
        Obligation("O20.5", "read_segmentation: voxel size = header spacing / 10 (nm) unrounded, labels as stored", o205, floor=2),
        Obligation("O20.4", "the per-source cap counts accepted candidates only (counter incremented where a candidate is recorded)", o204, floor=2),
        Obligation("O20.1", "all three kernels accept a candidate iff it is ahead of the source and inside the cone of half-angle max_angle", o201, floor=300),
        Obligation("O20.2", "candidate ball centred on the source points with radius max_thickness/voxel_size; row-space typing; 2to1 swap", o202, floor=16),
        Obligation("O20.6", "measure_thickness_cpu returns the results of the one-to-one assignment unchanged (keyed by the source point)", o202_returns, floor=1),
        Obligation("O20.3", "greedy one-to-one assignment: sorted by distance, taken tests and markers, tuple layout, thickness scaling", o203, floor=7),
    ]


def obligations():
    return _obligations() + [labels_obligation("C20"), selectors_obligation("C20"), mutations_obligation("C20"), loopstate_obligation("C20"), effects_obligation("C20"), plumbing_obligation("C20"), overrides_obligation("C20"), options_obligation("C20"), handlers_obligation("C20")]
