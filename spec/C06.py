"""C06 -- rotation geometry primitives agree with SO(3) ground truth"""
from .common import *

TITLE = "Rotation geometry primitives agree with SO(3) ground truth"
EXPLANATION = (
    "angular_distance, cone_distance, inplane_distance, euler_angles_to_normals and normals_to_euler_angles are interpreted "
    "abstractly over symbolic rotations / angle triples / normals; the extracted closed forms are compared by random "
    "interpretation with the SO(3) ground truth (rotation angle of R1^T R2 from the trace; angle between the z-axis images; "
    "R e_z; the z-axis of zxz(phi,theta,psi) equal to n/|n| for normals of any length, including axis-aligned and +-z ones). "
    "The sign of a non-canonical quaternion is interpreted as arbitrary. Every arccos/arcsin argument in these functions "
    "must be confined to [-1,1] by clip/minimum/maximum (interval evaluation of the argument term), which is what makes "
    "the distance of equal rotations exactly 0 instead of NaN.")
ASSUMPTIONS = TRUSTED + ["symmetry, invariance under a common rotation and the triangle inequality follow from the closed form "
                         "angle(R1^T R2) and are not decided separately; c_symmetry > 1 branches are outside the statement"]

RS = {"R1": rot_sampler, "R2": rot_sampler}


def true_angle(a, b):
    m = T("matmul", T("transpose", a), b)
    return T("degrees", T("arccos", T("clip", mk("div", mk("sub", T("trace", m), const(1.0)), const(2.0)), const(-1.0), const(1.0))))


def interval(t):
    """conservative value interval of a term (only the operations that confine a value are interpreted)"""
    inf = float("inf")
    if not isinstance(t, T):
        return (-inf, inf)
    if t.op == "const" and isinstance(t.args[0], (int, float)):
        return (t.args[0], t.args[0])
    if t.op == "abs":
        lo, hi = interval(t.args[0])
        return (0.0, max(abs(lo), abs(hi)))
    if t.op == "clip":
        lo, hi = tm.cval(t.args[1]), tm.cval(t.args[2])
        return (lo if lo is not None else -inf, hi if hi is not None else inf)
    if t.op in ("minimum", "maximum"):
        (a0, a1), (b0, b1) = interval(t.args[0]), interval(t.args[1])
        return (min(a0, b0), min(a1, b1)) if t.op == "minimum" else (max(a0, b0), max(a1, b1))
    if t.op == "ite":
        (a0, a1), (b0, b1) = interval(t.args[1]), interval(t.args[2])
        return (min(a0, b0), max(a1, b1))
    if t.op in ("sin", "cos"):
        return (-1.0, 1.0)
    if t.op in ("sqrt", "norm", "square"):
        return (0.0, inf)
    return (-inf, inf)


def clamp_rule(ctx, q, term, m, fn):
    n = 0
    for node in tm.walk(term):
        if node.op in ("arccos", "arcsin"):
            n += 1
            lo, hi = interval(node.args[0])
            ctx.count(1, {"function": q, node.op + " argument interval": [lo, hi]})
            if lo < -1.0 or hi > 1.0:
                ctx.finding(q, f"{node.op} argument", f"the argument of {node.op} is not confined to [-1, 1] (interval {lo}..{hi}): "
                            "rounding can push a dot product of unit vectors/quaternions beyond 1, giving NaN for equal or "
                            "opposite orientations instead of 0 / 180", fn, m, argument=tm.show(node.args[0])[:200])
    return n


def o62(ctx):
    q = "geom.angular_distance"
    m, fn = ctx.prog.func(q)
    ctx.touched(q)
    it = Interp(ctx.prog)
    r = it.run(q, [Rot(sym("R1")), Rot(sym("R2"))], {})
    if not (isinstance(r.ret, Seq) and len(r.ret.items) == 2):
        raise Unsupported("angular_distance does not return (angle, dist)", fn)
    got = to_term(r.ret.items[0])
    # near-identical pairs: the distance is zero only for equal rotations (no threshold may swallow small angles)
    from scipy.spatial.transform import Rotation as _R
    rng_ = np.random.default_rng(tm.SEED + 62)
    near = []
    for d_ in (0.004, 0.01, 0.02, 0.03, 0.05, 0.2, 1.0):
        R1_ = _R.random(random_state=int(rng_.integers(0, 2 ** 31)))
        ax_ = rng_.normal(size=3)
        ax_ /= np.linalg.norm(ax_)
        R2_ = R1_ * _R.from_rotvec(np.radians(d_) * ax_)
        near.append({"R1": R1_.as_matrix(), "R2": R2_.as_matrix(), "__salt__": 0.5})
    vn = tm.equivalent(got, true_angle(sym("R1"), sym("R2")), n=len(near), extra_envs=near, tol=1e-6, seed_tag=q + "near", need=len(near))
    ctx.count(len(near), {"near-identical pairs (0.004 .. 1 degree)": len(near), "equal": bool(vn)})
    if not vn:
        ctx.finding(q, "angle of near-identical rotations", "rotations a few thousandths of a degree apart must get their true (non-zero) distance: "
                    "the distance is zero only for equal rotations", fn, m, witness=vn.witness)
    v = tm.equivalent(got, true_angle(sym("R1"), sym("R2")), samplers=RS, n=40, tol=1e-5, seed_tag=q)
    ctx.count(1, {"extracted": tm.show(got)[:200], "specified": "degrees(arccos((trace(R1^T R2) - 1) / 2))", "equal": bool(v)})
    if not v:
        ctx.finding(q, "returned angle", "the angular distance must equal the rotation angle of the relative rotation R1^-1 R2 "
                    "(2*acos|q1.q2| with the quaternion sign identified)", fn, m, witness=v.witness, extracted=tm.show(got)[:300])
    if clamp_rule(ctx, q, got, m, fn) == 0:
        raise Unsupported("no arccos in the extracted angular distance", fn)
    # array inputs are converted with the requested convention (default zxz, degrees)
    it2 = Interp(ctx.prog)
    a1 = Arr([sym("a0"), sym("a1"), sym("a2")], 2)
    a2 = Arr([sym("b0"), sym("b1"), sym("b2")], 2)
    r2 = it2.run(q, [a1, a2], {})
    got2 = to_term(r2.ret.items[0])
    want2 = true_angle(euler_term("zxz", sym("a0"), sym("a1"), sym("a2")), euler_term("zxz", sym("b0"), sym("b1"), sym("b2")))
    sam = {k: angle_sampler for k in ("a0", "a1", "a2", "b0", "b1", "b2")}
    v2 = tm.equivalent(got2, want2, samplers=sam, n=30, tol=1e-5, seed_tag=q + "arr")
    ctx.count(1, {"Euler-angle inputs": "zxz, degrees", "equal": bool(v2)})
    if not v2:
        ctx.finding(q, "conversion of Euler-angle inputs", "array inputs must be read as zxz Euler angles in degrees", fn, m,
                    witness=v2.witness)


def o63(ctx):
    q = "geom.cone_distance"
    m, fn = ctx.prog.func(q)
    ctx.touched(q, "geom.inplane_distance", "geom.cone_inplane_distance", "geom.compare_rotations")
    it = Interp(ctx.prog)
    r = it.run(q, [Rot(sym("R1")), Rot(sym("R2"))], {})
    got = to_term(r.ret)
    # a batch of rotations (N of them) must give, pair by pair, the same closed form as a single pair
    batch = Space("batch", how="root")
    itb = Interp(ctx.prog)
    rb = itb.run(q, [Rot(sym("R1"), space=batch), Rot(sym("R2"), space=batch)], {})
    gotb = to_term(rb.ret)
    vb = tm.equivalent(gotb, got, samplers=RS, n=30, tol=1e-6, seed_tag=q + "batch")
    ctx.count(1, {"batch of rotations == single pair": bool(vb)})
    if not vb:
        ctx.finding(q, "batch input", "for a batch of rotations the cone distance of each pair must be the one computed for that pair alone "
                    "(the z-axis image R e_z of every rotation in the batch)", fn, m, witness=vb.witness, extracted=tm.show(gotb)[:300])
    ez = T("vec", const(0.0), const(0.0), const(1.0))
    z1, z2 = T("rotapply", sym("R1"), ez), T("rotapply", sym("R2"), ez)
    want = T("degrees", T("arccos", T("clip", T("dot", z1, z2), const(-1.0), const(1.0))))
    # the ends of the range: equal z-axes (equal orientations, in-plane differences only) give 0, opposite z-axes 180
    from scipy.spatial.transform import Rotation as _R
    rng_ = np.random.default_rng(tm.SEED + 63)
    ends = []
    for i in range(16):
        R1_ = rot_sampler(rng_)
        tw = _R.from_euler("z", float(rng_.uniform(-180, 180)), degrees=True).as_matrix()
        flip = _R.from_euler("x", 180.0, degrees=True).as_matrix()
        ends.append({"R1": R1_, "R2": R1_ if i % 4 == 0 else R1_ @ tw if i % 2 == 0 else R1_ @ flip @ tw})
    v = tm.equivalent(got, want, samplers=RS, n=40, tol=1e-5, seed_tag=q, extra_envs=ends)
    ctx.count(1, {"specified": "degrees(arccos(<R1 e_z, R2 e_z>))", "equal": bool(v), "pairs with equal / opposite z-axes": len(ends)})
    if not v:
        ctx.finding(q, "returned cone angle", "the cone distance must be the angle between the two z-axis images (0..180 degrees)",
                    fn, m, witness=v.witness, extracted=tm.show(got)[:300])
    if clamp_rule(ctx, q, got, m, fn) == 0 and not tm.contains(got, lambda n: n.op in ("arctan2",)):
        raise Unsupported("no arccos/arctan2 in the extracted cone distance", fn)
    # in-plane distance: range and zero for equal orientations
    q2 = "geom.inplane_distance"
    m2, fn2 = ctx.prog.func(q2)
    it = Interp(ctx.prog)
    r = it.run(q2, [Rot(sym("R1")), Rot(sym("R2"))], {})
    got = to_term(r.ret)
    rng = np.random.default_rng(tm.SEED + 5)
    bad = None
    for i in range(40):
        env = {"R1": rot_sampler(rng), "R2": rot_sampler(rng)}
        val = float(np.asarray(tm.evaluate(got, env)))
        ctx.count(1)
        if not (-1e-9 <= val <= 180.0 + 1e-9):
            bad = ("range", val)
        env["R2"] = env["R1"]
        val0 = float(np.asarray(tm.evaluate(got, env)))
        if abs(val0) > 1e-9:
            bad = ("equal orientations", val0)
    # equal orientations at gimbal lock (theta in {0, 180}) given by two spellings of the same rotation: (a, 0, b) = (a+b, 0, 0) and
    # (a, 180, b) = (a-b, 180, 0).  The two matrices agree up to rounding noise; the distance must still vanish
    from scipy.spatial.transform import Rotation as _R
    for i in range(24):
        a_, b_ = float(rng.uniform(-180, 180)), float(rng.uniform(-180, 180))
        th = (0.0, 180.0)[i % 2]
        e1 = [a_, th, b_]
        e2 = [a_ + b_, th, 0.0] if th == 0.0 else [a_ - b_, th, 0.0]
        env = {"R1": _R.from_euler("zxz", e1, degrees=True).as_matrix(), "R2": _R.from_euler("zxz", e2, degrees=True).as_matrix()}
        import warnings as _w
        with _w.catch_warnings():
            _w.simplefilter("ignore")
            val0 = float(np.asarray(tm.evaluate(got, env)))
        ctx.count(1)
        if not (abs(val0) <= 1e-6):
            bad = (f"equal orientations at gimbal lock, zxz {np.round(e1, 2).tolist()} = {np.round(e2, 2).tolist()}", val0)
    if bad:
        ctx.finding(q2, "returned in-plane angle", f"the in-plane distance must lie in [0,180] and vanish for equal orientations "
                    f"({bad[0]}: {bad[1]})", fn2, m2, extracted=tm.show(got)[:300])
    # compare_rotations returns (angular, cone, in-plane) in this order
    q3 = "geom.compare_rotations"
    m3, fn3 = ctx.prog.func(q3)
    it = Interp(ctx.prog)
    r = it.run(q3, [Rot(sym("R1")), Rot(sym("R2"))], {})
    ctx.count(1)
    if not (isinstance(r.ret, Seq) and len(r.ret.items) == 3):
        raise Unsupported("compare_rotations(rotation_type='all') does not return a triple", fn3)
    wants = [true_angle(sym("R1"), sym("R2")), want, got]
    names = ["angular distance", "cone distance", "in-plane distance"]
    # every value of the rotation_type option returns its own component
    for k, opt in enumerate(("angular_distance", "cone_distance", "in_plane_distance")):
        ro = Interp(ctx.prog).run(q3, [Rot(sym("R1")), Rot(sym("R2"))], {"rotation_type": K(opt)})
        if isinstance(ro.ret, Seq):
            raise Unsupported(f"compare_rotations(rotation_type={opt!r}) returns a tuple", fn3)
        vo = tm.equivalent(to_term(ro.ret), wants[k], samplers=RS, n=20, tol=1e-5, seed_tag=q3 + opt)
        ctx.count(1, {"rotation_type": opt, "equal": bool(vo)})
        if not vo:
            ctx.finding(q3, f"rotation_type={opt!r}", f"compare_rotations(rotation_type={opt!r}) must return the {names[k]}", fn3, m3,
                        witness=vo.witness)
    for k in range(3):
        vk = tm.equivalent(to_term(r.ret.items[k]), wants[k], samplers=RS, n=20, tol=1e-5, seed_tag=q3 + str(k))
        ctx.count(1)
        if not vk:
            ctx.finding(q3, f"element {k} of the returned triple", f"compare_rotations must return the {names[k]} at position {k}",
                        fn3, m3, witness=vk.witness)


def o65(ctx):
    """Euler-angle array input is only another spelling of the rotations: every distance must equal the one computed from the
    rotation objects built from those angles (the path used by compare_rotations callers that hold angle tables)"""
    A1 = Arr([sym("phi1"), sym("theta1"), sym("psi1")], 2)
    A2 = Arr([sym("phi2"), sym("theta2"), sym("psi2")], 2)
    R1 = T("euler", const("zxz"), T("vec", sym("phi1"), sym("theta1"), sym("psi1")), const(True))
    R2 = T("euler", const("zxz"), T("vec", sym("phi2"), sym("theta2"), sym("psi2")), const(True))
    wide = {k: (lambda rng: float(rng.uniform(-400, 400))) for k in ("phi1", "theta1", "psi1", "phi2", "theta2", "psi2")}
    for q in ("geom.cone_inplane_distance", "geom.compare_rotations"):
        m, fn = ctx.prog.func(q)
        ctx.touched(q)
        ra = Interp(ctx.prog).run(q, [A1, A2], {})
        rr = Interp(ctx.prog).run(q, [Rot(sym("R1")), Rot(sym("R2"))], {})
        if not (isinstance(ra.ret, Seq) and isinstance(rr.ret, Seq) and len(ra.ret.items) == len(rr.ret.items)):
            raise Unsupported(f"{q}: results for array and rotation input have different structure", fn)
        for k, (xa, xr) in enumerate(zip(ra.ret.items, rr.ret.items)):
            want = tm.subst(to_term(xr), {sym("R1"): R1, sym("R2"): R2})
            v = tm.equivalent(to_term(xa), want, samplers=wide, n=30, tol=1e-6, seed_tag=q + "arr" + str(k))
            ctx.count(1, {"function": q, "element": k, "array input == rotation input": bool(v)})
            if not v:
                ctx.finding(q, f"element {k} for Euler-angle array input", f"{q}: for angle arrays, element {k} of the result differs from the "
                            "value computed from the rotations those angles describe (angles outside the canonical ranges, or a different "
                            "convention, give another number)", fn, m, witness=v.witness)


def o61(ctx):
    q = "geom.euler_angles_to_normals"
    m, fn = ctx.prog.func(q)
    ctx.touched(q, "geom.visualize_angles", "geom.visualize_rotations")
    it = Interp(ctx.prog)
    r = it.run(q, [Arr([sym("phi"), sym("theta"), sym("psi")], 2)], {})
    amb = [e for e in it.events if e.kind == "typing" and e.name == "ambiguous-transpose"]
    ctx.count(1)
    if amb:
        ma, _ = ctx.prog.func(amb[0].fn)
        ctx.finding(amb[0].fn, amb[0].node, f"an (n, {amb[0].extra['width']}) batch of orientations is transposed when its row count equals "
                    f"{amb[0].extra['width']}: for exactly {amb[0].extra['width']} orientations the two layouts cannot be told apart, so the angles of "
                    "the particles are mixed across rows", amb[0].node, ma)
        return
    a = as_arr_(r.ret)
    if a is None or len(a.cols) != 3:
        raise Unsupported("euler_angles_to_normals does not return an (N,3) array", fn)
    want = T("rotapply", particle_R(), T("vec", const(0.0), const(0.0), const(1.0)))
    for k in range(3):
        v = tm.equivalent(a.cols[k], T("item", want, k), samplers=ANGLES, seed_tag=q + str(k))
        ctx.count(1, {"component": k, "equal": bool(v)})
        if not v:
            ctx.finding(q, f"component {k} of the returned normals", "each returned normal must be the unit image of the z-axis "
                        "under that orientation, normalised by its own length (not by a norm over the whole batch)", fn, m,
                        witness=v.witness, extracted=tm.show(a.cols[k])[:200])


def as_arr_(v):
    from sa.lib import as_arr
    return v if isinstance(v, Arr) else as_arr(v)


def o64(ctx):
    q = "geom.normals_to_euler_angles"
    m, fn = ctx.prog.func(q)
    ctx.touched(q)
    nsam = {k: (lambda rng: float(rng.uniform(-3, 3))) for k in ("nx", "ny", "nz")}
    special = []
    for vec in ((1, 0, 0), (0, 1, 0), (-1, 0, 0), (0, -1, 0), (0, 0, 1), (0, 0, -1), (2, 0, 0), (0, 0, 5), (3, 0, 4), (0, 2, -2),
                (1e-3, 0, 0), (0.6, 0.8, 0),
                # "normals of any length": very short and very long ones in general position (a test with an ABSOLUTE tolerance on an un-normalised component
                # takes a short normal for one along z; the direction is what counts)
                (3e-10, 4e-10, 12e-10), (-2e-12, 1e-12, 2e-12), (5e-9, 0, 1e-9), (0, -3e-11, 4e-11), (250.0, -100.0, 40.0), (3e7, 4e7, 0)):
        special.append({"nx": float(vec[0]), "ny": float(vec[1]), "nz": float(vec[2]), "__salt__": 0.1})
    def table_input():
        # the other documented input form: a data frame with the columns x, y, z (in any column order, among other columns)
        f = Frame({"id": sym("pid"), "z": sym("nz"), "x": sym("nx"), "area": sym("area"), "y": sym("ny")}, ["id", "z", "x", "area", "y"], name="normals")
        f.space = Space("normals", how="root")
        return f

    for order, idx, form in (("zxz", (0, 1, 2), "array"), ("zzx", (0, 2, 1), "array"), ("zxz", (0, 1, 2), "table")):
        it = Interp(ctx.prog)
        r = it.run(q, [Arr([sym("nx"), sym("ny"), sym("nz")], 2) if form == "array" else table_input(), K(order)], {})
        a = as_arr_(r.ret)
        if a is None or len(a.cols) != 3:
            raise Unsupported("normals_to_euler_angles does not return an (N,3) array", fn)
        phi, theta, psi = a.cols[idx[0]], a.cols[idx[1]], a.cols[idx[2]]
        zaxis = T("rotapply", euler_term("zxz", phi, theta, psi), T("vec", const(0.0), const(0.0), const(1.0)))
        nrm = T("sqrt", mk("add", mk("add", mk("mul", sym("nx"), sym("nx")), mk("mul", sym("ny"), sym("ny"))), mk("mul", sym("nz"), sym("nz"))))
        for k, c in enumerate(("nx", "ny", "nz")):
            v = tm.equivalent(T("item", zaxis, k), mk("div", sym(c), nrm), samplers=nsam, n=30, extra_envs=special, tol=1e-6,
                              seed_tag=q + order + c)
            ctx.count(1, {"output_order": order, "input": form, "component": k, "points": v.points, "equal": bool(v)})
            if not v:
                ctx.finding(q, f"returned angles (output_order={order!r}, {form} input)", "the z-axis of the returned orientation zxz(phi, theta, psi) "
                            f"must be the normalised input normal (component {k})", fn, m, witness=v.witness)
                break


def _obligations():
    return [
        Obligation("O6.5", "angle-array input gives the same distances as the rotations it describes (cone/in-plane/angular)", o65, floor=5),
        Obligation("O6.1", "euler_angles_to_normals returns the unit image of the z-axis per orientation", o61, floor=3),
        Obligation("O6.2", "angular_distance = rotation angle of R1^-1 R2, arccos argument clamped", o62, floor=3),
        Obligation("O6.3", "cone distance = angle between z-axes (clamped); in-plane distance in [0,180], 0 for equal; triple order", o63, floor=40),
        Obligation("O6.4", "normals_to_euler_angles: z-axis of the result is n/|n| for any normal incl. axis-aligned", o64, floor=9),
    ]


def obligations():
    return _obligations() + [labels_obligation("C06"), selectors_obligation("C06"), mutations_obligation("C06"), loopstate_obligation("C06"), effects_obligation("C06"), plumbing_obligation("C06"), overrides_obligation("C06"), options_obligation("C06"), handlers_obligation("C06")]
