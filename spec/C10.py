"""C10 -- cyclic symmetry expansion places subunits on the symmetry orbit"""
from .common import *
from . import C05 as _c05

TITLE = "Cyclic symmetry expansion places subunits on the symmetry orbit"
EXPLANATION = (
    "Motl.split_in_asymmetric_subunits is interpreted abstractly with a symbolic fold number n (integer samples 1..64, so "
    "every n not dividing 360 is covered), a symbolic offset s and a symbolic subunit index k (the generic element of the "
    "index vectors the code builds with arange); the extracted closed forms per output row are decided by random "
    "interpretation: orientation = R*Rz(k*360/n), complete position = x+shift + R*Rz(k*360/n)*s, x,y,z = round-half-up of "
    "it with the residual in the shift, geom5 = parent number, geom2 = k+1, subtomo_id = row number, other fields "
    "inherited. Every index vector in subunit space must have exactly n elements by construction (its symbolic length is "
    "compared with n); values stored into the expanded table must be computed in that table's row order (row-space "
    "typing); the spellings 'Cn', 'cn' and numbers must yield the same n.")
ASSUMPTIONS = TRUSTED + ["np.tile of a per-subunit array over the parent-major, subunit-minor row order of the sorted expanded "
                         "table aligns element k with subunit k (pandas sort_values/concat semantics trusted); the dihedral "
                         "branch is outside the statement"]

Q = "cryomotl.Motl.split_in_asymmetric_subunits"
NS = {"n": int_sampler(1, 64), "idx0": int_sampler(0, 63), "idx1": int_sampler(0, 500),
      "x": half_integer_sampler(), "y": half_integer_sampler(), "z": half_integer_sampler()}
NS.update(ANGLES)


def run(ctx, symmetry, numeric):
    it = Interp(ctx.prog, assume=assume_map({"isinstance(symmetry, str)": not numeric,
                                             "isinstance(symmetry, (int, float))": numeric}))
    it.index_samplers = {"n": int_sampler(1, 64)}
    me = motl_obj(ctx.prog)
    r = it.run(Q, [symmetry, Seq([P("s0"), P("s1"), P("s2")], "list")], {}, self_obj=me)
    if not (isinstance(r.ret, Obj) and isinstance(r.ret.attrs.get("df"), Frame)):
        raise Unsupported("split_in_asymmetric_subunits does not return a particle list")
    return it, me, r.ret.attrs["df"], r


def subunit_index(df):
    """the generic subunit index symbol: the one the in-plane angle depends on"""
    syms = [s for s in tm.symbols(df.cols["phi"]) if s.startswith("idx")]
    if len(syms) != 1:
        raise Unsupported(f"the new orientation depends on {len(syms)} index symbols (expected the subunit index)")
    return syms[0]


def check_pose(ctx, it, df, nterm, label, m, fn, samplers):
    k = sym(subunit_index(df))
    step = mk("div", const(360.0), nterm)
    Rk = T("matmul", particle_R(), euler_term("z", mk("mul", k, step), const(0.0), const(0.0)) if False else
           T("euler", const("z"), T("vec", mk("mul", k, step)), const(True)))
    got = euler_term("zxz", df.cols["phi"], df.cols["theta"], df.cols["psi"])
    v = tm.rot_equivalent(got, Rk, samplers=samplers, n=30, seed_tag=Q + label)
    ctx.count(1, {"case": label, "orientation": "R * Rz(k*360/n)", "equal": bool(v), "points": v.points})
    if not v:
        node = last_store(it, df, "phi") or fn
        ctx.finding(Q, node, f"{label}: subunit k must get the orientation R*Rz(k*360/n) (parent rotation times the in-plane "
                    "rotation by k*360/n about the parent's own z-axis), for every n", node, m, witness=v.witness,
                    extracted=tm.show(df.cols["phi"])[:240])
    svec = T("vec", sym("s0"), sym("s1"), sym("s2"))
    off = T("rotapply", Rk, svec)
    for i, c in enumerate("xyz"):
        total = mk("add", mk("add", sym(c), sym("shift_" + c)), T("item", off, i))
        gotp = mk("add", df.cols[c], df.cols["shift_" + c])
        v = tm.equivalent(gotp, total, samplers=samplers, n=30, tol=1e-6, seed_tag=Q + label + c)
        ctx.count(1, {"case": label, "complete position": c, "equal": bool(v)})
        if not v:
            node = last_store(it, df, "shift_" + c) or fn
            ctx.finding(Q, node, f"{label}: the complete position {c}+shift_{c} of subunit k must be the parent's centre plus "
                        f"component {i} of R*Rz(k*360/n)*s", node, m, witness=v.witness)
        v2 = tm.equivalent(df.cols[c], total, samplers=samplers, n=30, seed_tag=Q + label + c + "r", relation=tm.nearest_integer)
        ctx.count(1)
        if not v2:
            node = last_store(it, df, c) or fn
            ctx.finding(Q, node, f"{label}: {c} must be the complete position rounded to the nearest integer (update_coordinates "
                        "on the result), leaving |shift| <= 0.5", node, m, witness=v2.witness)


def o101(ctx):
    m, fn = ctx.prog.func(Q)
    ctx.touched(Q, "cryomotl.Motl.update_coordinates")
    it, me, df, r = run(ctx, P("n"), True)
    aranges = [e for e in it.events if e.kind == "arange"]
    if len(aranges) < 2:
        raise Unsupported("index vectors (arange) of the subunit construction not found", fn)
    nsub = 0
    for e in aranges:
        length = e.extra["length"]
        if tm.has_call(length, "nrows") or tm.has_call(length, "len"):
            continue  # the row numbering of the expanded table
        nsub += 1
        v = tm.equivalent(length, sym("n"), samplers={"n": int_sampler(1, 64)}, n=64, seed_tag="len")
        ctx.count(1, {"index vector": norm_text(e.node)[:80], "length": tm.show(length)[:80], "equals n": bool(v)})
        if not v:
            ctx.finding(Q, e.node, "an index vector of the subunit construction does not have exactly n elements for every n "
                        "(the lattice of in-plane angles must be {k*360/n : k = 0..n-1}; no lossy cast of 360/n may decide its "
                        "length)", e.node, m, witness=v.witness, length=tm.show(length)[:160])
    if nsub < 1:
        raise Unsupported("no per-subunit index vector found", fn)
    for e in it.events:
        if e.kind == "space-mismatch":
            fs, vs = e.extra["frame_space"], e.extra["value_space"]
            ctx.finding(Q, e.node, f"values computed in the row order '{vs.chain()}' are stored into columns "
                        f"{e.extra['names']} of a table in row order '{fs.chain()}': after sort_values the rows of the expanded "
                        "table are no longer in the order of the values", e.node, m)
    ctx.count(1, {"row-space mismatches at stores": sum(1 for e in it.events if e.kind == "space-mismatch")})
    # the per-subunit values are laid over the rows by position (np.tile): the n copies of a parent must stand together, i.e. the
    # expanded table (n copies of the list one after the other) must have been sorted by the column that identifies the parent
    hist = [n_ for n_ in df.notes if n_[0] in ("repeat", "concat", "sort_values", "sort_index")]
    ctx.count(1, {"history of the expanded table": [str(n_)[:60] for n_ in hist]})
    rep = [i_ for i_, n_ in enumerate(hist) if n_[0] in ("repeat", "concat")]
    if not rep:
        raise Unsupported("expansion of the list into n copies not recognised", fn)
    after = hist[rep[-1] + 1:]
    srt = [n_ for n_ in after if n_[0] == "sort_values"]
    if any(n_[0] == "sort_index" for n_ in after) and not srt:
        ctx.finding(Q, "order of the expanded table", "the copies are grouped by sorting the row labels: labels identify a parent only while they are "
                    "unique; a list put together from several tables (pd.concat of per-tomogram lists) repeats them, the copies of different "
                    "parents interleave and a parent gets some subunit numbers twice and others never", fn, m)
    elif not srt:
        ctx.finding(Q, "order of the expanded table", "the expanded table is never brought into parent-major order (a sort whose result is not "
                    "assigned does nothing): the n copies of the list stand one after the other while geom2, the in-plane angles and the offsets "
                    "are laid over the rows as 1..n repeating, so a parent gets some subunits twice and others never", fn, m)
    elif not any(str(tm.cval(n_[1]) if hasattr(n_[1], "op") else n_[1]).strip("'") in ("subtomo_id", "geom5") for n_ in srt):
        raise Unsupported(f"the expanded table is sorted by {srt[0][1]}: whether that identifies the parent is not decided", fn)


def o102(ctx):
    m, fn = ctx.prog.func(Q)
    it, me, df, r = run(ctx, P("n"), True)
    check_pose(ctx, it, df, sym("n"), "numeric symmetry n", m, fn, NS)


def o104(ctx):
    m, fn = ctx.prog.func(Q)
    it, me, df, r = run(ctx, P("n"), True)
    k = sym(subunit_index(df))
    others = [s for s in tm.symbols(df.cols["subtomo_id"]) if s.startswith("idx")]
    exp = {"geom5": sym("subtomo_id"), "geom2": mk("add", k, const(1))}
    expect_cols(ctx, it, Q, df, exp, samplers=NS, what="subunit bookkeeping (geom5 = parent number, geom2 = subunit index 1..n)")
    ctx.count(1, {"subtomo_id": tm.show(df.cols["subtomo_id"])})
    st = df.cols["subtomo_id"]
    ok = len(others) == 1 and others[0] != k.args[0] and tm.equivalent(st, mk("add", sym(others[0]), const(1)), samplers=NS, seed_tag="sid")
    if not ok:
        node = last_store(it, df, "subtomo_id") or fn
        ctx.finding(Q, node, "every output particle must get a unique subtomogram number (1..N*n over the rows of the expanded "
                    "table)", node, m, extracted=tm.show(st)[:120])
    inherit = ["tomo_id", "object_id", "score", "class", "geom1", "geom3", "geom4", "subtomo_mean"]
    expect_cols(ctx, it, Q, df, {c: sym(c) for c in inherit}, samplers=NS, what="fields inherited from the parent")
    ctx.count(1)
    if not any(nt[0] == "repeat" and tm.equivalent(nt[1], sym("n"), samplers={"n": int_sampler(1, 64)}, seed_tag="rep") for nt in df.notes):
        ctx.finding(Q, "expansion of the table", "the table must be expanded to exactly n rows per input particle", fn, m,
                    history=[str(x) for x in df.notes])


def o105(ctx):
    m, fn = ctx.prog.func(Q)
    for spelling, n in (("C7", 7), ("c12", 12), ("C36", 36), ("C10", 10), ("c3", 3), (7, 7), (12.0, 12), (64, 64)):
        numeric = not isinstance(spelling, str)
        try:
            it, me, df, r = run(ctx, K(spelling), numeric)
        except (ZeroDivisionError, Unsupported) as e:
            # the construction could not be followed for this spelling: decide the fold number it parses on its own
            got_n, node = parsed_fold(ctx, spelling)
            ctx.count(1, {"symmetry": spelling, "parsed fold number": got_n})
            if got_n is not None and got_n != n:
                ctx.finding(Q, node, f"symmetry {spelling!r} must select the fold number {n}; the code parses {got_n}", node, m)
                continue
            raise
        sam = {k: v for k, v in NS.items() if k != "n"}
        check_pose(ctx, it, df, const(float(n)), f"symmetry given as {spelling!r}", m, fn, sam)


def parsed_fold(ctx, spelling):
    """constant evaluation of the statement that assigns nfold on the string path"""
    from sa.interp import Frame_
    m, fn = ctx.prog.func(Q)
    for st in ast.walk(fn):
        if isinstance(st, ast.Assign) and isinstance(st.targets[0], ast.Name) and st.targets[0].id == "nfold" \
                and any(isinstance(x, ast.Name) and x.id == "symmetry" for x in ast.walk(st.value)) \
                and not isinstance(st.value, ast.Name):
            it = Interp(ctx.prog)
            try:
                v = it.eval(st.value, Frame_(Q, m, {"symmetry": K(spelling)}))
                return pyval(v), st
            except (NotConst, Unsupported, Exception):  # noqa
                return None, st
    return None, fn


def _obligations():
    return [
        Obligation("O10.20", "accessors of the particle list: get_coordinates = (x,y,z) + shifts, get_angles / get_rotations = the stored zxz angles, fill stores values as given (shared with C05)", _c05.accessors, floor=20),
        Obligation("O10.1", "index vectors of the subunit lattice have exactly n elements; stores respect the table's row order", o101, floor=3),
        Obligation("O10.2", "orientation R*Rz(k*360/n) and complete position centre + R*Rz(k*360/n)*s, integer x,y,z", o102, floor=7),
        Obligation("O10.4", "geom5 parent, geom2 subunit index, unique subtomogram numbers, inherited fields, n rows per parent", o104, floor=12),
        Obligation("O10.5", "'Cn', 'cn' and numeric spellings select the same n", o105, floor=50),
    ]


def obligations():
    return _obligations() + [constructors_obligation(['cryomotl.Motl', 'cryomotl.EmMotl']), labels_obligation("C10"), selectors_obligation("C10"), mutations_obligation("C10"), loopstate_obligation("C10"), effects_obligation("C10"), plumbing_obligation("C10"), overrides_obligation("C10"), options_obligation("C10"), handlers_obligation("C10")]
