"""C01 -- EM particle-list files round-trip losslessly for any table column order"""
from .common import *

TITLE = "EM particle-list files round-trip losslessly for any table column order"
EXPLANATION = (
    "The writer (EmMotl.write_out, also reached through Motl.write_out(...,'emmotl')) is interpreted abstractly for "
    "several column permutations of the input table (canonical, reversed, a 7-step rotation, a seeded random "
    "non-involution); the array reaching emfile.write must hold the 20 fields in the EM field order, after fillna(0), "
    "reshaped (1,N,20), cast to float32, and with a header argument that cannot override the dimensions emfile "
    "derives from the data. The reader must name the 20 file columns with the same canonical table, guard the column "
    "count and build the table from the file data without re-arranging it. Writer/loader dispatch tables must agree.")
ASSUMPTIONS = TRUSTED + ["emfile.write lays out data.shape = (z,y,x) with x fastest and lets header_params override "
                         "dtype/xdim/ydim/zdim (read from the installed emfile source)"]

EM_FIELDS = ["score", "geom1", "geom2", "subtomo_id", "tomo_id", "object_id", "subtomo_mean", "x", "y", "z",
             "shift_x", "shift_y", "shift_z", "geom3", "geom4", "geom5", "phi", "psi", "theta", "class"]


def perms(seed):
    c = list(EM_FIELDS)
    rng = np.random.default_rng(seed + 17)
    r = list(rng.permutation(c))
    return {"canonical": c, "reversed": c[::-1], "rotated-by-7": c[7:] + c[:7], "random": [str(x) for x in r]}


def _write_event(it):
    evs = [e for e in it.events if e.kind == "call" and e.name == "emfile.write"]
    if len(evs) != 1:
        raise Unsupported(f"expected exactly one emfile.write call on the writer path, found {len(evs)}")
    return evs[0]


def _check_payload(ctx, q, label, ev, m):
    data = ev.arg(1, "data")
    if not isinstance(data, Arr) or getattr(data, "colnames", None) is None and not all(c.op == "sym" for c in data.cols):
        raise Unsupported(f"{label}: the array passed to emfile.write is not a recognised projection of the table", ev.node)
    got = [tm.show(strip_sel(c)) for c in data.cols]
    ctx.count(1, {"path": q, "table column order": label, "fields reaching emfile.write": got})
    if got != EM_FIELDS:
        wrong = [(i, EM_FIELDS[i], g) for i, g in enumerate(got[:20]) if i >= len(EM_FIELDS) or g != EM_FIELDS[i]][:4]
        ctx.finding(q, ev.node, f"with a {label} input table the array written to the EM file is not in the EM field order "
                    f"(score, geom1, ..., class): slot/expected/got {wrong}", ev.node, m, fields=got)
    return data


def o11(ctx):
    """canonical order at positional serialisation, for every column order of the table"""
    from sa.terms import SEED
    for q, cls in (("cryomotl.EmMotl.write_out", "cryomotl.EmMotl"), ("cryomotl.Motl.write_out", "cryomotl.Motl")):
        m, fn = ctx.prog.func(q)
        ctx.touched(q)
        for label, order in perms(SEED).items():
            it = Interp(ctx.prog)
            me = Obj(cls, {"df": motl_frame(ctx.prog, cols=order), "header": DictV({})})
            args = [K("out.em")] + ([K("emmotl")] if cls.endswith(".Motl") else [])
            it.run(q, args, {}, self_obj=me)
            ev = _write_event(it)
            mm, _ = ctx.prog.func(ev.fn)
            data = _check_payload(ctx, q, label, ev, mm)
            if label == list(perms(SEED))[0]:
                # the same particles in the same order: the written array lives in the row space of the list's table
                same_rows_same_order(ctx, q, data, me.attrs["df"], f"{q.split('.', 1)[1]}: the array written to the file keeps the particle order of the list",
                                     ev.node, mm)


def o13(ctx):
    """fillna, shape (1, N, 20) and float32 on the way to the library call; header cannot override the dimensions"""
    q = "cryomotl.EmMotl.write_out"
    m, fn = ctx.prog.func(q)
    it = Interp(ctx.prog)
    # a list loaded from a file and written again (the header read from the file must not leak into the new file)
    ctor = "cryomotl.EmMotl"
    obj = it.lib.construct(it, ClassRef(ctor), [K("in.em")], {}, fn, None) if False else None
    it2 = Interp(ctx.prog, assume=assume_map({"not os.path.isfile(emfile_path)": False}))
    from sa.interp import Frame_
    mm, cn = ctx.prog.cls(ctor)
    obj = it2.lib.construct(it2, ClassRef(ctor), [K("in.em")], {}, cn, Frame_("<spec>", mm, {}))
    if not isinstance(obj.attrs.get("df"), Frame):
        raise Unsupported("EmMotl(path) does not produce a table", cn)
    it2.run(q, [K("out.em")], {}, self_obj=obj)
    ev = _write_event(it2)
    # every list is written: no way out of write_out before the library call (a file "that already holds this list" within a tolerance is not this list)
    early = [e for e in it2.events if e.kind == "return" and e.name == q and it2.events.index(e) < it2.events.index(ev)]
    ctx.count(1, {"returns before the library call": len(early)})
    if early:
        ctx.finding(q, "lists that are not written", "write_out leaves before calling the library writer on some path "
                    f"({tm.show(early[0].guards[-1])[:80] if early[0].guards else 'unconditionally'}): the file then does not hold the list that was to be written", early[0].node, m)
    data = ev.arg(1, "data")
    if not isinstance(data, Arr):
        raise Unsupported("array passed to emfile.write not recognised", ev.node)
    notes = dict((n[0], n[1:]) for n in data.notes)
    ctx.count(1, {"history of the written array": [str(n) for n in data.notes]})
    fv_ = notes["fillna"][0] if "fillna" in notes else None
    if isinstance(fv_, dict):
        unfilled = [c for c in EM_FIELDS if fv_.get(c, None) not in (0, 0.0) or isinstance(fv_.get(c), bool)]
        if unfilled:
            ctx.finding(q, ev.node, f"missing values must be replaced by 0 in every field: the per-column fill table leaves {unfilled[:4]} unfilled "
                        "(a NaN there is written to the file and read back as NaN)", ev.node, m)
    elif "fillna" not in notes or fv_ not in (0, 0.0):
        ctx.finding(q, ev.node, "missing values must be replaced by 0 (fillna(0)) before the table is serialised", ev.node, m)
    rs = getattr(data, "reshape", None)
    ctx.count(1)
    ok = False
    if isinstance(rs, Seq) and len(rs.items) == 3:
        a, b, c = rs.items
        ok = (is_pyconst(a) and pyval(a) == 1 and not is_pyconst(b)
              and ((is_pyconst(c) and pyval(c) == 20) or (getattr(c, "axis", None) == 1)))
        if ok and getattr(b, "axis", 0) != 0:
            ok = False
    if not ok:
        ctx.finding(q, ev.node, "the array must be reshaped to (1, N, 20) (one slice, one row per particle, 20 fields) "
                    f"before writing; found reshape {tm.show(to_term(rs))[:100] if rs is not None else None}", ev.node, m)
    ctx.count(1)
    at = notes.get("astype")
    okt = at is not None and tm.show(at[0]) in ("'ref:numpy.single'", "'ref:numpy.float32'", "'float32'", "'single'", "'f4'", "'<f4'")
    if not okt:
        ctx.finding(q, ev.node, f"the array must be narrowed to float32 before writing (found astype {at})", ev.node, m)
    hdr = ev.arg(2, "header_params")
    ctx.count(1, {"header argument": repr(hdr)[:80]})
    bad = {"dtype", "xdim", "ydim", "zdim"}
    if hdr is None or (isinstance(hdr, DictV) and not (set(hdr.items) & bad)):
        pass
    else:
        ht = to_term(hdr)
        from_file = tm.has_call(ht, "emfile.read")
        if from_file or isinstance(hdr, DictV):
            ctx.finding(q, ev.node, "the header passed to emfile.write derives from the header of a previously read file (or "
                        "sets xdim/ydim/zdim/dtype): emfile lets header parameters override the dimensions it derives from "
                        "the data, so a list whose length changed is written with a stale N", ev.node, m,
                        header=tm.show(ht)[:200])
        else:
            raise Unsupported("header argument of emfile.write not recognised", ev.node)
    ow = ev.arg(3, "overwrite")
    ctx.count(1)
    if ow is None or not is_pyconst(ow) or pyval(ow) is not True:
        ctx.finding(q, ev.node, "emfile.write must be called with overwrite=True (an existing output file is replaced)", ev.node, m)


def o12(ctx):
    """reader: same canonical table, 20-column guard, data not re-arranged; table equals the EM field order"""
    cols = ctx.prog.class_attr("cryomotl.Motl", "motl_columns")
    m0, node0 = ctx.prog.class_attr_node("cryomotl.Motl", "motl_columns")
    ctx.count(1, {"Motl.motl_columns": cols})
    if list(cols) != EM_FIELDS:
        diff = [(i, a, b) for i, (a, b) in enumerate(zip(EM_FIELDS, cols)) if a != b][:4]
        ctx.finding("cryomotl.Motl", node0, "Motl.motl_columns differs from the EM motive-list field order "
                    f"(slot, format, table): {diff}" + ("" if len(cols) == 20 else f"; {len(cols)} entries"), node0, m0)
    q = "cryomotl.EmMotl.read_in"
    m, fn = ctx.prog.func(q)
    ctx.touched(q)
    it = Interp(ctx.prog, assume=assume_map({"not os.path.isfile(emfile_path)": False}))
    r = it.run(q, [K("in.em")], {}, self_obj=None)
    ret = r.ret
    if not (isinstance(ret, Seq) and len(ret.items) == 2 and isinstance(ret.items[0], Frame)):
        raise Unsupported("read_in does not return (table, header)", fn)
    df = ret.items[0]
    ctx.count(1, {"reader table columns": df.order})
    if df.order != EM_FIELDS:
        ctx.finding(q, "columns of the table built by read_in", "the reader must name the 20 file columns in the EM field order",
                    fn, m, columns=df.order)
    # every particle of the file is a row of the table, in the file's order: nothing selected, nothing sorted
    hist = [n for n in df.notes if n[0] not in ("reset_index", "astype")]
    ctx.count(1, {"rows of the reader's table": df.space.chain() if df.space is not None else None, "filters": [tm.show(x)[:60] for x in df.filters]})
    if df.filters or hist or (df.space is not None and any(x in df.space.chain() for x in ("filter", "sort", "dedup", "sample"))):
        ctx.finding(q, "rows of the table built by read_in", "read_in must return every particle stored in the file, in the file's order; the table is "
                    f"restricted / re-ordered: {[tm.show(x)[:80] for x in df.filters] or hist or df.space.chain()}", fn, m)
    reads = [e for e in it.events if e.kind == "call" and e.name == "emfile.read"]
    if len(reads) != 1:
        raise Unsupported("expected one emfile.read call", fn)
    want_data = call("getitem", call("unpack", to_term(reads[0].__dict__.get("result", None) or call("emfile.read", const("in.em"))), const(1)), const(0))
    dt = getattr(df, "data_term", None)
    ctx.count(1, {"reader data term": tm.show(dt)[:160] if dt is not None else None})
    if dt is None:
        raise Unsupported("table built by read_in has no recognised data source", fn)
    # a widening cast (float32 of the file -> Python float / float64) keeps every value: it is the `dtype=float` of the constructor
    while dt.op == "call" and dt.args[0] == ".astype" and len(dt.args) == 3 and tm.show(dt.args[2]).strip("'") in (
            "ref:builtins.float", "float", "float64", "ref:numpy.float64", "ref:numpy.double", "double", "ref:numpy.longdouble"):
        dt = dt.args[1]
    ops = {n.op for n in tm.walk(dt)} | {n.args[0] for n in tm.walk(dt) if n.op == "call"}
    if dt != want_data:
        if "ite" in ops or "transposed" in ops or ".T" in ops or any(o in ops for o in ("add", "mul", "sub")):
            ctx.finding(q, "data argument of pd.DataFrame in read_in", "the table must be built from the file's first slice "
                        "as it is (one row per particle); the code re-arranges or transforms it: " + tm.show(dt)[:200], fn, m)
        elif any(n.op == "call" and n.args[0] == ".astype" and len(n.args) > 2 and tm.show(n.args[2]).strip("'") in ("ref:builtins.str", "str", "U", "ref:numpy.str_")
                 for n in tm.walk(dt)):
            ctx.finding(q, "data argument of pd.DataFrame in read_in", "the float32 values of the file pass through their text form before they become the "
                        "table: the loaded number is then the shortest decimal that prints the same, not the single-precision value that was "
                        "written (0.7 instead of 0.699999988...): " + tm.show(dt)[:160], fn, m)
        else:
            raise Unsupported("data source of the table in read_in: " + tm.show(dt)[:160], fn)
    # a list made from a path holds the table read_in built, nothing done to it on the way (EmMotl(path), Motl.load(path))
    from sa.interp import Frame_
    it3 = Interp(ctx.prog, assume=assume_map({"not os.path.isfile(emfile_path)": False}))
    mm, cn = ctx.prog.cls("cryomotl.EmMotl")
    obj = it3.lib.construct(it3, ClassRef("cryomotl.EmMotl"), [K("in.em")], {}, cn, Frame_("<spec>", mm, {}))
    df3 = obj.attrs.get("df") if isinstance(obj, Obj) else None
    if not isinstance(df3, Frame):
        raise Unsupported("EmMotl(path) does not hold a table", cn)
    ctx.touched("cryomotl.EmMotl.__init__")
    for c_ in EM_FIELDS:
        ctx.count(1)
        if c_ in df.cols and df3.cols.get(c_) != df.cols[c_]:
            site = last_store(it3, df3, c_) or cn
            ctx.finding("cryomotl.EmMotl.__init__", f"field {c_} of a list loaded from a file", f"EmMotl(path) must hold the table read_in built from "
                        f"the file: field {c_} becomes {tm.show(df3.cols.get(c_))[:120] if df3.cols.get(c_) is not None else 'absent'} "
                        f"(read_in: {tm.show(df.cols[c_])[:60]})", site, m)
            break
    # column-count guard
    ctx.count(1)
    guards = [e for e in it.events if e.kind == "raise" and any(
        tm.contains(g, lambda n: n.op == "const" and n.args[0] == 20) and tm.has_call(g, "emfile.read") for g in e.guards)]
    if not guards:
        ctx.finding(q, "column-count guard", "read_in must reject files whose particle rows do not have exactly 20 fields "
                    "(a raise guarded by a comparison of the file's column count with 20)", fn, m)


def _dispatch(prog, q, var="motl_type"):
    m, fn = prog.func(q)
    table = {}
    for node in ast.walk(fn):
        if isinstance(node, ast.If) and isinstance(node.test, ast.Compare) and len(node.test.ops) == 1 \
                and isinstance(node.test.ops[0], ast.Eq) and isinstance(node.test.comparators[0], ast.Constant) \
                and isinstance(node.test.comparators[0].value, str):
            left = node.test.left
            names = {n.id for n in ast.walk(left) if isinstance(n, ast.Name)}
            if var not in names:
                continue
            key = node.test.comparators[0].value
            cls = None
            for st in node.body:
                for c in ast.walk(st):
                    if isinstance(c, ast.Call) and isinstance(c.func, ast.Name) and prog.has(f"cryomotl.{c.func.id}"):
                        try:
                            prog.cls(f"cryomotl.{c.func.id}")
                            cls = cls or c.func.id
                        except AnchorMissing:
                            pass
            table[key] = (cls, node)
    return m, fn, table


FORMATS = ("emmotl", "relion", "stopgap", "dynamo")


def _probe_dispatch(ctx, q, key):
    """which particle-list class does Motl.load / Motl.write_out construct for this format key?  Decided by interpreting the function
    with the key as a constant (so an if-chain, a lookup table or a helper are the same thing); the class constructors are summarised"""
    classes = [c for c in ("EmMotl", "RelionMotl", "StopgapMotl", "DynamoMotl", "ModMotl") if ctx.prog.has("cryomotl." + c)]
    hits = []

    def summ(c):
        def f(it, args, kwargs, node, fr):
            hits.append(c)
            return Obj("cryomotl." + c, {"df": motl_frame(ctx.prog)})
        return f

    it = Interp(ctx.prog, summaries={"cryocat.cryomotl." + c: summ(c) for c in classes},
                no_inline=tuple(f"cryomotl.{c}.write_out" for c in classes),
                assume=assume_map({"isinstance(input_motl, Motl)": False}))
    try:
        if q.endswith(".load"):
            it.run(q, [K("list.file")], {"motl_type": K(key)}, self_obj=ClassRef("cryomotl.Motl"))
        else:
            it.run(q, [K("out.file")], {"motl_type": K(key)}, self_obj=motl_obj(ctx.prog))
    except AbstractRaise:
        pass
    return sorted(set(hits))


def o15(ctx):
    qw, ql = "cryomotl.Motl.write_out", "cryomotl.Motl.load"
    mw, fw = ctx.prog.func(qw)
    ml, fl = ctx.prog.func(ql)
    ctx.touched(qw, ql)
    tw = {k: _probe_dispatch(ctx, qw, k) for k in FORMATS + ("no-such-format",)}
    tl = {k: _probe_dispatch(ctx, ql, k) for k in FORMATS + ("no-such-format",)}
    ctx.count(len(tw) + len(tl), {"write_out": tw, "load": tl})
    if not any(tw.values()) or not any(tl.values()):
        raise Unsupported("dispatch on motl_type not recognised (no particle-list class is constructed for any format key)")
    for k in FORMATS:
        a, b = tw[k], tl[k]
        if len(a) > 1 or len(b) > 1:
            raise Unsupported(f"format key {k!r} constructs several classes ({a} / {b})")
        if bool(a) != bool(b):
            ctx.finding(qw if a else ql, f"format key {k}", f"format key {k!r} is handled by only one of Motl.write_out / Motl.load", fw if a else fl,
                        mw if a else ml)
        elif a != b:
            ctx.finding(qw, f"format key {k}", f"format key {k!r} is written by {a[0]} but loaded by {b[0]}", fw, mw)
    for name, t, mm, ff in (("write_out", tw, mw, fw), ("load", tl, ml, fl)):
        if t["emmotl"] != ["EmMotl"]:
            ctx.finding(f"cryomotl.Motl.{name}", "dispatch on 'emmotl'", f"Motl.{name} must map 'emmotl' to EmMotl", ff, mm)
        if t["no-such-format"]:
            ctx.finding(f"cryomotl.Motl.{name}", "unknown format key", f"Motl.{name} must refuse an unknown format key (it constructs "
                        f"{t['no-such-format']})", ff, mm)


def _obligations():
    return [
        Obligation("O1.1", "the array handed to emfile.write is in EM field order for every column order of the table", o11, floor=8),
        Obligation("O1.2", "reader names the file columns with the canonical table, guards 20 columns, keeps the data layout", o12, floor=4),
        Obligation("O1.3", "fillna(0), reshape (1,N,20), float32, fresh header and overwrite on the writer path", o13, floor=5),
        Obligation("O1.5", "Motl.write_out / Motl.load dispatch tables agree and map 'emmotl' to EmMotl", o15, floor=6),
    ]


def obligations():
    return _obligations() + [constructors_obligation(['cryomotl.Motl', 'cryomotl.EmMotl']), labels_obligation("C01"), selectors_obligation("C01"), mutations_obligation("C01"), loopstate_obligation("C01"), effects_obligation("C01"), plumbing_obligation("C01"), overrides_obligation("C01"), options_obligation("C01"), handlers_obligation("C01")]
