"""summaries shared by the mask (C13) and Fourier-filter (C12) specifications"""
from .common import *
from sa import imgdom
from sa.lib import as_arr


def gcf_summary(it, args, kwargs, node, fr):
    """cryomask.get_correct_format: a size / centre / radii given as a number or a 3-vector -> integer 3-vector;
    None -> half of the reference size"""
    v = args[0] if args else kwargs.get("input_value")
    ref = kwargs.get("reference_size", args[1] if len(args) > 1 else None)
    if v is not None and not (is_pyconst(v) and pyval(v) is None):
        a = as_arr(v) if not isinstance(v, Val) else None
        if a is not None and len(a.cols) == 3:
            return Arr(list(a.cols), 1)
        if isinstance(v, Arr) and len(v.cols) == 3:
            return Arr(list(v.cols), 1)
        so = getattr(v, "shape_of", None)
        if so is not None:
            base = tm.show(to_term(so))
            return Arr([sym(f"{base}.n{k}") for k in range(3)], 1)
        if isinstance(v, (Val, Unk)):
            return Arr([v.term] * 3, 1)
        raise Unsupported("size / centre argument not recognised", node)
    if ref is None:
        raise Unsupported("get_correct_format without value and reference", node)
    r = gcf_summary(it, [ref], {}, node, fr)
    return Arr([mk("floordiv", c, const(2)) for c in r.cols], 1)


def postprocess_summary(it, args, kwargs, node, fr):
    mask, gaussian, angles = args[0], args[1], args[2]
    out = mask
    if not (is_pyconst(gaussian) and pyval(gaussian) in (0, 0.0)):
        out = Val(call("gaussian_blur", to_term(mask), to_term(gaussian)))
        if getattr(mask, "axes", None) is not None:
            out.axes = mask.axes
        out.blur_of = mask
    zero_angles = angles is None or (is_pyconst(angles) and (pyval(angles) is None or not any(pyval(angles)))) \
        or (as_arr(angles) is not None and all(tm.cval(c) == 0 for c in as_arr(angles).cols))
    if not zero_angles:
        o2 = Unk(call("rotated", to_term(out), to_term(angles)))
        o2.rotated_of = out
        return o2
    return out


def read_summary(it, args, kwargs, node, fr):
    v = args[0]
    import copy as _c
    r = _c.copy(v)
    r.fresh = True
    if isinstance(r, Unk) and not hasattr(r, "rank"):
        r.rank = 3
    return r


MASK_SUMMARIES = {
    "cryocat.cryomask.get_correct_format": gcf_summary,
    "cryocat.cryomask.postprocess": postprocess_summary,
    "cryocat.cryomask.write_out": lambda it, a, k, n, f: K(None),
    "cryocat.cryomap.write": lambda it, a, k, n, f: K(None),
}


def lattice_envs(axes, rng, count, extra=None, tie=None, fixed=None):
    """integer lattice points: sizes 6..48 (non-cubic), indices inside the box; `tie(env)` may adjust a radius so that
    the point lies exactly on the surface (strictness of <= is observable on the integer lattice)"""
    envs = []
    for i in range(count * tm.N_MULT):
        env = {"__salt__": float(rng.uniform(0, 1))}
        if fixed:
            env.update(fixed(rng))
        for A in axes:
            for nm in tm.symbols(A.n):
                env.setdefault(nm, float(rng.integers(6, 49)))
        for A in axes:
            n = int(round(float(tm.evaluate(A.n, env))))
            env[A.sym.args[0]] = float(rng.integers(0, max(1, n)))
        if extra:
            for k, f in extra.items():
                env.setdefault(k, f(rng, env))
        if tie is not None and i % 3 == 0:
            tie(env, rng)
        envs.append(env)
    return envs
