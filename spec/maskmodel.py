"""summaries shared by the mask (C13) and Fourier-filter (C12) specifications"""
from .common import *
from sa import imgdom
from sa.lib import as_arr


def gcf_summary(it, args, kwargs, node, fr):
    """cryomask.get_correct_format: a size / centre / radii given as a number or a 3-vector -> integer 3-vector;
    None -> half of the reference size"""
    v = args[0] if args else kwargs.get("input_value")
    ref = kwargs.get("reference_size", args[1] if len(args) > 1 else None)
    if v is not None and not (is_pyconst(v) and pyval(v) is None):
        a = as_arr(v) if not isinstance(v, Val) else None
        if a is not None and len(a.cols) == 3:
            return Arr(list(a.cols), 1)
        if isinstance(v, Arr) and len(v.cols) == 3:
            return Arr(list(v.cols), 1)
        so = getattr(v, "shape_of", None)
        if so is not None:
            base = tm.show(to_term(so))
            return Arr([sym(f"{base}.n{k}") for k in range(3)], 1)
        if isinstance(v, (Val, Unk)):
            return Arr([v.term] * 3, 1)
        raise Unsupported("size / centre argument not recognised", node)
    if ref is None:
        raise Unsupported("get_correct_format without value and reference", node)
    r = gcf_summary(it, [ref], {}, node, fr)
    return Arr([mk("floordiv", c, const(2)) for c in r.cols], 1)


def postprocess_summary(it, args, kwargs, node, fr):
    mask, gaussian, angles = args[0], args[1], args[2]
    out = mask
    if not (is_pyconst(gaussian) and pyval(gaussian) in (0, 0.0)):
        out = Val(call("gaussian_blur", to_term(mask), to_term(gaussian)))
        if getattr(mask, "axes", None) is not None:
            out.axes = mask.axes
        out.blur_of = mask
    zero_angles = angles is None or (is_pyconst(angles) and (pyval(angles) is None or not any(pyval(angles)))) \
        or (as_arr(angles) is not None and all(tm.cval(c) == 0 for c in as_arr(angles).cols))
    if not zero_angles:
        o2 = Unk(call("rotated", to_term(out), to_term(angles)))
        o2.rotated_of = out
        return o2
    return out


def read_summary(it, args, kwargs, node, fr):
    v = args[0]
    import copy as _c
    r = _c.copy(v)
    r.fresh = True
    if isinstance(r, Unk) and not hasattr(r, "rank"):
        r.rank = 3
    return r


MASK_SUMMARIES = {
    "cryocat.cryomask.get_correct_format": gcf_summary,
    "cryocat.cryomask.postprocess": postprocess_summary,
    "cryocat.cryomask.write_out": lambda it, a, k, n, f: K(None),
    "cryocat.cryomap.write": lambda it, a, k, n, f: K(None),
}


def lattice_envs(axes, rng, count, extra=None, tie=None, fixed=None):
    """integer lattice points: sizes 6..48 (non-cubic), indices inside the box; `tie(env)` may adjust a radius so that
    the point lies exactly on the surface (strictness of <= is observable on the integer lattice)"""
    envs = []
    for i in range(count * tm.N_MULT):
        env = {"__salt__": float(rng.uniform(0, 1))}
        if fixed:
            env.update(fixed(rng))
        for A in axes:
            for nm in tm.symbols(A.n):
                env.setdefault(nm, float(rng.integers(6, 49)))
        for A in axes:
            n = int(round(float(tm.evaluate(A.n, env))))
            env[A.sym.args[0]] = float(rng.integers(0, max(1, n)))
        if extra:
            for k, f in extra.items():
                env.setdefault(k, f(rng, env))
        if tie is not None and i % 3 == 0:
            tie(env, rng)
        envs.append(env)
    return envs


def o_get_correct_format(ctx):
    """get_correct_format (summarised in the shape rules): a 3-vector comes back component by component as integers, whatever the
    reference box; no value -> half the reference box"""
    q = "cryomask.get_correct_format"
    m, fn = ctx.prog.func(q)
    ctx.touched(q)
    V = Arr([sym("v0"), sym("v1"), sym("v2")], 1)
    REF = Arr([sym("n0"), sym("n1"), sym("n2")], 1)
    cases = (("centre / radii given, with the box as reference", [V, REF], [mk("int", sym(f"v{k}")) for k in range(3)]),
             ("value given without reference", [V], [mk("int", sym(f"v{k}")) for k in range(3)]),
             ("no value: half of the reference box", [K(None), REF], [mk("floordiv", mk("int", sym(f"n{k}")), const(2)) for k in range(3)]))
    sam = {f"v{k}": int_sampler(0, 60) for k in range(3)}
    sam.update({f"n{k}": int_sampler(4, 48) for k in range(3)})
    for label, args, want in cases:
        r = Interp(ctx.prog).run(q, list(args), {})
        a = r.ret if isinstance(r.ret, Arr) else None
        if a is None or len(a.cols) != 3:
            raise Unsupported(f"get_correct_format ({label}) does not return a 3-vector", fn)
        for k in range(3):
            v = tm.equivalent(a.cols[k], want[k], samplers=sam, n=30, seed_tag=q + label + str(k))
            ctx.count(1, {"case": label, "component": k, "equal": bool(v)} if k == 0 else None)
            if not v:
                ctx.finding(q, f"{label}: component {k}", f"get_correct_format ({label}): component {k} must be {tm.show(want[k])} -- the centre and the "
                            "radii of a shape are taken as given, per axis (a non-cubic box has three different extents)", fn, m,
                            witness=v.witness, extracted=tm.show(a.cols[k])[:120])



def o_preprocess_params(ctx):
    """preprocess_params(radius, gaussian, gaussian_outwards): the radius is enlarged only for an outward blur"""
    q = "cryomask.preprocess_params"
    m, fn = ctx.prog.func(q)
    ctx.touched(q)
    # radii include 0 and negative values: the inner solid of a shell thicker than twice its radius is asked for with radius - t/2 < 0
    # and must come back empty, which it does because the radius is handed on as it is
    sam = {"r": lambda g: float(g.choice([1, 2, 3, 5, 8, 13, 20, 2.5, 7.5, 0, -0.5, -1, -3])), "sigma": lambda g: float(g.choice([0.5, 1.0, 2.0, 3.0, 4.0, 6.0]))}
    grown = T("ceil", mk("add", sym("r"), mk("mul", sym("sigma"), const(5.0))))
    for outw, gauss, want, label in ((False, P("sigma"), sym("r"), "blur not outwards: radius unchanged (also when the radius is smaller than sigma)"),
                                     (True, P("sigma"), grown, "blur outwards: ceil(radius + 5 sigma)"),
                                     (True, K(0.0), sym("r"), "no blur: radius unchanged"),
                                     (False, K(0.0), sym("r"), "no blur: radius unchanged")):
        r = Interp(ctx.prog).run(q, [P("r"), gauss, K(outw)], {})
        got = to_term(r.ret)
        v = tm.equivalent(got, want, samplers=sam, n=40, seed_tag=q + label + str(outw))
        ctx.count(1, {"case": label, "extracted": tm.show(got)[:100], "equal": bool(v)})
        if not v:
            ctx.finding(q, label, f"preprocess_params, {label}: the code yields {tm.show(got)[:120]}", fn, m, witness=v.witness)
