"""C03 -- RELION <-> cryoCAT conversion preserves each particle's pose and identity"""
from .common import *
from . import C01 as _c01
from sa import apicompat
from . import C02 as _star

TITLE = "RELION <-> cryoCAT conversion preserves each particle's pose and identity"
EXPLANATION = (
    "RelionMotl.create_relion_df (export) and RelionMotl.convert_to_motl (import) are interpreted abstractly for RELION "
    "3.0, 3.1 and 4.0 over symbolic tables; the extracted closed forms of every output column are compared with the "
    "specified ones by random interpretation: ZYZ angles as rotation matrices against the inverse of the particle's zxz "
    "rotation (both directions, and for RELION tables whose angle columns are not in rot/tilt/psi order), coordinates = "
    "x+shift (times binning for 4.0), zero origins, shift = -origin (/pixel size from 3.1), class, half-set parity. The "
    "extracted name-generation and name-parsing terms are evaluated on sample identifiers / paths (string semantics "
    "interpreted by the analyser) including the export->import composition. Library calls on the path are checked "
    "against the installed pandas.")
ASSUMPTIONS = TRUSTED + ["the STAR text round trip (C02) "
                         "is not decided here; gimbal-lock behaviour of SciPy's as_euler is trusted"]

CLS = "cryomotl.RelionMotl"
VERSIONS = (3.0, 3.1, 4.0)
COLTAB = {3.0: "columns_v3_0", 3.1: "columns_v3_1", 4.0: "columns_v4"}
ORIGIN = {3.0: ["rlnOriginX", "rlnOriginY", "rlnOriginZ"], 3.1: ["rlnOriginXAngst", "rlnOriginYAngst", "rlnOriginZAngst"],
          4.0: ["rlnOriginXAngst", "rlnOriginYAngst", "rlnOriginZAngst"]}
NAMES = {3.0: ("rlnMicrographName", "rlnImageName"), 3.1: ("rlnMicrographName", "rlnImageName"),
         4.0: ("rlnTomoName", "rlnTomoParticleName")}
TOMO_FMT, SUB_FMT = "/data/run2/set_07/TS_$xxxx.rec", "/sub/run3/T$xxx/TS_$xxx_$yyyyyy_3.4A.mrc"
SAMPLERS = dict(ANGLES, **{"rln:rlnAngleRot": angle_sampler, "rln:rlnAngleTilt": angle_sampler, "rln:rlnAnglePsi": angle_sampler,
                           "pixel_size": pos_sampler(0.5, 8.0), "binning": pos_sampler(1.5, 8.0),
                           "subtomo_id": int_sampler(1, 5000), "tomo_id": int_sampler(1, 300)})


def rframe(cols, prefix="rln:"):
    f = Frame({c: sym(prefix + c) for c in cols}, list(cols), prefix=prefix, name="relion_df")
    f.space = Space("relion", how="root")
    # RELION tables usually come from Starfile.read or create_relion_df (fresh 0..n-1 index), but the constructor also takes a table
    # the caller has selected from or sorted: its index is not known to be 0..n-1
    return f


def me_obj(prog, version=None, **kw):
    a = {"df": motl_frame(prog), "version": K(version), "pixel_size": P("pixel_size"), "binning": P("binning"),
         "relion_df": Frame(name="orig"), "optics_data": K(None)}
    a.update(kw)
    return Obj(CLS, a)


def export(ctx, v, binned, tomo_format=TOMO_FMT, subtomo_format=SUB_FMT):
    it = Interp(ctx.prog, assume=assume_map({"binning != 1.0 and version >= 4.0": binned and v >= 4.0,
                                             "use_original_entries": False}))
    me = me_obj(ctx.prog, v)
    r = it.run(CLS + ".create_relion_df", [], {"tomo_format": K(tomo_format), "subtomo_format": K(subtomo_format)}, self_obj=me)
    if not isinstance(r.ret, Frame):
        raise Unsupported(f"create_relion_df (version {v}) does not return a table")
    return it, me, r.ret


def imported(ctx, v, order=None, with_subset=False):
    cols = list(ctx.prog.class_attr(CLS, COLTAB[v]))
    if not with_subset:
        cols = [c for c in cols if c != "rlnRandomSubset"]
    if order:
        cols = order(cols)
    it = Interp(ctx.prog, assume=assume_map({"self.pixel_size is not None": True}))
    me = me_obj(ctx.prog, None)
    me.attrs["df"].labels_adopt = True  # the constructor starts from the empty table of Motl.__init__
    it.run(CLS + ".convert_to_motl", [rframe(cols), K(v)], {}, self_obj=me)
    df = me.attrs.get("df")
    if not isinstance(df, Frame):
        raise Unsupported("convert_to_motl leaves no table in self.df")
    return it, me, df


def o31(ctx):
    q = CLS + ".convert_angles_to_relion"
    ctx.touched(q, CLS + ".create_relion_df")
    m, fn = ctx.prog.func(q)
    want = T("transpose", particle_R())
    for v in VERSIONS:
        it, me, f = export(ctx, v, False)
        got = euler_term("ZYZ", f.cols["rlnAngleRot"], f.cols["rlnAngleTilt"], f.cols["rlnAnglePsi"])
        r = tm.rot_equivalent(got, want, samplers=SAMPLERS, seed_tag=f"exp{v}")
        ctx.count(1, {"version": v, "extracted": tm.show(f.cols["rlnAngleRot"])[:120], "specified": "ZYZ(rot,tilt,psi) == R^-1",
                      "equal": bool(r)})
        if not r:
            node = last_store(it, f, "rlnAngleRot") or fn
            ctx.finding(q, node, f"RELION {v} export: the rotation ZYZ(rlnAngleRot, rlnAngleTilt, rlnAnglePsi) must be the inverse "
                        "of the particle's zxz(phi, theta, psi) rotation", node, m, witness=r.witness)


def o32(ctx):
    q = CLS + ".convert_angles_from_relion"
    ctx.touched(q, CLS + ".convert_to_motl")
    m, fn = ctx.prog.func(q)
    rel = euler_term("ZYZ", sym("rln:rlnAngleRot"), sym("rln:rlnAngleTilt"), sym("rln:rlnAnglePsi"))

    def psi_first(cols):
        rest = [c for c in cols if not c.startswith("rlnAngle")]
        return ["rlnAnglePsi"] + rest[:2] + ["rlnAngleRot"] + rest[2:] + ["rlnAngleTilt"]

    for v in VERSIONS:
        for label, order in (("canonical column order", None), ("angle columns in psi, rot, tilt order", psi_first)):
            it, me, df = imported(ctx, v, order)
            got = euler_term("zxz", df.cols["phi"], df.cols["theta"], df.cols["psi"])
            r = tm.rot_equivalent(got, T("transpose", rel), samplers=SAMPLERS, seed_tag=f"imp{v}{label}")
            ctx.count(1, {"version": v, "table": label, "phi": tm.show(df.cols["phi"])[:130], "equal": bool(r)})
            if not r:
                node = last_store(it, df, "phi") or fn
                ctx.finding(q, node, f"RELION {v} import ({label}): zxz(phi, theta, psi) must be the inverse of "
                            "ZYZ(rlnAngleRot, rlnAngleTilt, rlnAnglePsi)", node, m, witness=r.witness,
                            extracted=tm.show(df.cols["phi"])[:200])


def o33(ctx):
    q = CLS + ".convert_shifts"
    ctx.touched(q)
    m, fn = ctx.prog.func(q)
    for v in VERSIONS:
        it, me, df = imported(ctx, v)
        exp = {}
        for c, o in zip("xyz", ORIGIN[v]):
            t = mk("neg", sym("rln:" + o))
            exp["shift_" + c] = mk("div", t, sym("pixel_size")) if v >= 3.1 else t
        expect_cols(ctx, it, q, df, exp, samplers=SAMPLERS,
                    what=f"RELION {v} import (shift = -origin" + (" / pixel_size, origin in Angstrom)" if v >= 3.1 else ", origin in pixels)"))


def o34(ctx):
    qi, qe = CLS + ".convert_to_motl", CLS + ".create_relion_df"
    ctx.touched(qi, qe, CLS + ".prepare_particles_data", CLS + ".create_particles_data")
    for v in VERSIONS:
        it, me, df = imported(ctx, v)
        exp = {c: sym("rln:rlnCoordinate" + c.upper()) for c in "xyz"}
        exp["class"] = sym("rln:rlnClassNumber")
        expect_cols(ctx, it, qi, df, exp, samplers=SAMPLERS, what=f"RELION {v} import")
        for binned in ((False, True) if v >= 4.0 else (False,)):
            it, me, f = export(ctx, v, binned)
            exp = {}
            for c in "xyz":
                t = mk("add", sym(c), sym("shift_" + c))
                exp["rlnCoordinate" + c.upper()] = mk("mul", t, sym("binning")) if binned else t
            for o in ORIGIN[v]:
                exp[o] = const(0.0)
            exp["rlnClassNumber"] = sym("class")
            if v < 4.0:
                exp["rlnPixelSize"] = sym("pixel_size")
            expect_cols(ctx, it, qe, f, exp, samplers=SAMPLERS,
                        what=f"RELION {v} export" + (" with binning" if binned else ""))
            m, fn = ctx.prog.func(qe)
            stray = [c for c in f.cols if not c.startswith(("rln", "cc"))]
            ctx.count(1)
            if stray:
                ctx.finding(qe, f"columns of the exported table (version {v})", f"temporary columns {stray} leak into the RELION table",
                            fn, m)


def o35(ctx):
    q = CLS + ".create_relion_df"
    m, fn = ctx.prog.func(q)
    want = mk("ite", mk("eq", mk("mod", sym("subtomo_id"), const(2)), const(0)), const(2.0), const(1.0))
    for v in VERSIONS:
        it, me, f = export(ctx, v, False)
        if "rlnRandomSubset" not in f.cols:
            raise Unsupported(f"version {v} export has no rlnRandomSubset column")
        expect_cols(ctx, it, q, f, {"rlnRandomSubset": want}, samplers=SAMPLERS,
                    what=f"RELION {v} export half-sets (even subtomogram number -> 2, odd -> 1)")


def render(fmt, letter, number):
    import re
    runs = sorted(re.findall(r"\$(?:%s)+" % letter, fmt), key=len)
    if not runs:
        return fmt
    return fmt.replace(runs[-1], str(int(number)).zfill(len(runs[-1]) - 1))


def _np_eq(a, b):
    try:
        return bool(np.all(np.asarray(a, dtype=float) == float(b)))
    except (TypeError, ValueError):
        return False


def o36(ctx):
    qe = CLS + ".prepare_particles_data"
    ctx.touched(qe, CLS + ".parse_tomo_id", CLS + ".parse_subtomo_id")
    me_, fe = ctx.prog.func(qe)
    ids = [(7, 123), (42, 5), (130, 40212)]
    for v in VERSIONS:
        tn, sn = NAMES[v]
        it, me, f = export(ctx, v, False)
        iti, mei, df = imported(ctx, v)
        mp, fp = ctx.prog.func(CLS + ".parse_tomo_id")
        ms, fs = ctx.prog.func(CLS + ".parse_subtomo_id")
        # uniqueness test of the imported ids is a whole-table predicate: decided for the unique case
        sub_term = tm.subst(df.cols["subtomo_id"], {n.args[0]: const(False) for n in tm.walk(df.cols["subtomo_id"])
                                                    if n.op == "ite" and tm.has_call(n.args[0], "unique")})
        for t_id, s_id in ids:
            env = {"tomo_id": float(t_id), "subtomo_id": float(s_id)}
            try:
                tname = tm.evaluate(f.cols[tn], dict(env))
                sname = tm.evaluate(f.cols[sn], dict(env))
            except tm.EvalError as e:
                raise Unsupported(f"name generation uses an operation the term evaluator does not interpret: {e}", fe)
            if not isinstance(tname, str) or not isinstance(sname, str):
                raise Unsupported("name generation is not a string expression the term evaluator interprets "
                                  f"({tm.show(f.cols[sn if isinstance(tname, str) else tn])[:100]})", fe)
            want_t = render(TOMO_FMT, "x", t_id)
            want_s = render(render(SUB_FMT, "y", s_id), "x", t_id)
            ctx.count(2, {"version": v, "ids": (t_id, s_id), "tomogram name": tname, "subtomogram name": sname})
            if tname != want_t:
                ctx.finding(qe, last_store(it, f, tn) or fe, f"RELION {v}: tomogram name for tomo_id={t_id} must be {want_t!r} "
                            f"($x... replaced by the zero-padded tomogram number), got {tname!r}", last_store(it, f, tn) or fe, me_)
            if sname != want_s:
                ctx.finding(qe, last_store(it, f, sn) or fe, f"RELION {v}: subtomogram name for ids {t_id}/{s_id} must be {want_s!r}, "
                            f"got {sname!r}", last_store(it, f, sn) or fe, me_)
            # export -> import composition on the extracted terms
            if v >= 4.0:
                sname_in = f"TS_{t_id:03d}/{s_id}"
            else:
                sname_in = want_s
            env_i = {"rln:" + tn: want_t, "rln:" + sn: sname_in}
            try:
                t_back = tm.evaluate(df.cols["tomo_id"], dict(env_i))
                g3_back = tm.evaluate(df.cols["geom3"], dict(env_i))
                s_back = tm.evaluate(sub_term, dict(env_i))
            except tm.EvalError as e:
                raise Unsupported(f"name parsing uses an operation the term evaluator does not interpret: {e}", fp)
            ctx.count(3, {"version": v, "parsed": {"tomo_id": str(t_back), "geom3": str(g3_back), "subtomo_id": str(s_back)}})
            if not _np_eq(t_back, t_id):
                ctx.finding(CLS + ".parse_tomo_id", last_store(iti, df, "tomo_id") or fp, f"RELION {v}: the tomogram number of "
                            f"{want_t!r} must be read back as {t_id} (first number of the file name), got {t_back}",
                            last_store(iti, df, "tomo_id") or fp, mp)
            if not _np_eq(g3_back, s_id) or not _np_eq(s_back, s_id):
                ctx.finding(CLS + ".parse_subtomo_id", last_store(iti, df, "geom3") or fs, f"RELION {v}: the subtomogram number of "
                            f"{sname_in!r} must be read back as {s_id} into geom3 and subtomo_id, got {g3_back} / {s_back}",
                            last_store(iti, df, "geom3") or fs, ms)
        # numeric identifiers (default formats) pass through unchanged
        it0, me0, f0 = export(ctx, v, False, "", "")
        expect_cols(ctx, it0, qe, f0, {tn: mk("int", sym("tomo_id")), sn: mk("int", sym("subtomo_id"))}, samplers=SAMPLERS,
                    what=f"RELION {v} export with default (numeric) names")
        env_n = {"rln:" + tn: 17, "rln:" + sn: 4711}
        tb, sb = tm.evaluate(df.cols["tomo_id"], dict(env_n)), tm.evaluate(df.cols["geom3"], dict(env_n))
        ctx.count(1)
        if not _np_eq(tb, 17) or not _np_eq(sb, 4711):
            ctx.finding(CLS + ".parse_tomo_id", "numeric identifiers", f"RELION {v}: numeric tomogram / subtomogram identifiers must "
                        f"be taken over unchanged (got {tb}, {sb})", fp, mp)


def o37(ctx):
    roots = ["cryomotl.emmotl2relion", "cryomotl.relion2emmotl", "cryomotl.relion2stopgap", "cryomotl.stopgap2relion",
             CLS + ".write_out", CLS + ".read_in", CLS + ".convert_to_motl", CLS + ".create_relion_df"]
    quals = sorted(q for q in ctx.prog.reachable(roots, depth=4)
                   if q.startswith(("cryomotl.RelionMotl", "starfileio.", "cryomotl.emmotl2", "cryomotl.relion2", "cryomotl.stopgap2relion",
                                    "cryomotl.Motl.get_", "cryomotl.Motl.assign_column", "cryomotl.Motl.check_df")))
    total = 0
    for q in quals:
        issues, n = apicompat.check_function(ctx.prog, q, df_params=("relion_df", "input_df", "optics_df"))
        total += n
        ctx.touched(q)
        m, fn = ctx.prog.func(q)
        for i in issues:
            ctx.finding(q, i.node, f"[{i.rule}] {i.message}", i.node, m)
    ctx.count(total, {"functions": len(quals), "library call sites checked": total})


# ------------------------------------------------------------------------------------------------ half-set renumbering loop
class _X(ast.NodeVisitor):
    """expression -> term over the symbols `s` (rlnRandomSubset of the current row), `s0` (of the first row) and `c` (the running
    number); H is the name bound to the per-row half-set code"""

    def __init__(self, hname, hterm, cname, ivar):
        self.hname, self.hterm, self.cname, self.ivar = hname, hterm, cname, ivar

    def tr(self, n):
        if isinstance(n, ast.Constant):
            return const(n.value)
        if isinstance(n, ast.Name):
            if n.id == self.cname:
                return sym("c")
            raise Unsupported("name not modelled in the half-set loop: " + n.id, n)
        if isinstance(n, ast.Subscript) and isinstance(n.value, ast.Name) and n.value.id == self.hname:
            if isinstance(n.slice, ast.Constant) and n.slice.value == 0:
                return tm.subst(self.hterm, {sym("s"): sym("s0")})
            if isinstance(n.slice, ast.Name) and n.slice.id == self.ivar:
                return self.hterm
            raise Unsupported("half-set code read at an unexpected index", n)
        if isinstance(n, ast.BinOp):
            op = {ast.Add: "add", ast.Sub: "sub", ast.Mult: "mul", ast.Mod: "mod", ast.FloorDiv: "floordiv", ast.Div: "div"}.get(type(n.op))
            if op is None:
                raise Unsupported("operator not modelled in the half-set loop", n)
            return mk(op, self.tr(n.left), self.tr(n.right))
        if isinstance(n, ast.Compare) and len(n.ops) == 1:
            op = {ast.Eq: "eq", ast.NotEq: "ne", ast.Lt: "lt", ast.LtE: "le", ast.Gt: "gt", ast.GtE: "ge"}.get(type(n.ops[0]))
            if op is None:
                raise Unsupported("comparison not modelled in the half-set loop", n)
            return mk(op, self.tr(n.left), self.tr(n.comparators[0]))
        if isinstance(n, ast.BoolOp):
            t = None
            for v in n.values:
                x = self.tr(v)
                t = x if t is None else mk("and" if isinstance(n.op, ast.And) else "or", t, x)
            return t
        if isinstance(n, ast.UnaryOp) and isinstance(n.op, ast.Not):
            return mk("not", self.tr(n.operand))
        if isinstance(n, ast.IfExp):
            return mk("ite", self.tr(n.test), self.tr(n.body), self.tr(n.orelse))
        raise Unsupported("expression not modelled in the half-set loop: " + ast.unparse(n)[:50], n)

    def block(self, body, c):
        """running number after the statements, as a term of the number before (`c`)"""
        for st in body:
            if isinstance(st, ast.AugAssign) and isinstance(st.target, ast.Name) and st.target.id == self.cname and isinstance(st.op, (ast.Add, ast.Sub)):
                inc = tm.subst(self.tr(st.value), {sym("c"): c})
                c = mk("add" if isinstance(st.op, ast.Add) else "sub", c, inc)
            elif isinstance(st, ast.Assign) and len(st.targets) == 1 and isinstance(st.targets[0], ast.Name) and st.targets[0].id == self.cname:
                c = tm.subst(self.tr(st.value), {sym("c"): c})
            elif isinstance(st, ast.If):
                t = tm.subst(self.tr(st.test), {sym("c"): c})
                c = mk("ite", t, self.block(st.body, c), self.block(st.orelse, c))
            elif isinstance(st, ast.Expr) and isinstance(st.value, ast.Call) and isinstance(st.value.func, ast.Attribute) and st.value.func.attr == "append":
                if not (st.value.args and isinstance(st.value.args[0], ast.Name) and st.value.args[0].id == self.cname):
                    raise Unsupported("the loop must append the running number", st)
            elif isinstance(st, (ast.Pass,)):
                pass
            else:
                raise Unsupported("statement not modelled in the half-set loop: " + ast.unparse(st)[:50], st)
        return c


def o39(ctx):
    """import: half-set 1 <-> odd, half-set 2 <-> even subtomogram numbers, strictly increasing down the list.  The renumbering loop is
    a one-counter automaton: its transition c -> c' is extracted as a closed form and checked on the finite abstraction
    (parity of c) x (half-set of the row), together with the start value"""
    q = CLS + ".parse_subtomo_id"
    m, fn = ctx.prog.func(q)
    ctx.touched(q)
    blocks = [n for n in ast.walk(fn) if isinstance(n, ast.If) and any(isinstance(x, ast.Constant) and x.value == "rlnRandomSubset" for x in ast.walk(n.test))]
    if len(blocks) != 1:
        raise Unsupported("half-set block of parse_subtomo_id not found", fn)
    body = blocks[0].body
    loops = [st for st in body if isinstance(st, ast.For)]
    if len(loops) != 1 or not (isinstance(loops[0].iter, ast.Call) and isinstance(loops[0].iter.func, ast.Name) and loops[0].iter.func.id == "range"
                               and isinstance(loops[0].target, ast.Name)):
        raise Unsupported("renumbering loop not recognised", blocks[0])
    lp = loops[0]
    start = lp.iter.args[0] if len(lp.iter.args) >= 2 else None
    ctx.count(1)
    if not (isinstance(start, ast.Constant) and start.value == 1):
        ctx.finding(q, lp, "the loop must continue with the second row (range(1, n)): the first row is handled by the start value", lp, m)
    pre = body[:body.index(lp)]
    # H: the per-row code derived from the rlnRandomSubset column
    hdefs = [st for st in pre if isinstance(st, ast.Assign) and any(isinstance(x, ast.Constant) and x.value == "rlnRandomSubset" for x in ast.walk(st.value))
             and isinstance(st.targets[0], ast.Name)]
    if len(hdefs) != 1:
        raise Unsupported("per-row half-set code not found", blocks[0])
    hname = hdefs[0].targets[0].id

    def hexpr(n):
        if isinstance(n, ast.BinOp):
            op = {ast.Mod: "mod", ast.Sub: "sub", ast.Add: "add", ast.Mult: "mul", ast.FloorDiv: "floordiv"}.get(type(n.op))
            if op is None:
                raise Unsupported("half-set code expression not modelled", n)
            return mk(op, hexpr(n.left), hexpr(n.right))
        if isinstance(n, ast.Constant):
            return const(n.value)
        if isinstance(n, ast.Attribute) and n.attr == "values":
            return hexpr(n.value)
        if isinstance(n, ast.Call) and isinstance(n.func, ast.Attribute) and n.func.attr in ("to_numpy", "astype", "copy"):
            return hexpr(n.func.value)
        if isinstance(n, ast.Subscript) and isinstance(n.slice, ast.Constant) and n.slice.value == "rlnRandomSubset":
            return sym("s")
        raise Unsupported("half-set code expression not modelled: " + ast.unparse(n)[:50], n)

    hterm = hexpr(hdefs[0].value)
    cdefs = [st for st in pre if isinstance(st, ast.Assign) and isinstance(st.targets[0], ast.Name) and st is not hdefs[0]
             and any(isinstance(x, ast.Name) and x.id == hname for x in ast.walk(st.value))]
    if len(cdefs) != 1:
        raise Unsupported("start value of the running number not found", blocks[0])
    cname = cdefs[0].targets[0].id
    X = _X(hname, hterm, cname, lp.target.id)
    c0 = X.tr(cdefs[0].value)
    step = X.block(lp.body, sym("c"))
    want_par = lambda s_: 1 if s_ == 1 else 0
    for s0 in (1, 2):
        v = int(tm.evaluate(c0, {"s0": float(s0), "__salt__": 0.5}))
        ctx.count(1, {"first row half-set": s0, "start number": v})
        if v % 2 != want_par(s0) or v < 1:
            ctx.finding(q, cdefs[0], f"a list starting with half-set {s0} must start with an {'odd' if s0 == 1 else 'even'} number (got {v})", cdefs[0], m)
    for c in (1, 2, 3, 4, 7, 10):
        for s_ in (1, 2):
            v = int(tm.evaluate(step, {"c": float(c), "s": float(s_), "s0": 1.0, "__salt__": 0.5}))
            ctx.count(1, {"running number": c, "half-set of the row": s_, "next number": v} if c <= 2 else None)
            if v % 2 != want_par(s_) or v <= c or v > c + 2:
                ctx.finding(q, lp, f"after number {c}, a row of half-set {s_} must get the next {'odd' if s_ == 1 else 'even'} number "
                            f"({c + 1 if (c + 1) % 2 == want_par(s_) else c + 2}); the loop gives {v}", lp, m, transition=tm.show(step)[:200])
    # the renumbered list must be what is stored
    stores = [st for st in body[body.index(lp) + 1:] if isinstance(st, ast.Assign) and isinstance(st.targets[0], ast.Subscript)
              and isinstance(st.targets[0].slice, ast.Constant) and st.targets[0].slice.value == "subtomo_id"]
    ctx.count(1)
    if len(stores) != 1:
        ctx.finding(q, blocks[0], "the renumbered list must be stored as subtomo_id", blocks[0], m)


def o310(ctx):
    """writing a list out does not change the list: no field of self.df is rewritten by write_out (names, half-sets and the re-imported
    numbers must come from the particle's own subtomogram number)"""
    q = CLS + ".write_out"
    m, fn = ctx.prog.func(q)
    ctx.touched(q)
    cols = list(ctx.prog.class_attr("cryomotl.Motl", "motl_columns"))
    for v in VERSIONS:
        for optics in (False, True):
            it = Interp(ctx.prog, no_inline=("starfileio.Starfile.write",),
                        assume=assume_map({"binning != 1.0 and version >= 4.0": False, "use_original_entries": False, "write_optics": optics}))
            me = me_obj(ctx.prog, v)
            it.run(q, [K("out.star")], {"tomo_format": K(TOMO_FMT), "subtomo_format": K(SUB_FMT), "write_optics": K(optics)}, self_obj=me)
            df = me.attrs.get("df")
            if not isinstance(df, Frame):
                raise Unsupported("RelionMotl.write_out leaves no table in self.df", fn)
            changed = [c for c in cols if c not in df.cols or df.cols[c] != sym(c)]
            ctx.count(1, {"version": v, "optics": optics, "fields rewritten by write_out": changed})
            if changed:
                site = last_store(it, df, changed[0]) or fn
                ctx.finding(q, f"fields {changed[:4]} of the list", f"RELION {v}: write_out rewrites {changed[:4]} of the list it exports: the exported names / "
                            f"half-sets then follow the rewritten values ({tm.show(df.cols[changed[0]])[:80] if changed[0] in df.cols else 'absent'}) "
                            "instead of the particle's own numbers, and the caller's list is altered by an export", site, m)


def o312(ctx):
    """pixel size on import: from the particle table's rlnPixelSize if present, else from the optics table -- with ONE optics group every
    particle gets that group's rlnImagePixelSize whatever the particle table's group column holds (cryoCAT's own exporter numbers the group
    1 in the optics table and leaves 0 in the particle table), else 1.0"""
    q = CLS + ".set_pixel_size"
    m, fn = ctx.prog.func(q)
    ctx.touched(q)

    def tables(with_px):
        cols = ["rlnCoordinateX", "rlnOriginXAngst", "rlnOpticsGroup"] + (["rlnPixelSize"] if with_px else [])
        rel = Frame({c: sym("rel:" + c) for c in cols}, list(cols), prefix="rel:", name="relion_df")
        rel.space = Space("particles", how="root")
        opt = Frame({c: sym("opt:" + c) for c in ("rlnOpticsGroup", "rlnImagePixelSize")}, ["rlnOpticsGroup", "rlnImagePixelSize"], prefix="opt:", name="optics")
        opt.space = Space("optics", how="root")
        return rel, opt

    # (a) particle table carries its own pixel size
    rel, opt = tables(True)
    me = Obj(CLS, {"pixel_size": K(None), "relion_df": rel, "optics_data": opt})
    Interp(ctx.prog).run(q, [], {}, self_obj=me)
    t = to_term(me.attrs["pixel_size"])
    ctx.count(1, {"rlnPixelSize column": tm.show(t)[:60]})
    if t != sym("rel:rlnPixelSize"):
        ctx.finding(q, "rlnPixelSize present", f"the particle table's own rlnPixelSize must be used (got {tm.show(t)[:80]})", fn, m)
    # (b) one optics group
    rel, opt = tables(False)
    me = Obj(CLS, {"pixel_size": K(None), "relion_df": rel, "optics_data": opt})
    it = Interp(ctx.prog, assume=assume_map({"len(self.optics_data) == 1": True}))
    it.run(q, [], {}, self_obj=me)
    t = to_term(me.attrs["pixel_size"])
    ctx.count(1, {"one optics group": tm.show(t)[:100]})
    if not tm.has_sym(t, "opt:rlnImagePixelSize") or any(s_.startswith("rel:") for s_ in tm.symbols(t)):
        ctx.finding(q, "one optics group", "with a single optics group every particle must get that group's rlnImagePixelSize, independent of the "
                    f"particle table's own group numbers; the code computes {tm.show(t)[:120]}", fn, m)
    # (c) nothing to go by
    me = Obj(CLS, {"pixel_size": K(None), "relion_df": tables(False)[0], "optics_data": K(None)})
    Interp(ctx.prog).run(q, [], {}, self_obj=me)
    ctx.count(1)
    if not (is_pyconst(me.attrs["pixel_size"]) and pyval(me.attrs["pixel_size"]) == 1.0):
        ctx.finding(q, "no pixel size anywhere", "without rlnPixelSize and without an optics table the pixel size defaults to 1.0", fn, m)


def o311(ctx):
    """version detection: the block names (and, from 3.1 on, the name columns) decide, whether or not an optics block is present"""
    q = CLS + ".get_version_from_file"
    m, fn = ctx.prog.func(q)
    ctx.touched(q, CLS + ".set_version")
    base31 = ["rlnCoordinateX", "rlnCoordinateY", "rlnCoordinateZ", "rlnAngleRot", "rlnAngleTilt", "rlnAnglePsi", "rlnMicrographName",
              "rlnImageName", "rlnOriginXAngst", "rlnOriginYAngst", "rlnOriginZAngst", "rlnClassNumber"]
    base30 = [c.replace("Angst", "") for c in base31]
    base40 = [c for c in base31 if c not in ("rlnMicrographName", "rlnImageName")] + ["rlnTomoName", "rlnTomoParticleName"]
    optics = ["rlnOpticsGroup", "rlnOpticsGroupName", "rlnImagePixelSize"]
    cases = [(["data_"], [base30], 3.0), (["data_particles"], [base31], 3.1), (["data_optics", "data_particles"], [optics, base31], 3.1),
             (["data_particles"], [base40], 4.0), (["data_optics", "data_particles"], [optics, base40], 4.0),
             (["data_optics", "data_particles"], [optics, [c for c in base40 if c != "rlnTomoName"]], 4.0),
             (["data_optics", "data_particles"], [optics, [c for c in base40 if c != "rlnTomoParticleName"]], 4.0),
             (["data_general", "data_optics", "data_particles"], [["rlnTomoSubTomosAre2DStacks"], optics, base40], 4.0)]
    for specs, cols, want in cases:
        frames = []
        for k_, cs in enumerate(cols):
            f_ = Frame({c: sym(f"blk{k_}:{c}") for c in cs}, list(cs), prefix=f"blk{k_}:", name=f"block{k_}")
            f_.space = Space(f"block{k_}", how="root")
            frames.append(f_)
        it = Interp(ctx.prog)
        r = it.run(q, [Seq(frames, "list"), Seq([K(x) for x in specs], "list")], {}, self_obj=ClassRef(CLS))
        ctx.count(1, {"blocks": specs, "name columns": [c for c in cols[-1] if "Name" in c], "version": tm.show(to_term(r.ret))})
        got = pyval(r.ret) if is_pyconst(r.ret) else None
        if got is None and not is_pyconst(r.ret):
            raise Unsupported(f"version of a file with blocks {specs} is not decided statically: {tm.show(to_term(r.ret))[:80]}", fn)
        if got != want:
            ctx.finding(q, f"blocks {specs}", f"a STAR file with the blocks {specs} and the particle columns "
                        f"{[c for c in cols[-1] if 'Name' in c or 'Origin' in c][:4]} is a RELION {want} file; the code reads it as {got} "
                        "(the optics block is optional: origins in Angstrom would be dropped / shifts not scaled)", fn, m)
    # version from the table alone (DataFrame input)
    q2 = CLS + ".set_version"
    m2, fn2 = ctx.prog.func(q2)
    for cs, want in ((base30, 3.0), (base31, 3.1), (base40, 4.0)):
        me = Obj(CLS, {"version": K(None)})
        f_ = Frame({c: sym("in:" + c) for c in cs}, list(cs), prefix="in:", name="input")
        f_.space = Space("input", how="root")
        it = Interp(ctx.prog)
        it.run(q2, [f_], {}, self_obj=me)
        v_ = me.attrs.get("version")
        ctx.count(1, {"table columns": [c for c in cs if "Name" in c or "OriginX" in c], "version": tm.show(to_term(v_))})
        if not (is_pyconst(v_) and pyval(v_) == want):
            ctx.finding(q2, f"columns of a {want} table", f"a table with the columns of RELION {want} must be recognised as version {want}; "
                        f"the code sets {tm.show(to_term(v_))[:40]}", fn2, m2)


def _obligations():
    return [
        Obligation("O3.20", "EM files given by path: read_in returns every particle of the file, fields named in EM order, and a list made from a path holds that table (shared with C01)", _c01.o12, floor=20),
        Obligation("O3.12", "pixel size on import: own column, else the single optics group's value for every particle, else 1.0", o312, floor=3),
        Obligation("O3.11", "version detection from block names / name columns, with and without an optics block", o311, floor=11),
        Obligation("O3.10", "write_out leaves the exported list unchanged (all versions, optics on/off)", o310, floor=6),
        Obligation("O3.9", "import: half-set renumbering automaton -- 1 <-> odd, 2 <-> even, strictly increasing (finite abstraction, exhaustive)", o39, floor=12),
        Obligation("O3.1", "export: ZYZ(rlnAngleRot,Tilt,Psi) is the inverse of the particle rotation (3.0/3.1/4.0)", o31, floor=3),
        Obligation("O3.2", "import: zxz(phi,theta,psi) is the inverse of the RELION rotation, for any order of the angle columns", o32, floor=6),
        Obligation("O3.3", "import: shift = -origin, divided by the pixel size from version 3.1", o33, floor=9),
        Obligation("O3.4", "coordinates, zero origins, class, pixel size and binning on import/export", o34, floor=30),
        Obligation("O3.5", "export half-sets: even subtomogram number -> 2, odd -> 1", o35, floor=3),
        Obligation("O3.6", "generated names carry the padded ids and are parsed back to the same ids", o36, floor=40),
        Obligation("O3.7", "library calls on the RELION conversion paths exist in the installed pandas", o37, floor=20),
        Obligation("O3.8a", "STAR writer on the via-file path: header and row text read back to the table (shared with C02)", lambda ctx: (_star.o23(ctx), _star.o25(ctx)), floor=200),
        Obligation("O3.8c", "STAR tokenizer / writer text on the via-file path: every line seen, text tokenised into the expected roles (shared with C02)", lambda ctx: (_star.o22(ctx), _star.o26(ctx)), floor=230),
        Obligation("O3.8b", "STAR reader on the via-file path: numeric conversion and block tables (shared with C02)", _star.o24, floor=5),
    ]


def obligations():
    return _obligations() + [converters_obligation([("cryomotl.emmotl2relion", {"flip_handedness": K(False), "output_motl_path": K(None)}, {"flip_handedness": False})]), constructors_obligation(['cryomotl.RelionMotl']), labels_obligation("C03"), selectors_obligation("C03"), mutations_obligation("C03"), loopstate_obligation("C03"), effects_obligation("C03"), plumbing_obligation("C03"), overrides_obligation("C03"), options_obligation("C03"), handlers_obligation("C03")]
