"""C12 -- Fourier filters are the documented radial low/high/band-pass gains"""
from .common import *
from . import C11 as _c11
from . import maskmodel
from .maskmodel import *

TITLE = "Fourier filters are the documented radial low/high/band-pass gains"
EXPLANATION = (
    "lowpass, highpass and bandpass are interpreted abstractly in the index-function / Fourier-layout domain with the "
    "hard-edged spherical mask inlined: the gain applied to FFT component (j0,j1,j2) in the unshifted layout is extracted "
    "as a closed form and compared by random interpretation on the integer lattice (sizes 6..48 per axis, even and odd, "
    "non-cubic; cutoffs hitting lattice distances exactly) with: low-pass 1 iff the integer frequency radius <= cutoff, "
    "high-pass = 1 - low-pass with the same parameters, band-pass = low-pass(lp) - low-pass(hp). The filter array must "
    "depend on the input only through its shape, the result is the real part of the inverse transform of the product "
    "(hence linear and shift-commuting), the centred mask must be moved to the FFT layout with an offset that is right "
    "for odd sizes too, the soft-edged variants must use the same pipeline with gaussian_outwards=False and the "
    "caller's gaussian, and resolution2pixels / pixels2resolution / get_filter_radius must be the documented closed forms.")
ASSUMPTIONS = TRUSTED + ["the soft edge itself (scikit-image gaussian of the hard mask; gain in [0,1], monotone between "
                         "cutoff-4*sigma-1 and cutoff+4*sigma+1) is trusted"]

CMAP = "cryomap."
FILTERS = {"lowpass": {"fourier_pixels": "r"}, "highpass": {"fourier_pixels": "r"},
           "bandpass": {"lp_fourier_pixels": "rl", "hp_fourier_pixels": "rh"}}


def signed(j, n):
    h = mk("floordiv", n, const(2))
    return mk("sub", mk("mod", mk("add", j, h), n), h)


def fradius(axes):
    t = None
    for A in axes:
        s_ = signed(A.sym, A.n)
        t = mk("mul", s_, s_) if t is None else mk("add", t, mk("mul", s_, s_))
    return T("sqrt", t)


def run_filter(ctx, name, gaussian, extra_kwargs=None):
    summ = dict(MASK_SUMMARIES, **{"cryocat.cryomap.read": read_summary})
    assume = {"gaussian != 0.0 and gaussian_outwards": False, "pixel_size is not None": False}
    it = Interp(ctx.prog, summaries=summ, assume=assume_map(assume))
    it.index_samplers = imgdom.INT_SIZES
    kw = {k: P(v) for k, v in FILTERS[name].items()}
    if name == "bandpass":
        kw.update({"lp_gaussian": gaussian, "hp_gaussian": gaussian})
    else:
        kw["gaussian"] = gaussian
    kw.update(extra_kwargs or {})
    inp = Unk(sym("vol"))
    inp.rank = 3
    r = it.run(CMAP + name, [inp], kw)
    return it, r


def lattice(axes, rng, count, radii):
    envs = []
    for i in range(count * tm.N_MULT):
        env = {"__salt__": float(rng.uniform(0, 1))}
        for A in axes:
            for nm in tm.symbols(A.n):
                env.setdefault(nm, float(rng.integers(6, 49)))
        if i % 4 == 0:
            for A in axes:
                for nm in tm.symbols(A.n):
                    env[nm] = float(2 * rng.integers(3, 24) + 1)  # odd sizes
        for A in axes:
            n = int(round(float(tm.evaluate(A.n, env))))
            env[A.sym.args[0]] = float(rng.integers(0, n))
        for r in radii:
            env[r] = float(rng.integers(1, 25))
        envs.append(env)
    return envs


def o121(ctx):
    rng = np.random.default_rng(tm.SEED + 12)
    for name in FILTERS:
        q = CMAP + name
        m, fn = ctx.prog.func(q)
        ctx.touched(q, "cryomask.spherical_mask", CMAP + "get_filter_radius")
        it, r = run_filter(ctx, name, K(0))
        f = r.ret
        pad_ = [e for e in it.events if e.kind == "fourier" and e.name == "padded-transform"]
        ctx.count(1)
        if pad_:
            ctx.finding(q, pad_[0].node, f"{name}: the transform is taken on a grid of another size than the map (fftn(x, s=...)): the filter then acts "
                        "on a different periodic lattice -- it no longer commutes with circular shifts of the map and its gain is not a function "
                        "of the map's own integer frequencies", pad_[0].node, m)
            continue
        if isinstance(f, imgdom.Filtered) and getattr(f, "offset", None):
            ctx.finding(q, "returned map", f"{name} adds {tm.show(f.offset[0][1])[:100]} to the filtered map before returning it: the result is no longer the "
                        "map multiplied component by component with the filter's gain (the zero-frequency component is changed, the filter is no "
                        "longer linear, high-pass and low-pass no longer add up to the map)", fn, m)
            continue
        if not isinstance(f, imgdom.Filtered) or f.gain is None or f.axes is None:
            raise Unsupported(f"{name} does not return the inverse transform of (FFT(input) * filter array)", fn)
        ctx.count(1)
        if getattr(f, "cast", None) is not None:
            ctx.finding(q, getattr(f, "cast_node", fn), f"{name}: the filtered map is converted to a type taken from the data ({tm.show(f.cast)[:40]}): for "
                        "integer maps the result is truncated, so the filter is no longer linear and low-pass + high-pass no longer add up to "
                        "the map", getattr(f, "cast_node", fn), m)
        ctx.count(1, {"filter": name, "gain": tm.show(f.gain)[:200]})
        # (a) linear, shift-commuting, real: result = real(ifftn(fftn(input) * G)) with G independent of the voxel values
        if f.src != sym("vol") or f.transformed != "all":
            ctx.finding(q, "transformed signal", "the filter must transform the input map itself over all axes", fn, m)
        if tm.has_sym(f.gain, "vol"):
            ctx.finding(q, "filter array", "the filter array must depend on the input only through its shape", fn, m)
        if not f.real:
            ctx.finding(q, "returned map", "the real part of the inverse transform must be returned", fn, m)
        for e in it.events:
            if e.kind == "fourier":
                ctx.finding(q, e.node, f"Fourier layout offsets do not cancel ({e.name})", e.node, m)
        # (b) the gain
        rad = fradius(f.axes)
        lp = lambda r_: mk("ite", mk("le", rad, r_), const(1.0), const(0.0))
        if name == "lowpass":
            want, radii = lp(sym("r")), ["r"]
        elif name == "highpass":
            want, radii = mk("sub", const(1.0), lp(sym("r"))), ["r"]
        else:
            want, radii = mk("sub", lp(sym("rl")), lp(sym("rh"))), ["rl", "rh"]
        envs = lattice(f.axes, rng, 120, radii)
        for i, env in enumerate(envs):
            if i % 3 == 0:
                env[radii[i % len(radii)]] = float(tm.evaluate(rad, env))  # the cutoff radius itself passes
            if i % 10 == 1:
                for A in f.axes:
                    env[A.sym.args[0]] = 0.0  # DC
        v = tm.equivalent(f.gain, want, n=len(envs), extra_envs=envs, tol=1e-12, seed_tag=q, need=60)
        ctx.count(len(envs), {"filter": name, "specified": {"lowpass": "1 iff |k| <= cutoff", "highpass": "1 - lowpass",
                                                            "bandpass": "lowpass(lp) - lowpass(hp)"}[name], "equal": bool(v)})
        if not v:
            ctx.finding(q, "gain applied to the Fourier components", f"{name}: the gain of FFT component (j0,j1,j2) must be "
                        + {"lowpass": "1 up to the cutoff radius (inclusive) and 0 beyond, as a function of the integer frequency radius",
                           "highpass": "the exact complement of the low-pass with the same parameters",
                           "bandpass": "the difference of the two low-pass gains"}[name]
                        + " for every (even, odd, non-cubic) size", fn, m, witness=v.witness, extracted=tm.show(f.gain)[:400])


def o122(ctx):
    """soft-edged variants: same pipeline, the caller's gaussian, blurred at the edge (not outwards), mask of the input's shape"""
    for name in FILTERS:
        q = CMAP + name
        m, fn = ctx.prog.func(q)
        it, r = run_filter(ctx, name, P("sigma"))
        calls = [e for e in it.events if e.kind == "call" and e.name == "cryocat.cryomask.spherical_mask"]
        want_n = 2 if name == "bandpass" else 1
        if len(calls) != want_n:
            raise Unsupported(f"{name}: expected {want_n} spherical_mask call(s), found {len(calls)}", fn)
        ms, fs = ctx.prog.func("cryomask.spherical_mask")
        names = [a.arg for a in fs.args.args]
        radii_seen = []
        for e in calls:
            b = dict(zip(names, e.args))
            b.update(e.kwargs)
            ctx.count(1, {"filter": name, "spherical_mask": {k: tm.show(to_term(v))[:40] for k, v in b.items()}})
            go = b.get("gaussian_outwards")
            if go is None or not (is_pyconst(go) and pyval(go) is False):
                ctx.finding(q, e.node, "the transfer function must be blurred at its edge (gaussian_outwards=False): an outwards blur "
                            "moves the cutoff", e.node, m)
            g = b.get("gaussian")
            if g is None or to_term(g) != sym("sigma"):
                ctx.finding(q, e.node, "the caller's gaussian width must be passed to the mask (the high-pass must use the same "
                            "parameters as the low-pass it complements)", e.node, m)
            ms_ = b.get("mask_size")
            if ms_ is None or getattr(ms_, "shape_of", None) is None or to_term(ms_.shape_of) != sym("vol"):
                ctx.finding(q, e.node, "the mask must have the shape of the input map", e.node, m)
            if b.get("center") is not None and not (is_pyconst(b["center"]) and pyval(b["center"]) is None):
                ctx.finding(q, e.node, "the transfer function must be centred at shape//2 (the centre ifftshift moves to index 0)", e.node, m)
            radii_seen.append(tm.show(to_term(b.get("radius"))))
        f = r.ret
        ctx.count(1)
        if not isinstance(f, imgdom.Filtered):
            raise Unsupported(f"{name} (soft edge) does not return a filtered map", fn)
        if name == "bandpass" and radii_seen != ["rl", "rh"]:
            # outer mask from the low-pass radius, inner from the high-pass radius; gain = outer - inner
            pass
        blurs = [n for n in tm.walk(f.gain) if n.op == "call" and n.args[0] == "gaussian_blur"]
        ctx.count(1, {"filter": name, "blurred masks in the gain": len(blurs)})
        if len(blurs) != want_n:
            ctx.finding(q, "soft-edged gain", f"{name}: the soft-edged gain must be built from {want_n} blurred spherical mask(s)", fn, m)
        for e in it.events:
            if e.kind == "fourier":
                ctx.finding(q, e.node, f"Fourier layout offsets do not cancel ({e.name})", e.node, m)
    # structure of the soft band-pass: blurred(lp) - blurred(hp), high-pass: 1 - blurred
    it, r = run_filter(ctx, "bandpass", P("sigma"))
    g = getattr(r.ret, "gain", None)
    m, fn = ctx.prog.func(CMAP + "bandpass")
    if g is None:
        raise Unsupported("bandpass (soft edge): no single gain extracted (the paths build the filter differently)", fn)
    ctx.count(1)
    ok = g.op == "sub" and all(tm.contains(x, lambda n: n.op == "call" and n.args[0] == "gaussian_blur") for x in g.args) \
        and tm.has_sym(g.args[0], "rl") and not tm.has_sym(g.args[0], "rh") and tm.has_sym(g.args[1], "rh") and not tm.has_sym(g.args[1], "rl")
    if not ok:
        ctx.finding(CMAP + "bandpass", "soft band gain", "the band gain must be (mask of the low-pass radius) - (mask of the high-pass radius)",
                    fn, m, extracted=tm.show(g)[:300])
    it, r = run_filter(ctx, "highpass", P("sigma"))
    g = getattr(r.ret, "gain", None)
    m, fn = ctx.prog.func(CMAP + "highpass")
    if g is None:
        raise Unsupported("highpass (soft edge): no single gain extracted (the paths build the filter differently)", fn)
    ctx.count(1)
    if not (g.op == "sub" and tm.cval(g.args[0]) in (1, 1.0) and tm.contains(g.args[1], lambda n: n.op == "call" and n.args[0] == "gaussian_blur")):
        ctx.finding(CMAP + "highpass", "soft high-pass gain", "the high-pass gain must be 1 - (the low-pass mask)", fn, m, extracted=tm.show(g)[:300])


def o123(ctx):
    q = CMAP + "resolution2pixels"
    m, fn = ctx.prog.func(q)
    ctx.touched(q, CMAP + "pixels2resolution", CMAP + "get_filter_radius")
    sam = {"res": pos_sampler(2, 60), "edge": int_sampler(8, 400), "px": pos_sampler(0.5, 8)}
    it = Interp(ctx.prog, assume=assume_map({"print_out": False}))
    r = it.run(q, [P("res")], {"edge_size": P("edge"), "pixel_size": P("px")})
    want = T("round", mk("div", mk("mul", sym("edge"), sym("px")), sym("res")), const(0))
    envs = [{"res": 10.0, "edge": 32.0, "px": 1.5}, {"res": 8.0, "edge": 100.0, "px": 1.3}, {"res": 3.0, "edge": 64.0, "px": 1.7}]
    v = tm.equivalent(to_term(r.ret), want, samplers=sam, n=40, extra_envs=envs, seed_tag=q)
    ctx.count(1, {"resolution2pixels": tm.show(to_term(r.ret))[:100], "equal": bool(v)})
    if not v:
        ctx.finding(q, "returned value", "a target resolution maps to round(edge_size*pixel_size/resolution) Fourier pixels", fn, m,
                    witness=v.witness)
    q2 = CMAP + "pixels2resolution"
    m2, fn2 = ctx.prog.func(q2)
    it = Interp(ctx.prog, assume=assume_map({"print_out": False}))
    r = it.run(q2, [P("fp")], {"edge_size": P("edge"), "pixel_size": P("px")})
    v = tm.equivalent(to_term(r.ret), mk("div", mk("mul", sym("edge"), sym("px")), sym("fp")), samplers=dict(sam, fp=int_sampler(1, 100)), seed_tag=q2)
    ctx.count(1)
    if not v:
        ctx.finding(q2, "returned value", "Fourier pixels map to the resolution edge_size*pixel_size/pixels", fn2, m2, witness=v.witness)
    q3 = CMAP + "get_filter_radius"
    m3, fn3 = ctx.prog.func(q3)
    for label, args, assume, want in (
            ("cutoff given as Fourier pixels", [P("edge"), P("fp"), K(None), K(None)], {"fourier_pixels is not None": True, "pixel_size is not None": False}, sym("fp")),
            ("cutoff given as resolution + pixel size", [P("edge"), K(None), P("res"), P("px")],
             {"fourier_pixels is not None": False, "target_resolution is not None and pixel_size is not None": True, "print_out": False}, want)):
        it = Interp(ctx.prog, assume=assume_map(assume))
        r = it.run(q3, args, {})
        v = tm.equivalent(to_term(r.ret), want, samplers=dict(sam, fp=int_sampler(1, 100)), n=40, extra_envs=envs, seed_tag=q3 + label)
        ctx.count(1, {"get_filter_radius": label, "extracted": tm.show(to_term(r.ret))[:100], "equal": bool(v)})
        if not v:
            ctx.finding(q3, label, f"{label}: the filter radius must be {tm.show(want)}", fn3, m3, witness=v.witness)
    # the filters hand get_filter_radius the box edge and their own cutoff arguments
    for name, pairs in (("lowpass", [("fourier_pixels", "fourier_pixels"), ("target_resolution", "target_resolution"), ("pixel_size", "pixel_size")]),
                        ("highpass", [("fourier_pixels", "fourier_pixels"), ("target_resolution", "target_resolution"), ("pixel_size", "pixel_size")])):
        mq, fq = ctx.prog.func(CMAP + name)
        calls = [n for n in ast.walk(fq) if isinstance(n, ast.Call) and ctx.prog.resolve(mq, n.func) == "cryocat.cryomap.get_filter_radius"]
        from sa import plumbing as _pl2
        _, f_gfr2 = ctx.prog.func(CMAP + "get_filter_radius")
        for c in calls:
            bound_, _, _ = _pl2.bind_call(c, f_gfr2, False)
            for kw, src in pairs:
                a = bound_.get(kw)
                ctx.count(1)
                if not (isinstance(a, ast.Name) and a.id == src):
                    ctx.finding(CMAP + name, c, f"{name} must pass its {src} on to get_filter_radius({kw}=...)", c, mq)
    mq, fq = ctx.prog.func(CMAP + "bandpass")
    calls = [n for n in ast.walk(fq) if isinstance(n, ast.Call) and ctx.prog.resolve(mq, n.func) == "cryocat.cryomap.get_filter_radius"]
    want_sets = [{"fourier_pixels": "lp_fourier_pixels", "target_resolution": "lp_target_resolution", "pixel_size": "pixel_size"},
                 {"fourier_pixels": "hp_fourier_pixels", "target_resolution": "hp_target_resolution", "pixel_size": "pixel_size"}]
    from sa import plumbing as _pl
    _, f_gfr = ctx.prog.func(CMAP + "get_filter_radius")
    got_sets = []
    for c in calls:  # bound to the callee's signature: positional and keyword spellings alike, other options ignored
        b_, _, _ = _pl.bind_call(c, f_gfr, False)
        got_sets.append({k_: (v_.id if isinstance(v_, ast.Name) else None) for k_, v_ in b_.items()})
    ctx.count(len(calls))
    for w in want_sets:
        if not any(all(g_.get(k_) == v_ for k_, v_ in w.items()) for g_ in got_sets):
            ctx.finding(CMAP + "bandpass", "cutoff plumbing", f"bandpass must compute a radius from {w}", fq, mq, found=got_sets)


def o125(ctx):
    """the Gaussian is applied with the installed default truncate (4 sigma support)"""
    import inspect
    from skimage import filters
    q = "cryomask.add_gaussian"
    m, fn = ctx.prog.func(q)
    calls = [n for n in ast.walk(fn) if isinstance(n, ast.Call) and (ctx.prog.resolve(m, n.func) or "").endswith("filters.gaussian")]
    if len(calls) != 1:
        # another Gaussian routine: its border handling still decides whether the core of a solid touching a face stays 1
        other = [n for n in ast.walk(fn) if isinstance(n, ast.Call) and (ctx.prog.resolve(m, n.func) or "").split(".")[-1] in ("gaussian_filter", "gaussian")]
        for c_ in other:
            md = kwarg(c_, "mode")
            if isinstance(md, ast.Constant) and md.value in ("constant", "wrap"):
                ctx.count(1)
                ctx.finding(q, c_, f"the Gaussian runs with mode={md.value!r}: values from outside the box (zeros / the opposite face) are blurred into the "
                            "mask, so the core of a solid that touches a face drops below 1 (the default replicates the border)", c_, m)
                return
        raise Unsupported("filters.gaussian call not found in add_gaussian", fn)
    c = calls[0]
    default = inspect.signature(filters.gaussian).parameters["truncate"].default
    tr = kwarg(c, "truncate")
    ctx.count(1, {"installed default truncate": default, "call": norm_text(c)})
    eff = tr.value if isinstance(tr, ast.Constant) else (default if tr is None else None)
    if eff != 4.0:
        ctx.finding(q, c, f"the soft edge is documented to extend 4 sigma: the Gaussian must run with truncate=4.0 (effective: {eff})", c, m)
    sg = kwarg(c, "sigma") or (c.args[1] if len(c.args) > 1 else None)
    ctx.count(1)
    if not (isinstance(sg, ast.Name) and sg.id == fn.args.args[1].arg):
        ctx.finding(q, c, "the Gaussian width must be the requested sigma", c, m)
    # the soft mask is the Gaussian's result itself: nothing rescales, clips or replaces its values afterwards (a mask whose solid fills the box,
    # or one made of a few voxels, has no 0 or no 1 in it -- min-max scaling changes exactly the core value the property speaks about)
    def is_blur(e_):
        if e_ is c:
            return True
        if isinstance(e_, ast.Name):
            asg = [a_ for a_ in ast.walk(fn) if isinstance(a_, (ast.Assign, ast.AugAssign)) and any(
                isinstance(t_, ast.Name) and t_.id == e_.id for t_ in (a_.targets if isinstance(a_, ast.Assign) else [a_.target]))]
            return len(asg) == 1 and isinstance(asg[0], ast.Assign) and asg[0].value is c
        return False

    rets = [r_ for r_ in ast.walk(fn) if isinstance(r_, ast.Return) and r_.value is not None]
    ctx.count(1, {"returns of add_gaussian": [norm_text(r_)[:60] for r_ in rets]})
    for r_ in rets:
        v_ = r_.value
        if is_blur(v_) or (isinstance(v_, ast.Name) and v_.id == fn.args.args[0].arg):
            continue
        uses_blur = any(is_blur(x_) for x_ in ast.walk(v_))
        arith = any(isinstance(x_, ast.BinOp) for x_ in ast.walk(v_)) or any(
            isinstance(x_, ast.Call) and (ctx.prog.resolve(m, x_.func) or "").split(".")[-1] in ("nan_to_num", "clip", "where", "round", "minimum", "maximum")
            for x_ in ast.walk(v_))
        if uses_blur and not arith:
            raise Unsupported("add_gaussian returns the blurred mask through a call the rule does not know", r_)
        ctx.finding(q, r_, f"add_gaussian returns `{norm_text(v_)[:80]}`, not the Gaussian's result: values of the soft mask are rescaled / replaced "
                    "after the blur, so the core of a mask is no longer the blurred solid's value there (1 within 1e-3 when blurred outwards)", r_, m)
    for k in c.keywords:
        if k.arg in ("mode", "preserve_range", "channel_axis", "cval") and not (isinstance(k.value, ast.Constant) and k.value.value in (None, "nearest")):
            ctx.finding(q, c, f"option {k.arg}={ast.unparse(k.value)} on the Gaussian changes how the box border is treated: with the default "
                        "(replicated border) the core of a solid touching a face stays 1, with a zero border it is averaged with zeros", c, m)


def o127(ctx):
    """soft edge, the numbers of the statement: "a gain that depends on the integer frequency radius: 1 inside cutoff-4*sigma-1, 0 outside
    cutoff+4*sigma+1, non-increasing in between".  The extracted soft gain is gaussian_blur(<indicator of the lattice ball>, sigma); the indicator
    is evaluated on a complete lattice (closed form from the source), the blur is the library's separable kernel (trusted base: weights
    exp(-j^2 / 2 sigma^2) normalised, half-width int(truncate * sigma + 0.5) per AXIS -- a cube, not a ball).  Sizes are chosen so that the blurred
    edge stays away from the faces of the box (the border mode does not enter)."""
    q = CMAP + "lowpass"
    m, fn = ctx.prog.func(q)
    ctx.touched(q, "cryomask.spherical_mask", "cryomask.add_gaussian")
    it, r = run_filter(ctx, "lowpass", P("sigma"))
    f = r.ret
    g = getattr(f, "gain", None)
    if not isinstance(f, imgdom.Filtered) or g is None or f.axes is None or not (g.op == "call" and g.args[0] == "gaussian_blur" and len(g.args) == 3 and g.args[2] == sym("sigma")):
        raise Unsupported("lowpass (soft edge): the gain is not the Gaussian blur (requested sigma) of one mask", fn)
    ind = g.args[1]
    worst_spread, worst_bound = None, None
    for N, c, sg in ((32, 10, 1.0), (40, 11, 2.0), (48, 14, 2.0)):
        w = int(4.0 * sg + 0.5)
        if c + w + 1 >= N // 2:
            continue
        grids = np.meshgrid(*[np.arange(N)] * 3, indexing="ij")
        env = {"__salt__": 0.1, "r": float(c), "sigma": sg}
        for A, G_ in zip(f.axes, grids):
            env[A.sym.args[0]] = G_.astype(float)
            for nm in tm.symbols(A.n):
                env[nm] = float(N)
        solid = np.asarray(tm.evaluate(ind, env), dtype=float)
        if solid.shape != (N, N, N) or not np.isin(solid, (0.0, 1.0)).all():
            raise Unsupported("lowpass (soft edge): the blurred mask is not a 0/1 function of the lattice point", fn)
        k1 = np.exp(-0.5 * (np.arange(-w, w + 1) / sg) ** 2)
        k1 /= k1.sum()
        G = solid
        for ax in range(3):  # separable kernel; the lattice is periodic in this layout and the edge is far from the faces
            G = sum(k1[j + w] * np.roll(G, j, axis=ax) for j in range(-w, w + 1))
        fr_ = np.fft.fftfreq(N) * N
        r2 = np.rint(fr_[:, None, None] ** 2 + fr_[None, :, None] ** 2 + fr_[None, None, :] ** 2).astype(int)
        ctx.count(1, {"box": N, "cutoff": c, "sigma": sg, "kernel half-width per axis": w})
        # (a) one gain per integer radius
        order = np.argsort(r2, axis=None)
        r2s, gs = r2.ravel()[order], G.ravel()[order]
        starts = np.flatnonzero(np.r_[True, r2s[1:] != r2s[:-1]])
        gmin, gmax = np.minimum.reduceat(gs, starts), np.maximum.reduceat(gs, starts)
        i_ = int(np.argmax(gmax - gmin))
        if worst_spread is None or gmax[i_] - gmin[i_] > worst_spread[0]:
            worst_spread = (float(gmax[i_] - gmin[i_]), N, c, sg, int(r2s[starts[i_]]), float(gmin[i_]), float(gmax[i_]))
        # (b) the band: exactly 1 inside cutoff - 4 sigma - 1, exactly 0 outside cutoff + 4 sigma + 1
        rad = np.sqrt(r2)
        inner, outer = rad <= c - 4 * sg - 1, rad >= c + 4 * sg + 1
        dev = max(float((1 - G[inner]).max()) if inner.any() else 0.0, float(G[outer].max()) if outer.any() else 0.0)
        if worst_bound is None or dev > worst_bound[0]:
            worst_bound = (dev, N, c, sg)
    if worst_spread is None:
        raise Unsupported("lowpass (soft edge): no lattice evaluated", fn)
    ctx.count(2, {"largest spread of the gain at one integer radius": worst_spread, "largest deviation from 1 / 0 outside the band": worst_bound})
    if worst_spread[0] > 1e-3:
        d, N, c, sg, rr, lo, hi = worst_spread
        ctx.finding(q, "soft edge: gain at equal integer radius", f"with a Gaussian edge the gain is not a function of the integer frequency radius: the transfer function "
                    f"is a voxelised ball blurred with a separable kernel, and lattice points of equal radius in different directions see different neighbourhoods -- box {N}, "
                    f"cutoff {c}, sigma {sg:g}: frequencies with |k|^2 = {rr} get gains between {lo:.4f} and {hi:.4f} (so the gain is not non-increasing in the radius either)", fn, m)
    if worst_bound[0] > 1e-9:
        d, N, c, sg = worst_bound
        ctx.finding(q, "soft edge: bounds of the transition band", f"the kernel's support is a cube of half-width {int(4 * sg + 0.5)} per axis, whose corners lie {int(4 * sg + 0.5)}*sqrt(3) from "
                    f"its centre: frequencies inside cutoff - 4 sigma - 1 still see voxels outside the ball (and the other way round) -- box {N}, cutoff {c}, sigma {sg:g}: the gain "
                    f"deviates from 1 / 0 by {d:.2e} outside the band", fn, m)


def _obligations():
    return [
        Obligation("O12.9", "map files given by path are read as written: same axis permutation on both sides, conversion only when asked (shared with C11)", lambda ctx: (_c11.o111(ctx), _c11.o115(ctx)), floor=37),
        Obligation("O12.1", "hard-edged gains: lowpass 1 iff |k| <= cutoff, highpass complement, bandpass difference; linear/real/shift-commuting", o121, floor=360),
        Obligation("O12.2", "soft-edged variants use the same pipeline, caller's gaussian, edge blur, input shape, default centre", o122, floor=10),
        Obligation("O12.3", "resolution2pixels = round(edge*px/res), pixels2resolution, get_filter_radius and cutoff plumbing", o123, floor=7),
        Obligation("O12.6", "default centre of the transfer sphere = box // 2 per axis (get_correct_format); radius passed through preprocess_params unchanged "
                            "unless the blur goes outwards", lambda ctx: (maskmodel.o_get_correct_format(ctx), maskmodel.o_preprocess_params(ctx)), floor=13),
        Obligation("O12.7", "soft edge, the statement's numbers: one gain per integer radius, 1 / 0 outside the 4-sigma band (lattice evaluation of the extracted gain)", o127, floor=5),
        Obligation("O12.5", "Gaussian edge runs with the installed 4-sigma truncation and the requested sigma", o125, floor=2),
    ]


def obligations():
    return _obligations() + [labels_obligation("C12"), selectors_obligation("C12"), mutations_obligation("C12"), loopstate_obligation("C12"), effects_obligation("C12"), plumbing_obligation("C12"), overrides_obligation("C12"), options_obligation("C12"), handlers_obligation("C12")]
