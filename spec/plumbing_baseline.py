"""Confirmed reference for E20 (sa/plumbing.py), generated from the tree at cryoCAT bb2db4f and read through once.
CROSSED: call sites that bind a caller parameter to a differently named callee parameter although a same-named one exists
(all three are outside the 20 properties: a mask handed on as `segmentation`, surface parameters as `input_motl`, and a
class-level call of Motl.write_out).  DROPPED: call sites where caller and callee share an option name and the call does not
pass it -- on today's tree these are deliberate (the helper writes no file of its own / builds the hard-edged inner solids /
uses the class default), or outside the properties.  A new entry of either kind is reported."""
CROSSED = [('memthick.extract_surface_points', 'memthick.is_surface_point', 'segmentation', 'membrane_mask'),
 ('structure.MAK.get_centre_from_mean_subunit_location', 'cryomotl.Motl.write_out', 'motl_type', 'output_path'),
 ('structure.PleomorphicSurface.compute_normals', 'structure.PleomorphicSurface.get_parametric_description', 'input_motl', 'surface_params')]

DROPPED = [('cryomap.bandpass', 'cryomask.spherical_mask', 'output_name'),
 ('cryomap.highpass', 'cryomask.spherical_mask', 'output_name'),
 ('cryomap.lowpass', 'cryomask.spherical_mask', 'output_name'),
 ('cryomask.cylindrical_mask_from_points', 'cryomap.rotate', 'output_name'),
 ('cryomask.cylindrical_mask_from_points', 'cryomask.cylindrical_mask', 'output_name'),
 ('cryomask.difference', 'cryomask.intersection', 'output_name'),
 ('cryomask.difference', 'cryomask.union', 'output_name'),
 ('cryomask.ellipsoid_shell_mask', 'cryomask.ellipsoid_mask', 'angles'),
 ('cryomask.ellipsoid_shell_mask', 'cryomask.ellipsoid_mask', 'gaussian'),
 ('cryomask.ellipsoid_shell_mask', 'cryomask.ellipsoid_mask', 'output_name'),
 ('cryomask.spherical_shell_mask', 'cryomask.spherical_mask', 'gaussian'),
 ('cryomask.spherical_shell_mask', 'cryomask.spherical_mask', 'output_name'),
 ('cryomotl.Motl.clean_by_otsu', 'cryomotl.Motl.get_motl_subset', 'feature_id'),
 ('cryomotl.emmotl2relion', 'cryomotl.RelionMotl.write_out', 'binning'),
 ('cryomotl.emmotl2relion', 'cryomotl.RelionMotl.write_out', 'pixel_size'),
 ('cryomotl.stopgap2relion', 'cryomotl.RelionMotl.write_out', 'binning'),
 ('cryomotl.stopgap2relion', 'cryomotl.RelionMotl.write_out', 'pixel_size'),
 ('pana.cut_the_best_subtomo', 'cryomap.extract_subvolume', 'output_file'),
 ('ribana.get_monosome_stats', 'ribana.get_nn_distances', 'feature'),
 ('ribana.get_monosome_stats', 'ribana.get_nn_rotations', 'feature'),
 ('ribana.trace_chains', 'ribana.add_chain_prefix', 'store_dist'),
 ('ribana.trace_chains', 'ribana.add_chain_suffix', 'store_dist'),
 ('structure.PleomorphicSurface.clean_by_radius', 'structure.PleomorphicSurface.get_parametric_description', 'output_file'),
 ('structure.PleomorphicSurface.compute_normals', 'structure.PleomorphicSurface.get_parametric_description', 'output_file'),
 ('tmana.select_peaks', 'tmana.create_angular_distance_maps', 'angles_order'),
 ('visplot.plot_classification_convergence', 'visplot.plot_class_occupancy', 'graph_title'),
 ('visplot.plot_classification_convergence', 'visplot.plot_class_occupancy', 'output_file'),
 ('visplot.plot_classification_convergence', 'visplot.plot_class_stability', 'graph_title'),
 ('visplot.plot_classification_convergence', 'visplot.plot_class_stability', 'output_file'),
 ('visplot.plot_orientational_distribution', 'visplot.create_smooth_polar_histogram', 'colormap')]
