"""C04 -- STOPGAP <-> cryoCAT conversion is a lossless renaming with parity half-sets"""
from .common import *
from . import C01 as _c01
from sa import apicompat
from . import C02 as _star
from . import C01 as _em

TITLE = "STOPGAP <-> cryoCAT conversion is a lossless renaming with parity half-sets"
EXPLANATION = (
    "StopgapMotl.pairs is compared with the documented renaming (bijection of 14 fields, keys in motl_columns, values in "
    "StopgapMotl.columns). convert_to_sg_motl, convert_to_motl and StopgapMotl.write_out (for update_coord and reset_index "
    "in {False,True}, on a list that was itself loaded from STOPGAP form, i.e. with a cached sg_df) are interpreted "
    "abstractly; every STOPGAP column reaching Starfile.write must equal the like-named field of the *current* table "
    "(after update_coordinates when requested), halfset must be A for even / B for odd subtomogram numbers, motl_idx the "
    "subtomogram number or 1..N, no sort on the path, fillna(0) before writing, block name data_stopgap_motivelist.")
ASSUMPTIONS = TRUSTED + ["STAR text precision is C02's concern; keep_halfsets renumbering loop is not decided"]

CLS = "cryomotl.StopgapMotl"
RENAMING = {"subtomo_id": "subtomo_num", "tomo_id": "tomo_num", "object_id": "object", "x": "orig_x", "y": "orig_y",
            "z": "orig_z", "score": "score", "shift_x": "x_shift", "shift_y": "y_shift", "shift_z": "z_shift", "phi": "phi",
            "psi": "psi", "theta": "the", "class": "class"}
INT_ID = {"subtomo_id": int_sampler(1, 9000)}
HALF = {c: half_integer_sampler() for c in ("x", "y", "z", "shift_x", "shift_y", "shift_z")}


def o41(ctx):
    pairs = ctx.prog.class_attr(CLS, "pairs")
    cols = ctx.prog.class_attr(CLS, "columns")
    motl_cols = ctx.prog.class_attr("cryomotl.Motl", "motl_columns")
    m, node = ctx.prog.class_attr_node(CLS, "pairs")
    ctx.count(len(pairs), {"pairs": pairs})
    if len(set(pairs.values())) != len(pairs):
        ctx.finding(CLS, node, "StopgapMotl.pairs maps two fields onto the same STOPGAP column", node, m)
    for k, v in RENAMING.items():
        if pairs.get(k) != v:
            ctx.finding(CLS, f"pairs[{k!r}]", f"documented renaming {k} <-> {v}; the table has {k} -> {pairs.get(k)!r}", node, m)
    for k in pairs:
        if k not in RENAMING:
            ctx.finding(CLS, f"pairs[{k!r}]", f"unexpected field {k!r} in the renaming table", node, m)
        if k not in motl_cols:
            ctx.finding(CLS, f"pairs[{k!r}]", f"{k!r} is not a particle-list field", node, m)
        if pairs[k] not in cols:
            ctx.finding(CLS, f"pairs[{k!r}]", f"{pairs[k]!r} is not a STOPGAP column", node, m)
    ctx.count(1, {"columns": cols})
    for extra in ("motl_idx", "halfset"):
        if extra not in cols:
            ctx.finding(CLS, "StopgapMotl.columns", f"STOPGAP column {extra!r} missing", node, m)
    if len(cols) != 16 or len(set(cols)) != 16:
        ctx.finding(CLS, "StopgapMotl.columns", f"STOPGAP motive lists have 16 distinct columns, the table lists {len(cols)}", node, m)


def check_sg_frame(ctx, it, q, sg, src, reset, label, m, fn, samplers=None):
    """sg: the STOPGAP table produced; src: dict motl field -> expected term"""
    exp = {RENAMING[k]: src[k] for k in RENAMING}
    if not reset:
        exp["motl_idx"] = src["subtomo_id"]
    expect_cols(ctx, it, q, sg, exp, samplers=samplers, what=label)
    # half-set letters, evaluated on integer subtomogram numbers
    ht = sg.cols.get("halfset")
    bad = []
    if ht is None:
        ctx.finding(q, "halfset column", f"{label}: no halfset column", fn, m)
    else:
        # a branch taken on a property of the whole list (its size, "all rows alike", a count) is followed on both sides: the letter of a
        # particle follows from its own subtomogram number whatever the rest of the list looks like
        def whole_list(c_):
            return tm.contains(c_, lambda n: n.op == "call" and (str(n.args[0]).startswith("reduce:") or str(n.args[0]) in
                                                                 ("nrows", "len", "size", ".size", "numpy.all", "numpy.any", "numpy.unique", "unique", ".nunique")))
        variants = [("", ht)]
        for n in tm.walk(ht):
            if n.op == "ite" and whole_list(n.args[0]):
                variants = [("", ht), (f" when ({tm.show(n.args[0])[:60]}) holds", tm.subst(ht, {n: n.args[1]})),
                            (f" when ({tm.show(n.args[0])[:60]}) does not hold", tm.subst(ht, {n: n.args[2]}))]
                break
        for vlabel, hv in variants:
          for sid, other in ((1, 0), (2, 0), (3, 0), (10, 0), (77, 0), (1000, 0), (4711, 0), (2, 1), (3, 1), (10, 3), (77, 5)):
            env = {"subtomo_id": float(sid), "__salt__": 0.3}
            for s_ in tm.symbols(hv):
                env.setdefault(s_, float(sid + other))  # anything else the letter is computed from (a row position, another field) varies independently
            try:
                got = tm.evaluate(hv, env)
                want_sid = tm.evaluate(src["subtomo_id"], dict(env))
            except tm.EvalError as e:
                raise Unsupported(f"halfset term not evaluable: {e}", fn)
            want = "A" if int(round(float(want_sid))) % 2 == 0 else "B"
            try:
                got = str(np.asarray(got).item()) if not isinstance(got, str) else got
            except ValueError as e:
                raise Unsupported(f"halfset term does not evaluate to one letter per particle: {e}", fn)
            ctx.count(1)
            if got != want:
                bad.append((str(sid) + vlabel, got, want))
        if bad:
            node = last_store(it, sg, "halfset") or fn
            ctx.finding(q, node, f"{label}: halfset must be 'A' for even and 'B' for odd subtomogram numbers "
                        f"(subtomo_id, got, expected): {bad[:4]}", node, m, extracted=tm.show(ht)[:200])
    if reset:
        mt = sg.cols.get("motl_idx")
        ctx.count(1, {"motl_idx (reset)": tm.show(mt)[:100] if mt is not None else None})
        ok = mt is not None and mt.op == "call" and mt.args[0] == "range" and tm.cval(mt.args[1]) == 1 \
            and len(mt.args) == 3 and mt.args[2].op == "add" and tm.cval(mt.args[2].args[1]) == 1 \
            and mt.args[2].args[0].op == "call" and mt.args[2].args[0].args[0] == "nrows"
        if not ok:
            node = last_store(it, sg, "motl_idx") or fn
            ctx.finding(q, node, f"{label}: with reset_index the motl_idx column must be 1..N (range(1, N+1))", node, m,
                        extracted=tm.show(mt)[:120] if mt is not None else None)
    ctx.count(1)
    if any(n[0] in ("sort_values", "sort_index", "drop_duplicates") for n in sg.notes):
        ctx.finding(q, "row order", f"{label}: the particle order must be preserved (no sort / de-duplication on the path)", fn, m)


def o42(ctx):
    q = CLS + ".convert_to_sg_motl"
    m, fn = ctx.prog.func(q)
    ctx.touched(q, CLS + ".sg_df_reset_index")
    for reset in (False, True):
        it = Interp(ctx.prog)
        r = it.run(q, [motl_frame(ctx.prog), K(reset)], {})
        if not isinstance(r.ret, Frame):
            raise Unsupported("convert_to_sg_motl does not return a table", fn)
        src = {k: sym(k) for k in RENAMING}
        check_sg_frame(ctx, it, q, r.ret, src, reset, f"convert_to_sg_motl(reset_index={reset})", m, fn, samplers=INT_ID)
        cols = ctx.prog.class_attr(CLS, "columns")
        ctx.count(1)
        if r.ret.order != list(cols):
            ctx.finding(q, "column order of the STOPGAP table", "the STOPGAP table must have exactly StopgapMotl.columns in order",
                        fn, m, got=r.ret.order)
        for ev in it.events:
            if ev.kind == "api" and ev.name == "str-into-float-column":
                ctx.finding(q, ev.node, "a text value is stored through a row mask into a column created as float64 "
                            "(TypeError under the installed pandas for every list)", ev.node, m)
    # import direction
    q2 = CLS + ".convert_to_motl"
    m2, fn2 = ctx.prog.func(q2)
    ctx.touched(q2)
    it = Interp(ctx.prog, assume=assume_map({"keep_halfsets": False}))
    me = Obj(CLS, {"df": motl_frame(ctx.prog), "sg_df": Frame(name="sg")})
    me.attrs["df"].labels_adopt = True  # the constructor starts from the empty table of Motl.__init__: the first stored column brings the labels
    sgf = Frame({c: sym("sg:" + c) for c in ctx.prog.class_attr(CLS, "columns")}, list(ctx.prog.class_attr(CLS, "columns")),
                prefix="sg:", name="stopgap_df")
    sgf.space = Space("sg", how="root")
    it.run(q2, [sgf], {}, self_obj=me)
    df = me.attrs["df"]
    expect_cols(ctx, it, q2, df, {k: sym("sg:" + v) for k, v in RENAMING.items()},
                unchanged=[c for c in ctx.prog.class_attr("cryomotl.Motl", "motl_columns") if c not in RENAMING],
                what="convert_to_motl (STOPGAP -> particle list)")


def o48(ctx):
    """the import wrapper: stopgap2emmotl(table) with default options returns the renamed fields of the table, nothing renumbered"""
    q = "cryomotl.stopgap2emmotl"
    m, fn = ctx.prog.func(q)
    ctx.touched(q)
    cols = list(ctx.prog.class_attr(CLS, "columns"))
    sgf = Frame({c: sym("sg:" + c) for c in cols}, list(cols), prefix="sg:", name="stopgap_df")
    sgf.space = Space("sg", how="root")
    it = Interp(ctx.prog, assume=assume_map({"isinstance(input_motl, str)": False}))
    r = it.run(q, [sgf], {})
    df = r.ret.attrs.get("df") if isinstance(r.ret, Obj) else None
    if not isinstance(df, Frame):
        raise Unsupported("stopgap2emmotl does not return a particle list", fn)
    expect_cols(ctx, it, q, df, {k: sym("sg:" + v) for k, v in RENAMING.items()}, samplers=INT_ID,
                what="stopgap2emmotl with default options (STOPGAP table -> particle list)")
    ctx.count(1)
    if r.ret.cls != "cryomotl.EmMotl":
        ctx.finding(q, "returned object", f"stopgap2emmotl must return an EmMotl (returns {r.ret.cls})", fn, m)


def o43(ctx):
    q = CLS + ".write_out"
    m, fn = ctx.prog.func(q)
    ctx.touched(q, "cryomotl.emmotl2stopgap", "cryomotl.stopgap2emmotl")
    for upd in (False, True):
        for reset in (False, True):
            it = Interp(ctx.prog, no_inline=("starfileio.Starfile.write",),
                        assume=assume_map({"update_coord": upd, "reset_index": reset}))
            cols = ctx.prog.class_attr(CLS, "columns")
            cached = Frame({c: sym("cached:" + c) for c in cols}, list(cols), prefix="cached:", name="sg_df")
            cached.space = Space("cached", how="root")
            me = Obj(CLS, {"df": motl_frame(ctx.prog), "sg_df": cached})
            it.run(q, [K("out.star")], {"update_coord": K(upd), "reset_index": K(reset)}, self_obj=me)
            evs = [e for e in it.events if e.kind == "call" and e.name == "cryocat.starfileio.Starfile.write"]
            if len(evs) != 1:
                raise Unsupported(f"expected one Starfile.write call on the .star path, found {len(evs)}", fn)
            ev = evs[0]
            frames = ev.arg(0, "frames")
            if not (isinstance(frames, Seq) and len(frames.items) == 1 and isinstance(frames.items[0], Frame)):
                raise Unsupported("frames argument of Starfile.write not recognised", ev.node)
            sg = frames.items[0]
            src = {k: sym(k) for k in RENAMING}
            if upd:
                for c in "xyz":
                    s_ = mk("add", sym(c), sym("shift_" + c))
                    src[c] = T("rhu", s_)  # update_coordinates: nearest integer, ties away from zero (decimal ROUND_HALF_UP)
                    src["shift_" + c] = mk("sub", s_, src[c])
            label = f"StopgapMotl.write_out(update_coord={upd}, reset_index={reset}) on a list loaded from STOPGAP"
            check_sg_frame(ctx, it, q, sg, src, reset, label, m, fn, samplers=dict(INT_ID, **HALF))
            spec = ev.arg(2, "specifiers")
            ctx.count(1)
            if not (spec is not None and is_pyconst(spec) and pyval(spec) == ["data_stopgap_motivelist"]):
                ctx.finding(q, ev.node, "the block must be written under the specifier data_stopgap_motivelist", ev.node, m)
            ctx.count(1)
            if not any(n[0] == "fillna" and n[1] in (0, 0.0) for n in sg.notes):
                ctx.finding(q, ev.node, "missing values must be replaced by 0 before the STOPGAP table is written", ev.node, m)
    # the converter with an output path: the file written holds the list the converter returns -- with update_coordinates=True the updated positions
    # (the table handed to Starfile.write is read at the moment of the call: an update that runs after the write reaches the returned object only)
    cq = "cryomotl.emmotl2stopgap"
    mc, fc = ctx.prog.func(cq)
    for upd in (False, True):
        it = Interp(ctx.prog, no_inline=("starfileio.Starfile.write",), assume=assume_map({"update_coordinates": upd, "output_motl_path is not None": True}))
        it.run(cq, [motl_frame(ctx.prog)], {"output_motl_path": K("out.star"), "update_coordinates": K(upd), "reset_index": K(False)})
        evs = [e for e in it.events if e.kind == "call" and e.name == "cryocat.starfileio.Starfile.write"]
        if len(evs) != 1:
            raise Unsupported(f"emmotl2stopgap(path): expected one Starfile.write call, found {len(evs)}", fc)
        frames = evs[0].arg(0, "frames")
        if not (isinstance(frames, Seq) and len(frames.items) == 1 and isinstance(frames.items[0], Frame)):
            raise Unsupported("emmotl2stopgap(path): frames argument of Starfile.write not recognised", evs[0].node)
        src = {k: sym(k) for k in RENAMING}
        if upd:
            for c in "xyz":
                s_ = mk("add", sym(c), sym("shift_" + c))
                src[c] = T("rhu", s_)
                src["shift_" + c] = mk("sub", s_, src[c])
        check_sg_frame(ctx, it, cq, frames.items[0], src, False, f"emmotl2stopgap(list, path, update_coordinates={upd}): the file written", mc, fc,
                       samplers=dict(INT_ID, **HALF))
    # option plumbing of the converters
    for cq, callee, kw, src_param in (("cryomotl.emmotl2stopgap", "write_out", "reset_index", "reset_index"),):
        mc, fc = ctx.prog.func(cq)
        calls = [n for n in ast.walk(fc) if isinstance(n, ast.Call) and isinstance(n.func, ast.Attribute) and n.func.attr == callee]
        ctx.count(1)
        ok = any(isinstance(kwarg(c, kw), ast.Name) and kwarg(c, kw).id == src_param for c in calls)
        if not ok:
            ctx.finding(cq, calls[0] if calls else fc, f"{cq} must pass its {src_param} option on to {callee}", calls[0] if calls else fc, mc)


def o44(ctx):
    """the via-file path returns the block of the file as it stands: same rows, same order"""
    from sa.lib import from_py
    q = CLS + ".read_in"
    m, fn = ctx.prog.func(q)
    ctx.touched(q)
    cols = list(ctx.prog.class_attr(CLS, "columns"))
    blk = Frame({c: sym("file:" + c) for c in cols}, cols, prefix="file:", name="block")
    blk.space = Space("block of the file", how="root")
    blk.labels_positional = True
    summ = {"cryocat.starfileio.Starfile.read": lambda it, a, k, n, fr: Seq([Seq([blk], "list"), from_py(["data_stopgap_motivelist"]), Seq([], "list")], "tuple"),
            "cryocat.starfileio.Starfile.get_specifier_id": lambda it, a, k, n, fr: K(0)}
    it = Interp(ctx.prog, summaries=summ)
    r = it.run(q, [K("in.star")], {})
    if not isinstance(r.ret, Frame):
        raise Unsupported("StopgapMotl.read_in does not return the block table", fn)
    same_rows_same_order(ctx, q, r.ret, blk, "StopgapMotl.read_in returns the data_stopgap_motivelist block", fn, m)
    for c in cols:
        ctx.count(1)
        if c not in r.ret.cols or r.ret.cols[c] != blk.cols[c]:
            ctx.finding(q, f"column {c}", f"read_in must hand on column {c} of the file unchanged", fn, m)
    # import: the particle list keeps the order of the STOPGAP table
    it2 = Interp(ctx.prog, assume=assume_map({"keep_halfsets": False}))
    me = Obj(CLS, {"df": motl_frame(ctx.prog), "sg_df": Frame(name="sg")})
    me.attrs["df"].labels_adopt = True
    sgf = Frame({c: sym("sg:" + c) for c in cols}, cols, prefix="sg:", name="stopgap_df")
    sgf.space = Space("sg", how="root")
    q2 = CLS + ".convert_to_motl"
    m2, fn2 = ctx.prog.func(q2)
    it2.run(q2, [sgf], {}, self_obj=me)
    same_rows_same_order(ctx, q2, me.attrs["df"], sgf, "convert_to_motl keeps the particle order of the STOPGAP table", fn2, m2)
    # export
    q3 = CLS + ".convert_to_sg_motl"
    m3, fn3 = ctx.prog.func(q3)
    for reset in (False, True):
        it3 = Interp(ctx.prog, assume=assume_map({"reset_index": reset}))
        src = motl_frame(ctx.prog)
        r3 = it3.run(q3, [src], {"reset_index": K(reset)})
        if not isinstance(r3.ret, Frame):
            raise Unsupported("convert_to_sg_motl does not return a table", fn3)
        same_rows_same_order(ctx, q3, r3.ret, src, f"convert_to_sg_motl(reset_index={reset}) keeps the particle order", fn3, m3)


def o47(ctx):
    roots = [CLS + ".write_out", CLS + ".read_in", CLS + ".convert_to_motl", CLS + ".convert_to_sg_motl",
             "cryomotl.emmotl2stopgap", "cryomotl.stopgap2emmotl"]
    quals = sorted(q for q in ctx.prog.reachable(roots, depth=3) if q.startswith(("cryomotl.StopgapMotl", "cryomotl.emmotl2stopgap",
                                                                                  "cryomotl.stopgap2emmotl")))
    total = 0
    for q in quals:
        issues, n = apicompat.check_function(ctx.prog, q, df_params=("stopgap_df", "motl_df"))
        total += n
        m, fn = ctx.prog.func(q)
        for i in issues:
            ctx.finding(q, i.node, f"[{i.rule}] {i.message}", i.node, m)
    ctx.count(total, {"functions": quals})


def _obligations():
    return [
        Obligation("O4.20", "EM files given by path: read_in returns every particle of the file, fields named in EM order, and a list made from a path holds that table (shared with C01)", _c01.o12, floor=20),
        Obligation("O4.1", "StopgapMotl.pairs is the documented bijective renaming of the 14 shared fields", o41, floor=15),
        Obligation("O4.2", "convert_to_sg_motl / convert_to_motl copy each field to its renamed column; halfset parity; motl_idx", o42, floor=50),
        Obligation("O4.3", "write_out writes the current table (all option combinations), right block name, fillna, order kept", o43, floor=100),
        Obligation("O4.5", "the EM reader behind emmotl2stopgap(path): canonical column names, 20-column guard, data layout kept (shared with C01)",
                   _em.o12, floor=4),
        Obligation("O4.4", "particle order: read_in returns the file block as it stands; both conversions keep the row order", o44, floor=20),
        Obligation("O4.7", "library calls on the STOPGAP conversion paths exist in the installed pandas", o47, floor=5),
        Obligation("O4.6a", "STAR writer on the via-file path: header and row text read back to the table (shared with C02)", lambda ctx: (_star.o23(ctx), _star.o25(ctx)), floor=200),
        Obligation("O4.8", "stopgap2emmotl with default options returns the table's fields renamed, nothing renumbered", o48, floor=14),
        Obligation("O4.6c", "STAR tokenizer / writer text on the via-file path: every line seen, text tokenised into the expected roles (shared with C02)", lambda ctx: (_star.o22(ctx), _star.o26(ctx)), floor=230),
        Obligation("O4.6b", "STAR reader on the via-file path: numeric conversion and block tables (shared with C02)", _star.o24, floor=5),
    ]


def obligations():
    return _obligations() + [converters_obligation([("cryomotl.emmotl2stopgap", {"output_motl_path": K(None)}, {})]), constructors_obligation(['cryomotl.StopgapMotl']), labels_obligation("C04"), selectors_obligation("C04"), mutations_obligation("C04"), loopstate_obligation("C04"), effects_obligation("C04"), plumbing_obligation("C04"), overrides_obligation("C04"), options_obligation("C04"), handlers_obligation("C04")]
