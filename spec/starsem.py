"""The STAR reader decided on literal texts.

What `Token.tokenize(text)` and `Starfile.read(path)` do for one given text is a function of the source alone; the literal-input mode of
the interpreter (sa/concrete.py) follows the tokenizer's character loop and the recursive-descent parser statement by statement for that
text and reports the tokens, the blocks handed to pandas.DataFrame (labels and rows of cell texts), the specifiers and the comments --
or the `raise` the text runs into.  Nothing is executed and nothing depends on how the functions are spelled (helpers, caches,
delegation, one classification site or two).

The probe texts are generated from the character classes and positions the format distinguishes (word / blank / tab / comment character /
label prefix / loop keyword; start, middle, end of a line; last line with and without a line break), so that every transition of the
tokenizer seen as a finite automaton over these classes is taken at least once, and every parser production is entered with and without
its optional parts.  The expected outcome of each probe is computed by the reference reader below, which is the documented behaviour of
the format as this package reads it."""
from __future__ import annotations

import ast

from sa.concrete import LiteralInterp, Raised
from sa.values import Unsupported, Seq, Obj, is_pyconst, pyval
from sa.harness import K

TOK = "starfileio.Token.tokenize"
READ = "starfileio.Starfile.read"
REF = {"property": "_", "loop": "loop_", "comment": "#", "linesep": "\n"}


class ReadError(Exception):
    """the reference reader rejects the text"""


# ------------------------------------------------------------------------------------------------ the code, followed on a literal text
def _kinds(prog):
    """value of an enum member of TokenType -> its name"""
    m, c = prog.cls("starfileio.TokenType")
    out = {}
    for st in c.body:
        if isinstance(st, ast.Assign) and len(st.targets) == 1 and isinstance(st.targets[0], ast.Name) and isinstance(st.value, ast.Constant):
            out[st.value.value] = st.targets[0].id
    if len(out) < 5:
        raise Unsupported("members of starfileio.TokenType not recognised", c)
    return out


_CACHE = {}


def tokens_of(prog, text):
    """-> [(kind name, value)] in reading order, or ('raise', line)"""
    key = (id(prog), "tok", text)
    if key in _CACHE:
        return _CACHE[key]
    kinds = _kinds(prog)
    it = LiteralInterp(prog)
    try:
        r = it.run(TOK, [K(text)], {})
    except Raised as e:
        _CACHE[key] = ("raise", getattr(e.node, "lineno", 0))
        return _CACHE[key]
    items = it.iter_items(r.ret)
    if items is None:
        raise Unsupported("Token.tokenize does not return a literal sequence for a literal text", prog.func(TOK)[1])
    out = []
    for o in items:
        if not isinstance(o, Obj):
            raise Unsupported("Token.tokenize returns something that is not a Token", prog.func(TOK)[1])
        k, v = o.attrs.get("token_type"), o.attrs.get("value")
        if k is None or v is None or not is_pyconst(k) or not is_pyconst(v) or pyval(k) not in kinds:
            raise Unsupported("token type / value of a Token not literal", prog.func(TOK)[1])
        out.append((kinds[pyval(k)], pyval(v)))
    # the queue is consumed from its end: reading order is the reverse of the list handed on, which O2.6 checks through the parser
    _CACHE[key] = out
    return out


def read_text(prog, text, data_id=None):
    """-> {'blocks': [(specifier, [labels], [[cell text]])], 'comments': [[...]]} or {'raise': line}"""
    key = (id(prog), "read", text, data_id)
    if key in _CACHE:
        return _CACHE[key]
    it = LiteralInterp(prog, files={"probe.star": text})
    try:
        r = it.run(READ, [K("probe.star")], {} if data_id is None else {"data_id": K(data_id)})
    except Raised as e:
        _CACHE[key] = {"raise": getattr(e.node, "lineno", 0), "where": e.fn}
        return _CACHE[key]
    fn = prog.func(READ)[1]
    tables = []
    for e in it.events:
        if e.kind == "call" and e.name == "pandas.DataFrame":
            rows = e.args[0] if e.args else e.kwargs.get("data")
            cols = e.kwargs.get("columns", e.args[1] if len(e.args) > 1 else None)
            try:
                rows_ = [[pyval(c_) for c_ in it.iter_items(r_)] for r_ in it.iter_items(rows)]
                cols_ = [pyval(c_) for c_ in it.iter_items(cols)]
            except Exception:  # noqa
                raise Unsupported("rows / labels handed to pandas.DataFrame are not literal", e.node)
            tables.append((cols_, rows_))
    ret = r.ret
    if data_id is None:
        if not (isinstance(ret, Seq) and len(ret.items) == 3):
            raise Unsupported("Starfile.read does not return (frames, specifiers, comments)", fn)
        try:
            specs = [pyval(x) for x in it.iter_items(ret.items[1])]
            comments = [[pyval(c_) for c_ in it.iter_items(x)] for x in it.iter_items(ret.items[2])]
            nframes = len(it.iter_items(ret.items[0]))
        except Exception:  # noqa
            raise Unsupported("specifiers / comments returned by Starfile.read are not literal", fn)
        if nframes != len(tables) or len(specs) != len(tables):
            raise Unsupported("tables built and tables returned by Starfile.read do not correspond", fn)
        out = {"blocks": [(s_, c_, r_) for s_, (c_, r_) in zip(specs, tables)], "comments": comments}
    else:
        if not (isinstance(ret, Seq) and len(ret.items) == 3 and is_pyconst(ret.items[1])):
            raise Unsupported("Starfile.read(data_id) does not return (frame, specifier, comments)", fn)
        out = {"picked": pyval(ret.items[1]), "ntables": len(tables)}
    _CACHE[key] = out
    return out


# ------------------------------------------------------------------------------------------------ the reference
def ref_tokens(text, c=REF):
    toks = []
    for line in text.split(c["linesep"]):
        first = None
        for i, ch in enumerate(line):
            if not ch.isspace() and ch != c["comment"]:
                if first is None:
                    first = i
                continue
            if first is not None:
                toks.append(_classify(line[first:i], c))
                first = None
            if ch == c["comment"]:
                toks.append(("COMMENT", line[i + 1:].strip()))
                break
        else:
            if first is not None:
                toks.append(_classify(line[first:], c))
        toks.append(("NEWLINE", None))
    return toks


def _classify(s, c):
    if s[0] == c["property"]:
        return ("PROPERTY", s)
    if s == c["loop"]:
        return ("LOOP", s)
    return ("LITERAL", s)


def ref_read(text, c=REF):
    """blocks of a text: [comments and blank lines] specifier, loop keyword on its own line, one label per line (optionally followed by a
    comment), rows of exactly as many literals as labels, one row per line; the block's rows end at the first line that is not a row"""
    q = ref_tokens(text, c)[::-1]

    def peek(k):
        return bool(q) and q[-1][0] == k

    def take(k):
        if not peek(k):
            raise ReadError(f"expected {k}, found {q[-1] if q else 'end of text'}")
        return q.pop()

    def skip():
        out = []
        while True:
            if peek("COMMENT"):
                out.append(q.pop()[1])
            elif peek("NEWLINE"):
                q.pop()
            else:
                return out

    def more():
        for t in reversed(q):
            if t[0] == "LITERAL":
                return True
            if t[0] in ("NEWLINE", "COMMENT"):
                continue
            return False
        return False

    blocks, comments = [], []
    while more():
        cm = skip()
        spec = take("LITERAL")[1]
        cm += skip()
        take("LOOP")
        take("NEWLINE")
        labels = []
        while True:
            if not q:
                break  # the text ends with the last label (no line break after it): a block without rows
            if not peek("PROPERTY"):
                break
            lab = take("PROPERTY")[1]
            if peek("COMMENT"):
                q.pop()
            take("NEWLINE")
            labels.append(lab[len(c["property"]):])
        cm += skip()
        rows, end = [], False
        while not end:
            data = []
            for _ in labels:
                if peek("LITERAL"):
                    data.append(q.pop()[1])
                else:
                    end = True
                    break
            else:
                take("NEWLINE")
                rows.append(data)
                if not labels:
                    end = True
        blocks.append((spec, labels, rows))
        comments.append(cm)
    skip()
    if q:
        raise ReadError(f"unexpected {q[-1]} after the last block")
    return {"blocks": blocks, "comments": comments}


# ------------------------------------------------------------------------------------------------ probes
def token_probes(c=REF):
    P, L, H = c["property"], c["loop"], c["comment"]
    words = [P + "ab", P, L, L + "x", "x" + L, "ab", "1.5e-3", "-0.5", "a" + P + "b", P + P + "a", P + L, '"ab"', "'a'", "5'"]
    out = []
    for w in words:
        out += [w, " " + w, w + " ", "\t" + w, w + "\t", w + H + "c", w + " " + H + "c", w + H + " c ", w + " x", "x " + w, "x\t" + w + "  y",
                w + "\nx", w + "\n", "\n" + w, w + "\n\nx", "x\n" + w, w + " \r\nx"]
    out += ["", " ", "\t \t", H, H + H, H + " c " + H + "d", " " + H + "c", "\n", "\n\n", "a b c\nd e f", "a\tb\tc\n", "a" + H + "b" + H + "c",
            P + "rlnCoordinateX" + H + "1", P + "rlnCoordinateX " + H + "1 ", "  " + L + "  ", L + H + "c", L + " " + H]
    seen, uniq = set(), []
    for t in out:
        if t not in seen:
            seen.add(t)
            uniq.append(t)
    return uniq


def read_probes(c=REF):
    """(label, text) -- texts of the kinds this package and RELION / STOPGAP / Warp write"""
    P, L, H = c["property"], c["loop"], c["comment"]
    lab = lambda names, numbered, glue=" ": "".join(f"{P}{n}{glue + H + str(i) if numbered else ''}\n" for i, n in enumerate(names, 1))
    rows2 = "1.5\tabc\n-2.0 \t def\n"
    t = []
    t.append(("numbered labels, rows separated by tabs, blank line at the end", f"\ndata_x\n\n{L}\n{lab(['rlnA', 'rlnB'], True)}{rows2}\n"))
    t.append(("un-numbered labels", f"\ndata_x\n\n{L}\n{lab(['rlnA', 'rlnB'], False)}{rows2}\n"))
    t.append(("numbers glued to the labels", f"data_x\n{L}\n{lab(['rlnA', 'rlnB'], True, glue='')}{rows2}"))
    t.append(("no line break after the last row", f"data_x\n\n{L}\n{lab(['a', 'b'], True)}1 2\n3 4"))
    t.append(("no blank line before the end of the text", f"data_x\n\n{L}\n{lab(['a', 'b'], True)}1 2\n3 4\n"))
    t.append(("STOPGAP style: blank line between labels and rows", f"\ndata_stopgap_motivelist\n\n{L}\n{lab(['motl_idx', 'tomo_num', 'halfset'], False)}\n1 4 A\n2 4 B\n\n"))
    t.append(("comments in front of the block", f"\n{H} written by x\n{H} second\n\ndata_x\n\n{L}\n{lab(['a'], True)}7\n\n"))
    t.append(("comment lines between specifier, labels and rows", f"data_x\n{H} c1\n{L}\n{lab(['a', 'b'], False)}{H} c2\n1 2\n"))
    t.append(("two blocks", f"\ndata_optics\n\n{L}\n{lab(['grp', 'apix'], True)}1 2.5\n\n\ndata_particles\n\n{L}\n{lab(['x', 'y', 'grp'], True)}1 2 1\n3 4 1\n5 6 1\n\n"))
    t.append(("three blocks, the middle one without rows", f"data_a\n{L}\n{lab(['p'], False)}1\n\ndata_b\n{L}\n{lab(['q', 'r'], False)}\ndata_c\n{L}\n{lab(['s'], False)}2\n3\n"))
    t.append(("one column", f"data_\n\n{L}\n{lab(['only'], True)}a\nb\nc\n"))
    t.append(("cells padded to a fixed width", f"data_x\n\n{L}\n{lab(['a', 'b', 'c'], True)}1.0       \tTS_01/rec.mrc \t3         \n2.0       \tTS_02/rec.mrc \t4         \n\n"))
    t.append(("cells that look like labels inside (underscore, minus, exponent)", f"data_x\n{L}\n{lab(['a', 'b', 'c'], False)}ts_04_d-0.04.mrc 1e-05 -0.0\nx{P}y 2 3\n"))
    t.append(("carriage returns at the line ends", f"data_x\r\n\r\n{L}\r\n{P}a {H}1\r\n{P}b {H}2\r\n1 2\r\n3 4\r\n"))
    t.append(("leading blanks on the lines", f"  data_x\n  {L}\n  {P}a\n  {P}b\n  1 2\n"))
    t.append(("empty text", ""))
    t.append(("comments only", f"{H} nothing here\n\n"))
    t.append(("label carrying the loop keyword inside", f"data_x\n{L}\n{P}{L}a\n{P}b{L}\n1 2\n"))
    t.append(("label numbers that do not follow the order of the lines", f"data_x\n{L}\n{P}b {H}2\n{P}a {H}1\n{P}c {H}7\n1 2 3\n"))
    t.append(("block names with capital letters (STOPGAP wedge lists, user-defined blocks)", f"\ndata_stopgap_WedgeList\n\n{L}\n{lab(['tomo_num', 'Pixelsize'], False)}\n1 2.5\n\n\ndata_Optics_B\n{L}\n{lab(['rlnOpticsGroupName'], True)}OpticsGroup1\n"))
    t.append(("last block without rows, no line break at the end of the text", f"data_a\n{L}\n{lab(['p'], True)}1\n\ndata_b\n{L}\n{P}q {H}1\n{P}r {H}2"))
    t.append(("a single block without rows, un-numbered labels, no line break at the end", f"data_b\n\n{L}\n{P}q\n{P}r"))
    t.append(("twelve rows", f"data_x\n{L}\n{lab(['a', 'b'], True)}" + "".join(f"{i} {i * i}\n" for i in range(12))))
    return t
