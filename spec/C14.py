"""C14 -- map rotation, placement, windowing, symmetrisation share one active convention"""
from .common import *
from . import C11 as _c11
from . import C05 as _c05
from .maskmodel import read_summary

TITLE = "Map rotation, placement, windowing, symmetrisation share one active convention"
EXPLANATION = (
    "cryomap.rotate is interpreted abstractly with small matrices as terms: the 4x4 matrix reaching "
    "scipy.ndimage.affine_transform (a pull-back: output voxel -> input position) is compared by random interpretation "
    "(random rotations, integer box sizes even and odd) with [[R^T, c - R^T c], [0, 1]], c = floor(shape/2), on the "
    "Euler-angle path (R = zxz(angles)) and on the rotation path with transpose_rotation=True (as place_object calls it); "
    "the output array must be the one affine_transform fills. place_object: rotation i, complete position i minus 1, "
    "colour i, and the stamped window must keep the existing voxels outside the thresholded template. "
    "get_start_end_indices: the four window vectors are compared with the clipped-window closed forms on integer samples "
    "(inside / partly outside / fully outside). extract_subvolume fills with the volume mean. symmetrize_volume: for n in "
    "2..12 the loop is unrolled; the rotations must be exactly {Rz(k*360/n)}, the accumulator initialised, the sum divided by n. crop: the window is centred on crop_coord as given (box centre by default).")
ASSUMPTIONS = TRUSTED + ["scipy.ndimage.affine_transform(input, matrix) computes output[o] = input[matrix @ o] (pull-back) with spline "
                         "interpolation; interpolation accuracy and exact voxel permutation are SciPy's"]

CM = "cryomap."
SUMM = {"cryocat.cryomap.read": read_summary, "cryocat.cryomap.write": lambda it, a, k, n, f: K(None)}


def size_sampler(rng):
    return float(rng.integers(4, 40))


def expected_affine(Rt, dims):
    c = T("vec", *[mk("floordiv", d, const(2)) for d in dims])
    top = T("setblock", T("eye", const(4)), const((slice(0, 3), slice(0, 3))), Rt)
    t = mk("sub", c, T("rotapply", Rt, c))
    return T("setblock", top, const((slice(0, 3), 3)), t)


def o141(ctx):
    q = CM + "rotate"
    m, fn = ctx.prog.func(q)
    ctx.touched(q)
    dims = [sym(f"vol.n{k}") for k in range(3)]
    sam = {f"vol.n{k}": size_sampler for k in range(3)}
    sam.update({"R": rot_sampler, "a0": angle_sampler, "a1": angle_sampler, "a2": angle_sampler})
    cases = [("Euler angles (zxz, degrees)", {"rotation_angles": Arr([sym("a0"), sym("a1"), sym("a2")], 1)},
              T("transpose", euler_term("zxz", sym("a0"), sym("a1"), sym("a2")))),
             ("rotation with transpose_rotation=True", {"rotation": Rot(sym("R")), "transpose_rotation": K(True)}, T("transpose", sym("R"))),
             ("rotation with transpose_rotation=False (matrix used as given)", {"rotation": Rot(sym("R")), "transpose_rotation": K(False)}, sym("R"))]
    for label, kw, pull in cases:
        vol = Unk(sym("vol"))
        vol.rank = 3
        it = Interp(ctx.prog, summaries=SUMM)
        r = it.run(q, [vol], kw)
        evs = [e for e in it.events if e.kind == "call" and e.name.endswith("affine_transform")]
        if len(evs) != 1:
            raise Unsupported("affine_transform call not found in rotate", fn)
        ev = evs[0]
        mat = ev.kwargs.get("matrix", ev.arg(1))
        if mat is None:
            raise Unsupported("matrix argument of affine_transform not found", ev.node)
        v = tm.equivalent(to_term(mat), expected_affine(pull, dims), samplers=sam, n=30, tol=1e-8, seed_tag=q + label)
        ctx.count(1, {"path": label, "pull-back matrix": tm.show(to_term(mat))[:160], "equal": bool(v)})
        if not v:
            ctx.finding(q, ev.node, f"{label}: the matrix given to affine_transform must be the pull-back [[M, c - M c],[0,1]] with "
                        "M = R^T (inverse of the active rotation) and c = floor(shape/2), for odd and even boxes", ev.node, m,
                        witness=v.witness)
        inp = ev.kwargs.get("input", ev.arg(0))
        ctx.count(1)
        if inp is None or to_term(inp) != sym("vol"):
            ctx.finding(q, ev.node, "the map itself must be transformed", ev.node, m)
        out = ev.kwargs.get("output")
        ctx.count(1)
        # the buffer the result is written into is not the array that is being read: for spline orders 0 and 1 the library reads the input while it
        # fills the output (no prefiltered copy), so an output that aliases the input is read half overwritten
        if out is not None and inp is not None and (out is inp or (not isinstance(out, Ref) and not is_pyconst(out) and to_term(out) == to_term(inp))):
            ctx.finding(q, ev.node, "affine_transform writes its result into the array it reads (output= is the input map itself or an alias of it): with spline order 0 or 1 "
                        "the input is read while it is being overwritten and the rotated map is wrong", ev.node, m)
        via_buffer = out is not None and to_term(out) == to_term(r.ret)
        res_ = ev.extra.get("ret")
        via_result = res_ is not None and to_term(res_) == to_term(r.ret) and (out is None or isinstance(out, Ref) or is_pyconst(out))
        if not (via_buffer or via_result):
            ctx.finding(q, "returned array", "rotate must return the array affine_transform writes into (an np.empty buffer may only "
                        "be returned after it has been filled)", fn, m)
        elif via_result and out is None and not tm.contains(to_term(inp), lambda n: n.op in ("float",) or (n.op == "call" and str(n.args[0]) in (".astype", "numpy.asarray", "cast"))):
            # without output= the library creates the result with the *input's* element type: the interpolated values of an integer map
            # (a binary template, a label volume) are rounded back to integers
            ctx.finding(q, ev.node, "affine_transform is called without output=: the result then has the element type of the input map, so the "
                        "interpolated values of an integer map (a 0/1 template, a label volume) are rounded to integers -- the rotated map is no "
                        "longer the interpolated density (pass a float buffer / dtype as output, or convert the map first)", ev.node, m)
        order = ev.kwargs.get("order")
        ctx.count(1)
        if order is None or not (is_pyconst(order) and pyval(order) == 3):
            ctx.finding(q, ev.node, "the documented default spline order (3) must reach affine_transform", ev.node, m)
        # what lies outside the box is empty: the boundary mode is the library's default 'constant' with value 0
        mode, cval = ev.kwargs.get("mode"), ev.kwargs.get("cval")
        ctx.count(1, {"boundary mode": repr(mode)[:40], "fill value": repr(cval)[:40]})
        if mode is not None and not (is_pyconst(mode) and pyval(mode) == "constant"):
            ctx.finding(q, ev.node, f"rotate fills from outside the box with mode={pyval(mode) if is_pyconst(mode) else 'a computed value'!r}: a rotated "
                        "map must be empty where its source position lies outside the box (mode='constant', the library default); a periodic "
                        "or mirrored box brings density in from the other side", ev.node, m)
        if cval is not None and not (is_pyconst(cval) and pyval(cval) in (0, 0.0)):
            ctx.finding(q, ev.node, "positions outside the box must contribute 0 (cval=0.0, the library default)", ev.node, m)
        other = set(ev.kwargs) - {"input", "matrix", "output", "order", "mode", "cval", "offset", "output_shape", "prefilter"}
        if other:
            raise Unsupported(f"affine_transform is called with option(s) {sorted(other)} that the rule does not interpret", ev.node)
        for o_, dflt in (("offset", (0, 0.0)), ("prefilter", (True,))):
            v_ = ev.kwargs.get(o_)
            if v_ is not None and not (is_pyconst(v_) and pyval(v_) in dflt):
                raise Unsupported(f"affine_transform is called with {o_}= other than the default: not interpreted", ev.node)


def _stamp_checks(ctx, q, m, it, stores, rot_idx):
    # stamp: inside the template -> colour of the same particle; outside -> existing voxels
    st = stores[-1]
    val = st.args[2]
    vt = to_term(val)
    ctx.count(1, {"stamped value": tm.show(vt)[:200]})
    # the volume the stamps go into holds the colouring values as they are
    tgt_ = st.args[0]
    while getattr(tgt_, "alloc_dtype", None) is None and getattr(tgt_, "before", None) is not None:
        tgt_ = tgt_.before  # the value the variable had when the loop was entered (element stores do not change the type)
    nd_ = getattr(tgt_, "alloc_dtype", None)
    ctx.count(1, {"element type of a volume allocated here": nd_ or "float64 (library default)"})
    if nd_ is not None and (str(nd_).startswith(("int", "uint")) or nd_ in ("short", "intc", "float16")):
        ctx.finding(q, st.node, f"the volume the particles are stamped into is allocated as {nd_}: the value of the colouring field is converted on the "
                    "way in (a score of 0.37 becomes 0, an id above the type's range wraps around), so the placed object no longer carries the "
                    "field's value", st.node, m)
    # the thresholded template window is the sub-term compared with 1 / multiplied: find the template-window atom
    tw = None
    for n in tm.walk(vt):
        if n.op == "ite" and tm.has_call(n.args[0], "cryocat.cryomap.rotate") and not tm.has_call(n.args[1], "cryocat.cryomap.rotate") \
                and tm.cval(n.args[1]) in (1, 1.0) and tm.cval(n.args[2]) in (0, 0.0):
            tw = n
    target_idx = to_term(st.args[1])
    existing = [n for n in tm.walk(vt) if n.op == "call" and n.args[0] == "getitem" and not tm.has_call(n.args[1], "cryocat.cryomap.rotate")
                and n.args[2] == target_idx]
    col_idx = {n.key(): n for n in tm.walk(tm.subst(vt, {tw: const(1.0)}) if tw is not None else vt)
               if n.op == "call" and n.args[0] == "enum_index"}
    ctx.count(1, {"particle index of rotation / colour": [tm.show(x)[:60] for x in list(rot_idx.values()) + list(col_idx.values())]})
    if len(rot_idx) != 1 or set(rot_idx) != set(col_idx):
        ctx.finding(q, st.node, "rotation, position and colour must be taken from the same particle (the index of the loop over the "
                    "positions)", st.node, m)
    if tw is None:
        raise Unsupported("thresholded template (object_map > 0.1 -> 1/0) not found in the stamped value", st.node)
    inside = tm.subst(vt, {tw: const(1.0)})
    outside = tm.subst(vt, {tw: const(0.0)})
    ctx.count(1)
    if not existing or not tm.equivalent(outside, tm.subst(existing[0], {tw: const(0.0)}), seed_tag="outside"):
        ctx.finding(q, st.node, "voxels of the stamp window outside the thresholded template must keep the existing content of the "
                    "volume (earlier particles / a pre-filled volume); the code overwrites them", st.node, m,
                    outside=tm.show(outside)[:160])
    ctx.count(1)
    if tm.equivalent(inside, outside, seed_tag="io") or tm.has_call(inside, "cryocat.cryomap.rotate"):
        ctx.finding(q, st.node, "voxels inside the thresholded template must get the particle's colour value", st.node, m,
                    inside=tm.show(inside)[:160])
    elif not tm.contains(inside, lambda n: n.op == "call" and n.args[0] in ("col", "elem", "getitem", "each") or n.op == "sym"):
        ctx.finding(q, st.node, "the colour must come from the requested feature column", st.node, m)


def o142_list(ctx, q, m, fn):
    """the other input form: one template per particle (a list).  The i-th template goes with the i-th particle's orientation, through rotate
    with transpose_rotation=True, exactly as in the single-template form"""
    it = Interp(ctx.prog, summaries=SUMM, no_inline=("cryomap.rotate", "cryomap.get_start_end_indices", "cryomap.read"),
                assume=assume_map({"not isinstance(input_object, list)": False, "isinstance(input_object, list)": True,
                                   "volume is not None": False, "volume_shape is not None": True}))
    motl = motl_obj(ctx.prog)
    tpls = Unk(sym("templates"))
    it.run(q, [tpls, motl], {"volume_shape": Arr([sym("V0"), sym("V1"), sym("V2")], 1), "feature_to_color": P("feature")})
    rots = [e for e in it.events if e.kind == "call" and e.name == "cryocat.cryomap.rotate"]
    if len(rots) != 1:
        raise Unsupported("place_object (list of templates): rotate call not recognised", fn)
    ev = rots[0]
    tr = ev.kwargs.get("transpose_rotation")
    ctx.count(1, {"list form, rotate call": {k: tm.show(to_term(v))[:80] for k, v in ev.kwargs.items()}})
    if tr is None or not (is_pyconst(tr) and pyval(tr) is True):
        ctx.finding(q, ev.node, "with a list of templates place_object must call rotate with transpose_rotation=True as well: otherwise every template "
                    "is stamped in the inverse of its particle's orientation", ev.node, m)
    rot = ev.kwargs.get("rotation")
    rt = to_term(rot) if rot is not None else const(None)
    src_ = ev.arg(0) if ev.arg(0) is not None else ev.kwargs.get("input_map")
    st_ = to_term(src_) if src_ is not None else const(None)
    ri = {n.key() for n in tm.walk(rt) if n.op == "call" and n.args[0] == "enum_index"}
    if not ri and getattr(rot, "indexed_by", None) is not None:  # rotations[i] of a batch of rotations: the index is kept next to the value
        ri = {n.key() for n in tm.walk(to_term(rot.indexed_by)) if n.op == "call" and n.args[0] == "enum_index"}
    ti = {n.key() for n in tm.walk(st_) if n.op == "call" and n.args[0] == "enum_index"}
    ctx.count(1)
    if not tm.contains(rt, lambda n: n == particle_R()) or not tm.has_sym(st_, "templates") or not ri or ri != ti:
        ctx.finding(q, ev.node, "with a list of templates the i-th template must be rotated by the i-th particle's orientation", ev.node, m,
                    template=tm.show(st_)[:100], rotation=tm.show(rt)[:100])
    # the stamp itself is the same in both forms: thresholded rotated template -> colour of the same particle, the rest of the window kept
    stores = [e for e in it.events if e.kind == "store" and e.fn == q and e.name in ("elementwise", "array", "array-opaque", "opaque")]
    if not stores:
        raise Unsupported("place_object (list of templates): stamp not recognised", fn)
    _stamp_checks(ctx, q, m, it, stores, {k: None for k in ri})


def o142(ctx):
    q = CM + "place_object"
    m, fn = ctx.prog.func(q)
    ctx.touched(q)
    o142_list(ctx, q, m, fn)
    it = Interp(ctx.prog, summaries=SUMM, no_inline=("cryomap.rotate", "cryomap.get_start_end_indices"),
                assume=assume_map({"not isinstance(input_object, list)": True, "isinstance(input_object, list)": False,
                                   "volume is not None": False, "volume_shape is not None": True}))
    motl = motl_obj(ctx.prog)
    tpl = Unk(sym("template"))
    tpl.rank = 3
    r = it.run(q, [tpl, motl], {"volume_shape": Arr([sym("V0"), sym("V1"), sym("V2")], 1), "feature_to_color": P("feature")})
    rots = [e for e in it.events if e.kind == "call" and e.name == "cryocat.cryomap.rotate"]
    wins = [e for e in it.events if e.kind == "call" and e.name == "cryocat.cryomap.get_start_end_indices"]
    stores = [e for e in it.events if e.kind == "store" and e.fn == q and e.name in ("elementwise", "array", "array-opaque", "opaque")]
    if len(rots) != 1 or len(wins) != 1 or not stores:
        raise Unsupported("place_object: rotate / window / stamp structure not recognised", fn)
    ev = rots[0]
    rot = ev.kwargs.get("rotation")
    tr = ev.kwargs.get("transpose_rotation")
    ctx.count(1, {"rotate call": {k: tm.show(to_term(v))[:80] for k, v in ev.kwargs.items()}})
    if tr is None or not (is_pyconst(tr) and pyval(tr) is True):
        ctx.finding(q, ev.node, "place_object must call rotate with transpose_rotation=True: the particle orientation is an active "
                    "rotation and rotate needs its inverse as pull-back", ev.node, m)
    # what is rotated is the template itself (read, nothing else): thresholding comes after the rotation, never before it
    src_ = ev.arg(0) if ev.arg(0) is not None else ev.kwargs.get("input_map")
    st_ = to_term(src_) if src_ is not None else None
    bare_ = st_
    while bare_ is not None and bare_.op == "call" and str(bare_.args[0]) in ("cryocat.cryomap.read", "read", "numpy.asarray", "numpy.array", ".copy", ".astype") \
            and len(bare_.args) > 1:
        bare_ = bare_.args[1]
    ctx.count(1, {"rotated map": tm.show(st_)[:100] if st_ is not None else None})
    if bare_ is None or bare_ != sym("template"):
        ctx.finding(q, ev.node, "the map handed to rotate must be the template as read: a template that is thresholded (or otherwise changed) before "
                    "the rotation gives threshold(rotate(threshold(T))), a dilated stamp for grey-valued templates at oblique poses; "
                    f"rotated: {tm.show(st_)[:100] if st_ is not None else None}", ev.node, m)
    want_R = particle_R()
    rt = to_term(rot) if rot is not None else const(None)
    ctx.count(1)
    if not tm.contains(rt, lambda n: n == want_R):
        ctx.finding(q, ev.node, "the template must be rotated by the particle's own zxz(phi,theta,psi) orientation "
                    "(Motl.get_rotations)", ev.node, m, rotation=tm.show(rt)[:160])
    rot_idx = {n.key(): n for n in tm.walk(rt) if n.op == "call" and n.args[0] == "enum_index"}
    if not rot_idx and getattr(rot, "indexed_by", None) is not None:  # rotations[i] of a batch of rotations: the index is kept next to the value
        rot_idx = {n.key(): n for n in tm.walk(to_term(rot.indexed_by)) if n.op == "call" and n.args[0] == "enum_index"}
    # window centre: complete position minus 1 (1-based -> 0-based), of the same particle
    wc = wins[0].arg(0)
    a = wc if isinstance(wc, Arr) else None
    ctx.count(1, {"window centre": repr(wc)[:120]})
    ok = a is not None and len(a.cols) == 3
    if ok:
        for k, c in enumerate("xyz"):
            want = mk("sub", mk("add", sym(c), sym("shift_" + c)), const(1.0))
            got = tm.subst(a.cols[k], {n: n.args[1] for n in tm.walk(a.cols[k]) if n.op == "call" and n.args[0] == "each"})
            if not tm.equivalent(no_sel(got), want, seed_tag="pc" + c):
                ok = False
    if not ok:
        ctx.finding(q, wins[0].node, "the stamp window must be centred at the particle's complete position (x+shift) converted from "
                    "1-based to 0-based indices (minus 1)", wins[0].node, m)
    _stamp_checks(ctx, q, m, it, stores, rot_idx)


def win_expected(c, V, s):
    start = T("floor", mk("sub", c, mk("div", s, const(2.0))))
    end = mk("add", start, s)
    clip = lambda x, hi: T("minimum", T("maximum", const(0.0), x), hi)
    vs = clip(start, V)
    ve = T("maximum", T("minimum", V, end), const(0.0))
    ss = clip(mk("sub", vs, start), s)
    se = T("maximum", T("minimum", s, mk("sub", ve, start)), const(0.0))
    return vs, ve, ss, se


def o145(ctx):
    q = CM + "get_start_end_indices"
    m, fn = ctx.prog.func(q)
    ctx.touched(q, CM + "extract_subvolume")
    it = Interp(ctx.prog)
    coord = Arr([sym(f"c{k}") for k in range(3)], 1)
    V = Arr([sym(f"V{k}") for k in range(3)], 1)
    S = Arr([sym(f"s{k}") for k in range(3)], 1)
    r = it.run(q, [coord, V, S], {})
    if not (isinstance(r.ret, Seq) and len(r.ret.items) == 4):
        raise Unsupported("get_start_end_indices does not return four vectors", fn)
    from sa.lib import as_arr
    names = ["volume_start", "volume_end", "subvolume_start", "subvolume_end"]
    sam = {}
    for k in range(3):
        sam[f"V{k}"] = int_sampler(8, 60)
        sam[f"s{k}"] = lambda rng: float(2 * rng.integers(1, 16))  # even box sizes
        sam[f"c{k}"] = lambda rng: float(rng.choice([rng.integers(-30, 90), rng.uniform(-30, 90)]))
    for i, nm in enumerate(names):
        a = as_arr(r.ret.items[i]) if not isinstance(r.ret.items[i], Arr) else r.ret.items[i]
        if a is None or len(a.cols) != 3:
            raise Unsupported(f"{nm} is not a 3-vector", fn)
        for k in range(3):
            want = win_expected(sym(f"c{k}"), sym(f"V{k}"), sym(f"s{k}"))[i]
            v = tm.equivalent(a.cols[k], want, samplers=sam, n=60, tol=1e-9, seed_tag=q + nm + str(k))
            ctx.count(1, {"vector": nm, "axis": k, "equal": bool(v)})
            if not v:
                ctx.finding(q, f"{nm}[{k}]", f"{nm}[{k}] must be {tm.show(want)[:140]} (window clipped to the volume, matching extent in "
                            "the subvolume)", fn, m, witness=v.witness, extracted=tm.show(a.cols[k])[:200])
    # extract_subvolume: fill value = mean of the volume, window copied between the matching slices
    q2 = CM + "extract_subvolume"
    m2, fn2 = ctx.prog.func(q2)
    for enforce in (False, True):
        it = Interp(ctx.prog, no_inline=("cryomap.get_start_end_indices",), summaries=SUMM,
                    assume=assume_map({"enforce_shape is not False": enforce, "output_file is not None": False}))
        vol = Unk(sym("volume"))
        vol.rank = 3
        r2 = it.run(q2, [vol, coord, S], {"enforce_shape": K(enforce)})
        # the window is the one place_object stamps into: the shared helper receives the requested centre as given (it floors c - N/2 itself)
        wins_ = [e for e in it.events if e.kind == "call" and e.name == "cryocat.cryomap.get_start_end_indices" and e.fn == q2]
        if len(wins_) != 1:
            raise Unsupported("extract_subvolume: call of get_start_end_indices not recognised", fn2)
        c_arg = wins_[0].arg(0)
        ctx.count(1, {"window centre handed to get_start_end_indices": tm.show(to_term(c_arg))[:100] if c_arg is not None else None})
        if c_arg is None or to_term(c_arg) != to_term(coord):
            ctx.finding(q2, wins_[0].node, "extract_subvolume changes the requested centre before the window is computed "
                        f"({tm.show(to_term(c_arg))[:80] if c_arg is not None else None}): the window must be the one get_start_end_indices gives for "
                        "the centre as requested (floor(c - N/2) ...), the same one place_object stamps into; a rounded / shifted centre moves the "
                        "box by a voxel for fractional positions", wins_[0].node, m2)
        fulls = [e for e in it.events if e.kind == "call" and e.name == "numpy.full"]
        # the other way of producing the out-of-volume voxels: padding the in-volume part.  Only a constant pad with the volume mean does it
        for e in [e for e in it.events if e.kind == "call" and e.name == "numpy.pad"]:
            mode = e.kwargs.get("mode", e.arg(2))
            cv = e.kwargs.get("constant_values")
            ctx.count(1)
            if not (mode is not None and is_pyconst(mode) and pyval(mode) == "constant" and cv is not None
                    and to_term(cv) == call("reduce:mean", sym("volume"), const(None))):
                ctx.finding(q2, e.node, "voxels outside the volume must be set to the mean of the whole volume; np.pad with "
                            f"mode={tm.show(to_term(mode)) if mode is not None else 'constant'} fills them with something else (per-line means of the "
                            "cut-out part, edge values, zeros, ...)", e.node, m2)
        ret_t = to_term(r2.ret) if r2.ret is not None else None
        if ret_t is not None and not fulls and not tm.has_call(ret_t, "numpy.pad"):
            raise Unsupported("extract_subvolume: construction of the returned window not recognised", fn2)
        ctx.count(1, {"enforce_shape": enforce, "np.full": [tm.show(to_term(e.arg(1)))[:60] for e in fulls]})
        filled = to_term(fulls[0].extra["ret"]) if len(fulls) == 1 and fulls[0].extra.get("ret") is not None else None  # value every voxel starts with
        if len(fulls) != 1 or to_term(fulls[0].arg(1)) != call("reduce:mean", sym("volume"), const(None)) \
                or filled != call("reduce:mean", sym("volume"), const(None)):
            ctx.finding(q2, fulls[0].node if fulls else fn2, "voxels outside the volume must be set to the mean of the volume "
                        "(np.full(shape, np.mean(volume)))", fulls[0].node if fulls else fn2, m2)
        want_shape = sym("volume") if enforce else None
        sh = fulls[0].arg(0) if fulls else None
        ctx.count(1)
        if fulls and not enforce and to_term(sh) != to_term(S):
            ctx.finding(q2, fulls[0].node, "the returned subvolume must have the requested shape", fulls[0].node, m2)


def o145_crop(ctx):
    """crop: the centre of the window is crop_coord as given (the same meaning as in extract_subvolume / place_object / rotate: the voxel that
    becomes voxel N//2 of the result), the box centre by default"""
    q = CM + "crop"
    m, fn = ctx.prog.func(q)
    ctx.touched(q)
    gcf = lambda it_, a, k, n, f: a[0]  # get_correct_format of a 3-vector: the vector (its own obligation: O13.6 / O12.6)
    for given in (True, False):
        it = Interp(ctx.prog, no_inline=("cryomap.get_start_end_indices",), summaries=dict(SUMM, **{"cryocat.cryomask.get_correct_format": gcf}),
                    assume=assume_map({"crop_coord is None": not given, "output_file is not None": False}))
        vol = Unk(sym("volume"))
        vol.rank = 3
        c_ = Arr([sym("c0"), sym("c1"), sym("c2")], 1)
        n_ = Arr([sym("N0"), sym("N1"), sym("N2")], 1)
        it.run(q, [vol, n_], {"crop_coord": c_ if given else K(None)})
        wins_ = [e for e in it.events if e.kind == "call" and e.name == "cryocat.cryomap.get_start_end_indices" and e.fn == q]
        if len(wins_) != 1:
            raise Unsupported("crop: call of get_start_end_indices not recognised", fn)
        got = wins_[0].arg(0)
        ctx.count(1, {"crop_coord given": given, "window centre": tm.show(to_term(got))[:100] if got is not None else None})
        if given:
            if got is None or to_term(got) != to_term(c_):
                ctx.finding(q, wins_[0].node, "crop changes the requested centre before the window is computed "
                            f"({tm.show(to_term(got))[:80] if got is not None else None}): crop_coord is the centre of the new box (the voxel that becomes "
                            "voxel N//2 of the result), as in extract_subvolume and place_object", wins_[0].node, m)
        else:
            a_ = got if isinstance(got, Arr) else None
            ok_ = a_ is not None and len(a_.cols) == 3 and all(cc_ == mk("floordiv", sym(f"volume.n{k_}"), const(2)) for k_, cc_ in enumerate(a_.cols))
            if not ok_:
                raise Unsupported(f"crop: default centre (shape // 2) not recognised: {tm.show(to_term(got))[:80] if got is not None else None}", wins_[0].node)


def o144(ctx):
    q = CM + "symmetrize_volume"
    m, fn = ctx.prog.func(q)
    ctx.touched(q)
    from scipy.spatial.transform import Rotation as R
    for n, spelling in [(k, k) for k in range(2, 13)] + [(7, "C7"), (12, "c12"), (3, "C3")]:
        numeric = not isinstance(spelling, str)
        it = Interp(ctx.prog, no_inline=("cryomap.rotate",),
                    assume=assume_map({"isinstance(symmetry, str)": not numeric, "isinstance(symmetry, (int, float))": numeric}))
        vol = Unk(sym("vol"))
        vol.rank = 3
        r = it.run(q, [vol, K(spelling)], {})
        rots = [e for e in it.events if e.kind == "call" and e.name == "cryocat.cryomap.rotate"]
        mats = []
        for e in rots:
            ang = e.kwargs.get("rotation_angles")
            cs = e.kwargs.get("coord_space", K("zxz"))
            if ang is None or not is_pyconst(ang) or to_term(e.arg(0)) != sym("vol"):
                raise Unsupported("symmetrize_volume: rotate call not recognised", e.node)
            mats.append(R.from_euler(pyval(cs), pyval(ang), degrees=True).as_matrix())
        want = [R.from_euler("z", 360.0 * k / n, degrees=True).as_matrix() for k in range(n)]
        ctx.count(1, {"symmetry": spelling, "copies": len(mats)})
        ok = len(mats) == n
        used = set()
        for M in mats:
            hit = [i for i, W in enumerate(want) if i not in used and np.allclose(M, W, atol=1e-9)]
            if not hit:
                ok = False
                break
            used.add(hit[0])
        if not ok:
            ctx.finding(q, rots[0].node if rots else fn, f"C{n} (given as {spelling!r}): the n copies must be rotated by exactly the "
                        f"multiples k*360/n about z, k = 0..n-1; the code uses {len(mats)} rotation(s) that are not this set",
                        rots[0].node if rots else fn, m)
        t = to_term(r.ret)
        ctx.count(1)
        if tm.has_call(t, "uninitialised"):
            ctx.finding(q, "accumulator", "the sum of the rotated copies starts from an uninitialised (np.empty) array", fn, m)
        # mean of the copies: substitute each rotate call by 1 -> the result must be 1
        one = tm.subst(t, {x: const(1.0) for x in tm.walk(t) if x.op == "call" and x.args[0] == "cryocat.cryomap.rotate"})
        try:
            val = float(np.asarray(tm.evaluate(one, {})))
        except Exception:  # noqa
            val = None
        ctx.count(1)
        if val is None or abs(val - 1.0) > 1e-12 or len([x for x in tm.walk(t) if x.op == "call" and x.args[0] == "cryocat.cryomap.rotate"]) != n:
            ctx.finding(q, "returned map", f"C{n}: the result must be the mean of the n rotated copies (sum / n)", fn, m, value=val)


def _obligations():
    return [
        Obligation("O14.20", "accessors of the particle list: get_coordinates = (x,y,z) + shifts, get_angles / get_rotations = the stored zxz angles, fill stores values as given (shared with C05)", _c05.accessors, floor=20),
        Obligation("O14.9", "map files given by path are read as written and results are written as computed (shared with C11)", lambda ctx: (_c11.o111(ctx), _c11.o115(ctx)), floor=37),
        Obligation("O14.1", "rotate: affine_transform receives the pull-back [[R^T, c - R^T c],[0,1]], c = floor(shape/2)", o141, floor=12),
        Obligation("O14.2", "place_object: rotation/position/colour of the same particle, transpose_rotation, surroundings kept", o142, floor=6),
        Obligation("O14.4", "symmetrize_volume: copies rotated by k*360/n about z for all n, initialised sum, divided by n", o144, floor=40),
        Obligation("O14.3", "shift_positions uses the same active convention: shift += R*s with the particle's own orientation (shared with C05)",
                   _c05.o54, floor=6),
        Obligation("O14.5", "get_start_end_indices closed forms; extract_subvolume fills with the volume mean", o145, floor=14),
        Obligation("O14.6", "crop: the window is centred on crop_coord as given (box centre by default)", o145_crop, floor=2),
    ]


def obligations():
    return _obligations() + [constructors_obligation(['cryomotl.Motl', 'cryomotl.EmMotl']), labels_obligation("C14"), selectors_obligation("C14"), mutations_obligation("C14"), loopstate_obligation("C14"), effects_obligation("C14"), plumbing_obligation("C14"), overrides_obligation("C14"), options_obligation("C14"), handlers_obligation("C14")]
