#!/venv/bin/python
"""C09: clean_by_tomo_mask removes the hits by subtomo_id over the WHOLE list.  A list whose subtomogram numbers repeat across tomograms
(per-tomogram picking, concatenated without renumbering) loses particles of other tomograms that merely share a number with a particle on a
zero voxel.  Run from any directory: /venv/bin/python /verif/findings/C09_mask_removal_by_subtomo_id.py [repo]   (exit 1 = defect present)"""
import sys, os, tempfile
repo = sys.argv[1] if len(sys.argv) > 1 else "/repo"
sys.path.insert(0, repo)
import numpy as np, pandas as pd
from cryocat import cryomotl
cols = cryomotl.Motl.motl_columns
df = pd.DataFrame(0.0, index=range(4), columns=cols)
df["tomo_id"] = [1, 1, 3, 3]
df["subtomo_id"] = [1, 2, 1, 2]          # numbering restarts in every tomogram
df[["x", "y", "z"]] = [[2, 2, 2], [5, 5, 5], [2, 2, 2], [5, 5, 5]]
m = cryomotl.Motl(df)
mask1 = np.ones((8, 8, 8))               # tomogram 1: nothing sits on a zero voxel
mask3 = np.ones((8, 8, 8)); mask3[2, 2, 2] = 0   # tomogram 3: particle (tomo 3, subtomo 1) sits on a zero voxel
os.chdir(tempfile.mkdtemp())
out = m.clean_by_tomo_mask([1, 3], [mask1, mask3], inplace=False)
got = sorted(zip(out.df["tomo_id"].astype(int), out.df["subtomo_id"].astype(int)))
want = [(1, 1), (1, 2), (3, 2)]
print("survivors (tomo, subtomo):", got, " expected:", want)
sys.exit(0 if got == want else 1)
