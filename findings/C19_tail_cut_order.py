"""Reproduction of genuine defect 26 (C19 / O19.10; repaired in /repo 86ccbaf, see known_findings.json) -- not a check: the checks never run
repository code.

Five particles in one tomogram, window (0, 7].  Chain A -> B is traced first; C is then hung before B (A is cut off as a head), D is hung
behind A and before C from both sides: one chain A, D, C, B whose rows lie in the traced table in the order A, B, C, D.  The chain traced last (E)
is closer to A's exit site than D is, so the tail D, C, B is cut off.  add_chain_suffix renumbered a cut-off tail with
np.arange(1, size + 1) in TABLE ROW order, not in chain order: the tail came out as B=1, C=2, D=3 -- the reverse of the links D -> C -> B, so
"each successor's entry site lies within the window of its predecessor's exit site" does not hold (B's exit is 20.6 from C's entry).

    cd <tree> && /venv/bin/python /verif/findings/C19_tail_cut_order.py     -> prints the traced table and VIOLATED / holds"""
import math
import os
import sys
import warnings

import numpy as np
import pandas as pd

sys.path.insert(0, os.getcwd())
warnings.filterwarnings("ignore")
from cryocat import cryomotl, ribana  # noqa: E402

#            entry site        exit site
SITES = {1: ((0, -20, 0), (0, 0, 0)),      # A
         2: ((30, 0, 4), (5, 0, 4)),       # C
         3: ((-6, 0, 0), (30, 0, 1)),      # D
         4: ((0, -5.5, 0), (0, -5.5, 30)), # E
         5: ((5, 0, 0), (5, 20, 0))}       # B
DMAX = 7.0


def motl(points):
    df = pd.DataFrame(0.0, index=range(len(points)), columns=cryomotl.Motl.motl_columns)
    df["tomo_id"] = 1.0
    df["subtomo_id"] = np.arange(1, len(points) + 1.0)
    df[["x", "y", "z"]] = np.asarray(points, dtype=float)
    return cryomotl.Motl(df)


out = ribana.trace_chains(motl([s[0] for s in SITES.values()]), motl([s[1] for s in SITES.values()]), DMAX, 0)
print(out.df[["subtomo_id", "object_id", "geom2", "geom4"]].to_string())
bad = []
for c, g in out.df.groupby("object_id"):
    g = g.sort_values("geom2")
    ids = [int(s) for s in g["subtomo_id"]]
    if g["geom2"].tolist() != list(np.arange(1.0, len(g) + 1)):
        bad.append((c, "order numbers", g["geom2"].tolist()))
    for a, b in zip(ids[:-1], ids[1:]):
        d = math.dist(SITES[a][1], SITES[b][0])
        if not 0 < d <= DMAX:
            bad.append((c, f"link {a}->{b}", round(d, 3)))
print("VIOLATED:" if bad else "holds", bad if bad else "")
sys.exit(1 if bad else 0)
