"""Reproduction of genuine defect 25 (C19 / O19.9; repaired in /repo 98448eb, see known_findings.json) (not a check: the checks never run repository code).

Seven particles in one tomogram, entry and exit sites below, window (0, 7].  The chain that is traced last is hung BEHIND a particle whose
tail is cut off (add_chain_suffix, tail cut) and at the same time runs INTO THE MIDDLE of an older chain (add_chain_prefix from both sides,
head cut).  The cut-off tail and the cut-off head both receive the new chain's former object number, each starting at order number 1:
one object number, order numbers [1, 1] -- "every chain carries consecutive order numbers 1..k" does not hold.

    cd /repo && /venv/bin/python /verif/findings/C19_two_sided_cut.py      -> prints the traced table and VIOLATED"""
import os
import sys
import warnings

import numpy as np
import pandas as pd

sys.path.insert(0, os.getcwd())
warnings.filterwarnings("ignore")
from cryocat import cryomotl, ribana  # noqa: E402

SITES = [((0, 25, -5), (0, 15, -5)), ((0, 15, 0), (0, 15, 5)), ((-3, 0, 0), (0, 0, 0)), ((4, 0, 0), (4, 0, 3)),
         ((10, 0, -2), (7, 0, 0)), ((0, -6, 0), (0, -12, 0)), ((0, 5, 0), (0, 12, 0))]


def motl(points):
    df = pd.DataFrame(0.0, index=range(len(points)), columns=cryomotl.Motl.motl_columns)
    df["tomo_id"] = 1.0
    df["subtomo_id"] = np.arange(1, len(points) + 1.0)
    df[["x", "y", "z"]] = np.asarray(points, dtype=float)
    return cryomotl.Motl(df)


entry, exit_ = motl([s[0] for s in SITES]), motl([s[1] for s in SITES])
out = ribana.trace_chains(entry, exit_, 7.0, 0)
print(out.df[["subtomo_id", "object_id", "geom2", "geom4"]].to_string())
bad = [(c, sorted(g["geom2"].tolist())) for c, g in out.df.groupby("object_id") if sorted(g["geom2"].tolist()) != list(np.arange(1.0, len(g) + 1))]
print("VIOLATED: object numbers with order numbers that are not 1..k:" if bad else "holds", bad if bad else "")
sys.exit(1 if bad else 0)
