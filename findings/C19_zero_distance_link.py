"""Reproduction of genuine defect 29 (C19 / O19.1; repaired in /repo b1093bd, see known_findings.json) -- not a check: the checks never run repository code.

get_nn_dist applied the strict lower bound `distance > min_distance` only when min_distance > 0.  With min_distance = 0 (inside the quantifier:
min_distance >= 0) a neighbour at distance exactly 0 -- an exit site that coincides with another particle's entry site, which happens with integer
coordinates -- was linked and the distance 0.0 recorded; 0 is not in (0, max_distance].

    cd <tree> && /venv/bin/python /verif/findings/C19_zero_distance_link.py     -> prints the traced table and VIOLATED / holds"""
import os
import sys
import warnings

import numpy as np
import pandas as pd

sys.path.insert(0, os.getcwd())
warnings.filterwarnings("ignore")
from cryocat import cryomotl, ribana  # noqa: E402

#         entry site     exit site
SITES = [((0, 0, 0), (5, 0, 0)),      # particle 1: its exit site ...
         ((5, 0, 0), (5, 30, 0)),     # ... coincides with the entry site of particle 2
         ((40, 40, 40), (45, 40, 40))]


def motl(points):
    df = pd.DataFrame(0.0, index=range(len(points)), columns=cryomotl.Motl.motl_columns)
    df["tomo_id"] = 1.0
    df["subtomo_id"] = np.arange(1, len(points) + 1.0)
    df[["x", "y", "z"]] = np.asarray(points, dtype=float)
    return cryomotl.Motl(df)


out = ribana.trace_chains(motl([s[0] for s in SITES]), motl([s[1] for s in SITES]), 7.0, 0)
print(out.df[["subtomo_id", "object_id", "geom2", "geom4"]].to_string())
linked = out.df.groupby("object_id").size().max() > 1
print("VIOLATED: particles 1 and 2 are linked at distance 0, which is not in (0, 7]" if linked else "holds (no link at distance 0)")
sys.exit(1 if linked else 0)
