"""Reproduction of genuine defect 28 (C13 / O13.4; repaired in /repo 0c3b2d4, see known_findings.json) -- not a check: the checks never run repository code.

cryomask.subtraction folded `final_mask -= mask` in the element type of the first mask.  For an unsigned binary mask 0 - 1 wraps around to 255 and
the final clip turns it into 1: voxels that are only in the SECOND mask appeared in the result (AND-NOT violated, silently); for boolean masks numpy
has no `-` and the call raised.  Union and intersection fold into float accumulators and were right for every element type.

    cd <tree> && /venv/bin/python /verif/findings/C13_subtraction_unsigned.py     -> prints the results and VIOLATED / holds"""
import os
import sys
import warnings

import numpy as np

sys.path.insert(0, os.getcwd())
warnings.filterwarnings("ignore")
from cryocat import cryomask  # noqa: E402

bad = []
for dt in (np.uint8, np.uint16, bool, np.int8, np.float32):
    a = np.zeros((6, 6, 6), dt); a[:3] = 1
    b = np.zeros((6, 6, 6), dt); b[2:5] = 1
    want = (a.astype(bool) & ~b.astype(bool)).astype(float)
    try:
        got = cryomask.subtraction([a, b])
        ok = np.array_equal(np.asarray(got, dtype=float), want) and a[:3].all() and not a[3:].any()
        print(np.dtype(dt).name, "->", np.asarray(got)[:, 0, 0], "expected", want[:, 0, 0], "" if ok else "   <-- wrong")
    except Exception as e:  # noqa: BLE001
        ok = False
        print(np.dtype(dt).name, "-> raises", type(e).__name__, "   <-- no result")
    if not ok:
        bad.append(np.dtype(dt).name)
print("VIOLATED for element types" if bad else "holds", bad if bad else "")
sys.exit(1 if bad else 0)
