"""Reproduction of the recorded finding C12 / O12.7 (known, not repaired; see known_findings.json) -- not a check: the checks never run repository code.

The gain of the soft-edged low-pass is measured on the real code as the transform of the filtered unit impulse.  The statement of C12 says that the gain
"depends on its integer frequency radius" and, with a Gaussian edge, is 1 inside cutoff-4*sigma-1, 0 outside cutoff+4*sigma+1 and non-increasing in
between.  The transfer function is a voxelised ball blurred with a separable (cube-supported) kernel, so
  * frequencies of equal integer radius in different directions get different gains (box 32, cutoff 10, sigma 1: |k|^2 = 100 -> 0.364 for (6,8,0), 0.4735
    for (10,0,0)), and the gain is therefore not non-increasing in the radius;
  * the bounds 1 / 0 outside the 4-sigma band hold to about 6e-6 only (the cube's corners reach 4*sigma*sqrt(3)).

    cd /repo && /venv/bin/python /verif/findings/C12_soft_edge_not_radial.py"""
import os
import sys
import warnings

import numpy as np

sys.path.insert(0, os.getcwd())
warnings.filterwarnings("ignore")
from cryocat import cryomap  # noqa: E402


def gain(n, cutoff, sigma):
    x = np.zeros((n, n, n))
    x[0, 0, 0] = 1.0
    g = np.fft.fftn(cryomap.lowpass(x, fourier_pixels=cutoff, gaussian=sigma)).real
    k = np.fft.fftfreq(n) * n
    r2 = np.rint(k[:, None, None] ** 2 + k[None, :, None] ** 2 + k[None, None, :] ** 2).astype(int)
    return g, r2


g, r2 = gain(32, 10, 1)
vals = np.unique(np.round(g[r2 == 100], 4))
print("box 32, cutoff 10, sigma 1: gains at |k|^2 = 100:", vals, "   gain at |k|^2 = 101:", np.unique(np.round(g[r2 == 101], 4)))
g, r2 = gain(48, 14, 2)
rad = np.sqrt(r2)
print("box 48, cutoff 14, sigma 2: min gain inside cutoff-4*sigma-1:", g[rad <= 14 - 8 - 1].min(), "  max gain outside cutoff+4*sigma+1:", g[rad >= 14 + 8 + 1].max())
bad = len(vals) > 1
print("VIOLATED: the soft-edged gain is not a function of the integer frequency radius" if bad else "holds")
sys.exit(1 if bad else 0)
