"""Reproduction of genuine defect 27 (C08 / O8.6; repaired in /repo 470fc01, see known_findings.json) -- not a check: the checks never run repository code.

get_motl_subset took only a Python list for a list of values; a numpy array (its docstring says "array-like", remove_feature accepts one) was
wrapped as ONE value and the column compared with the whole array element by element: on a three-row list `get_motl_subset(np.array([3, 2, 1]))`
returned the rows where row k equals value k (here the middle row only), with another length it raised "Lengths must match".  Selection and
removal were not complementary for array input.

    cd <tree> && /venv/bin/python /verif/findings/C08_subset_array_values.py     -> prints both results and VIOLATED / holds"""
import os
import sys
import warnings

import numpy as np
import pandas as pd

sys.path.insert(0, os.getcwd())
warnings.filterwarnings("ignore")
from cryocat import cryomotl  # noqa: E402

df = pd.DataFrame(0.0, index=range(3), columns=cryomotl.Motl.motl_columns)
df["tomo_id"] = [1.0, 2.0, 3.0]
df["subtomo_id"] = [1.0, 2.0, 3.0]
values = np.array([3, 2, 1])
sub = cryomotl.Motl(df.copy()).get_motl_subset(values)
rest = cryomotl.Motl(df.copy())
rest.remove_feature("tomo_id", values)
got = sub.df["tomo_id"].tolist()
print("get_motl_subset(array([3, 2, 1])) ->", got, "   expected [3.0, 2.0, 1.0]")
print("remove_feature('tomo_id', array([3, 2, 1])) leaves", rest.df["tomo_id"].tolist(), "   expected []")
ok = got == [3.0, 2.0, 1.0] and len(rest.df) == 0
print("holds" if ok else "VIOLATED: selection and removal are not complementary for an array of values")
sys.exit(0 if ok else 1)
