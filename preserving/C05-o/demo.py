"""C05 / change b: API migration in the accessors and transforms the property is observed through --
DataFrame.values -> DataFrame.to_numpy() in get_angles / get_coordinates (row selection written once), keyword
arguments for Rotation.from_euler / as_euler in apply_rotation / get_rotations, one row selection per tomogram in
flip_handedness.

The demo
 1. checks the property (complete position x+shift and orientation transform rigidly under update / scale / shift /
    rotate / flip, histories of up to 6 operations) against an independent model built from plain 3x3 matrices and
    exact rational arithmetic for the rounding,
 2. runs the ORIGINAL functions (texts kept below) next to the ones in the tree on the same tables and requires
    identical outputs (values bit for bit, dtype, shape, writeable flag, memory shared with the table or not) and
    identical tables afterwards, or the same exception.
Run:  cd /tmp/wt7/C05 && /venv/bin/python /tmp/seedsT/C05/b/demo.py
"""
import os
import sys

sys.path.insert(0, os.getcwd())

import copy
import warnings
from fractions import Fraction

import numpy as np
import pandas as pd
from scipy.spatial.transform import Rotation as rot

warnings.filterwarnings("ignore")

from cryocat import cryomotl
from cryocat.cryomotl import Motl

COLS = list(Motl.motl_columns)

# ----------------------------------------------------------------------------------------------------------------------
# the original functions, verbatim from HEAD 6462733 (docstrings dropped)
ORIG_SRC = '''
def apply_rotation(self, rotation):
    if not isinstance(rotation, rot):  # Use `rot` instead of `R`
        raise ValueError("rotation must be an instance of scipy.spatial.transform.Rotation")

    angles = self.df.loc[:, ["phi", "theta", "psi"]].to_numpy()

    angles_rot = rot.from_euler("zxz", angles, degrees=True)
    final_rotation = angles_rot * rotation
    angles = final_rotation.as_euler("zxz", degrees=True)
    self.df.loc[:, ["phi", "theta", "psi"]] = angles

def flip_handedness(self, tomo_dimensions=None):
    self.df.loc[:, "theta"] = -self.df.loc[:, "theta"]

    # Position flip
    if tomo_dimensions is not None:
        dims = ioutils.dimensions_load(tomo_dimensions)
        if dims.shape == (1, 3):
            z_dim = float(dims["z"].iloc[0]) + 1
            self.df.loc[:, "z"] = z_dim - self.df.loc[:, "z"]
            self.df.loc[:, "shift_z"] = -self.df.loc[:, "shift_z"]
        else:
            tomos = dims["tomo_id"].unique()
            for t in tomos:
                z_dim = float(dims.loc[dims["tomo_id"] == t, "z"].iloc[0]) + 1
                self.df.loc[self.df["tomo_id"] == t, "z"] = z_dim - self.df.loc[self.df["tomo_id"] == t, "z"]
                self.df.loc[self.df["tomo_id"] == t, "shift_z"] = -self.df.loc[self.df["tomo_id"] == t, "shift_z"]

def get_angles(self, tomo_number=None):

    if tomo_number is None:
        angles = self.df.loc[:, ["phi", "theta", "psi"]].values
    else:
        angles = self.df.loc[self.df.loc[:, "tomo_id"] == tomo_number, ["phi", "theta", "psi"]].values

    return np.atleast_2d(angles)

def get_coordinates(self, tomo_number=None):
    if tomo_number is None:
        coord = self.df.loc[:, ["x", "y", "z"]].values + self.df.loc[:, ["shift_x", "shift_y", "shift_z"]].values
    else:
        coord = (
            self.df.loc[self.df.loc[:, "tomo_id"] == tomo_number, ["x", "y", "z"]].values
            + self.df.loc[
                self.df.loc[:, "tomo_id"] == tomo_number,
                ["shift_x", "shift_y", "shift_z"],
            ].values
        )

    return coord

def get_rotations(self, tomo_number=None):
    angles = self.get_angles(tomo_number)
    if angles.shape[0] == 0:
        return []  # Return an empty list if angles is empty
    rotations = rot.from_euler("zxz", angles, degrees=True)

    return rotations
'''
_ns = dict(vars(cryomotl))
exec(ORIG_SRC, _ns)


class OrigMotl(Motl):
    apply_rotation = _ns["apply_rotation"]
    flip_handedness = _ns["flip_handedness"]
    get_angles = _ns["get_angles"]
    get_coordinates = _ns["get_coordinates"]
    get_rotations = _ns["get_rotations"]


# ----------------------------------------------------------------------------------------------------------------------
# independent model
def Rz(a):
    a = np.deg2rad(a)
    c, s = np.cos(a), np.sin(a)
    return np.array([[c, -s, 0.0], [s, c, 0.0], [0.0, 0.0, 1.0]])


def Rx(a):
    a = np.deg2rad(a)
    c, s = np.cos(a), np.sin(a)
    return np.array([[1.0, 0.0, 0.0], [0.0, c, -s], [0.0, s, c]])


def euler_to_matrix(phi, theta, psi):
    # extrinsic zxz: first about z by phi, then about the fixed x by theta, then about the fixed z by psi
    return Rz(psi) @ Rx(theta) @ Rz(phi)


def half_away(v):
    """Round the float v to an integer, ties away from zero, in exact rational arithmetic."""
    f = Fraction(float(v))
    a = abs(f)
    n = a.numerator // a.denominator
    if a - n >= Fraction(1, 2):
        n += 1
    return -n if f < 0 else n


S = np.diag([1.0, 1.0, -1.0])


class Model:
    def __init__(self, df):
        self.P = df[["x", "y", "z"]].to_numpy(dtype=float) + df[["shift_x", "shift_y", "shift_z"]].to_numpy(dtype=float)
        self.M = [euler_to_matrix(*r) for r in df[["phi", "theta", "psi"]].to_numpy(dtype=float)]
        self.tomo = df["tomo_id"].to_numpy(dtype=float)

    def scale(self, f):
        self.P = self.P * f

    def shift(self, s):
        s = np.asarray(s, dtype=float).reshape(3)
        self.P = np.array([p + m @ s for p, m in zip(self.P, self.M)]).reshape(-1, 3)

    def rotate(self, Q):
        q = Q.as_matrix()
        self.M = [m @ q for m in self.M]

    def flip(self, table):
        self.M = [S @ m @ S for m in self.M]
        if table is None:
            return
        for i in range(len(self.P)):
            if isinstance(table, dict):
                if self.tomo[i] in table:
                    self.P[i, 2] = table[self.tomo[i]] + 1 - self.P[i, 2]
            else:
                self.P[i, 2] = table + 1 - self.P[i, 2]


def check_state(m, model, what):
    n = len(model.P)
    c = m.get_coordinates()
    assert c.shape == (n, 3), (what, c.shape)
    scale = 1.0 + np.abs(model.P)
    assert np.all(np.abs(c - model.P) <= 1e-7 * scale), (what, "position", np.abs(c - model.P).max())
    r = m.get_rotations()
    if n == 0:
        assert len(r) == 0
    else:
        mats = r.as_matrix().reshape(-1, 3, 3)
        assert mats.shape[0] == n
        err = max(np.abs(a - b).max() for a, b in zip(mats, model.M))
        assert err <= 1e-6, (what, "orientation", err)


def check_updated(m, before, what):
    """x, y, z are the half-away rounding of the former complete position, |shift| <= 0.5, sum unchanged."""
    xyz = m.df[["x", "y", "z"]].to_numpy(dtype=float)
    sh = m.df[["shift_x", "shift_y", "shift_z"]].to_numpy(dtype=float)
    assert xyz.shape == before.shape
    for (i, j), v in np.ndenumerate(before):
        assert xyz[i, j] == half_away(v), (what, v, xyz[i, j])
        assert abs(sh[i, j]) <= 0.5, (what, v, sh[i, j])
        assert Fraction(float(xyz[i, j])) + Fraction(float(sh[i, j])) == Fraction(float(v)) or abs(
            xyz[i, j] + sh[i, j] - v
        ) <= 1e-9 * (1 + abs(v)), (what, v)


# ----------------------------------------------------------------------------------------------------------------------
# inputs
rng = np.random.default_rng(int(os.environ.get("DEMO_SEED", "5")))

SPECIAL = [0.0, -0.0, 0.5, -0.5, 1.5, -1.5, 2.5, -2.5, 3.5, 0.49999999999999994, -0.49999999999999994,
           0.5000000000000001, 1e-20, -1e-20, 4503599627370495.5, -4503599627370495.5, 4503599627370496.0,
           2251799813685247.5, 1e15 + 0.5, 123456.5, -123456.5, 7.0, -7.0, 0.25, -0.75]
POLES = [0.0, 180.0, -180.0, 90.0, -90.0, 360.0, 1e-9, 180 - 1e-9]


def make_df(n, kind):
    d = {c: np.zeros(n) for c in COLS}
    d["score"] = rng.random(n)
    d["subtomo_id"] = np.arange(1, n + 1, dtype=float)
    d["tomo_id"] = rng.integers(1, 4, n).astype(float)
    d["object_id"] = rng.integers(1, 3, n).astype(float)
    d["class"] = np.ones(n)
    if kind == "integer_pos":
        xyz = rng.integers(-50, 200, (n, 3)).astype(float)
        sh = np.zeros((n, 3))
    elif kind == "ties":
        xyz = rng.integers(-50, 200, (n, 3)).astype(float)
        sh = rng.choice([0.5, -0.5, 1.5, -1.5, 2.5, -2.5, 0.0], (n, 3))
    elif kind == "special":
        xyz = rng.choice([0.0, 1.0, -1.0, 10.0], (n, 3))
        sh = rng.choice(SPECIAL, (n, 3))
        xyz[sh > 1e10] = 0.0
        xyz[sh < -1e10] = 0.0
    else:
        xyz = rng.uniform(-300, 300, (n, 3))
        sh = rng.uniform(-5, 5, (n, 3))
    d["x"], d["y"], d["z"] = xyz[:, 0], xyz[:, 1], xyz[:, 2]
    d["shift_x"], d["shift_y"], d["shift_z"] = sh[:, 0], sh[:, 1], sh[:, 2]
    ang = np.column_stack([rng.uniform(-180, 180, n), rng.uniform(0, 180, n), rng.uniform(-180, 180, n)])
    for i in range(n):
        if rng.random() < 0.3:
            ang[i, 1] = rng.choice(POLES)
        if rng.random() < 0.2:
            ang[i, 0] = rng.choice(POLES)
        if rng.random() < 0.1:
            ang[i, 1] = -ang[i, 1]
    d["phi"], d["theta"], d["psi"] = ang[:, 0], ang[:, 1], ang[:, 2]
    df = pd.DataFrame(d, columns=COLS)
    return df


def decorate(df, variant):
    """Same particles, different table layouts."""
    df = df.copy()
    n = len(df)
    if variant == "int_columns":
        for c in ("tomo_id", "object_id", "subtomo_id", "class"):
            df[c] = df[c].astype(np.int64)
    elif variant == "shuffled_columns":
        df = df.loc[:, list(rng.permutation(COLS))]
    elif variant == "odd_index":
        df.index = pd.Index(rng.permutation(np.arange(100, 100 + n)) * 3, name="pid")
    elif variant == "dup_index":
        df.index = pd.Index(np.zeros(n, dtype=int) + 7)
    elif variant == "nan_holes":
        for c in ("geom1", "geom4", "score"):
            col = df[c].to_numpy(copy=True)
            col[rng.random(n) < 0.4] = np.nan
            df[c] = col
    return df


def random_rotation():
    k = rng.integers(0, 5)
    if k == 0:
        return rot.identity()
    if k == 1:
        return rot.from_euler("zxz", [rng.choice(POLES), rng.choice([0.0, 180.0]), rng.choice(POLES)], degrees=True)
    if k == 2:
        return rot.from_euler("z", rng.uniform(-180, 180), degrees=True)
    return rot.random(random_state=int(rng.integers(0, 2**31)))


def random_dims(df):
    """Returns (argument for flip_handedness, model table)."""
    k = rng.integers(0, 7)
    tomos = sorted(set(df["tomo_id"].astype(float)))
    z = float(rng.integers(50, 400))
    if k == 0:
        return None, None
    if k == 1:
        return [400, 300, z], z
    if k == 2:
        return np.array([400.0, 300.0, z]), z
    if k == 3:
        return np.array([[400, 300, int(z)]]), z
    zs = {t: float(rng.integers(50, 400)) for t in tomos}
    if k == 4 and len(zs) > 1:  # a tomogram missing from the table keeps its positions
        zs.pop(tomos[-1])
    if not zs:
        zs = {1.0: z}
    rows = [[t, 400.0, 300.0, v] for t, v in zs.items()]
    if k == 5:
        return np.array(rows), zs
    return pd.DataFrame(rows), zs


def random_history(df, length):
    ops = []
    for _ in range(length):
        k = rng.choice(["update", "scale", "shift", "shift_copy", "rotate", "flip", "flip2"])
        if k == "scale":
            ops.append((k, float(rng.choice([0.5, 2.0, 4.0, 1.0, 0.25, 3.0, rng.uniform(0.1, 8)]))))
        elif k in ("shift", "shift_copy"):
            s = rng.choice([0, 1, -1, 2.5, -0.5], 3) if rng.random() < 0.4 else rng.uniform(-20, 20, 3)
            ops.append((k, list(s) if rng.random() < 0.5 else np.asarray(s)))
        elif k == "rotate":
            ops.append((k, random_rotation()))
        elif k in ("flip", "flip2"):
            ops.append((k, random_dims(df)))
        else:
            ops.append((k, None))
    return ops


def run_op(m, op, arg):
    if op == "update":
        m.update_coordinates()
    elif op == "scale":
        m.scale_coordinates(arg)
    elif op == "shift":
        m.shift_positions(copy.deepcopy(arg))
    elif op == "shift_copy":
        m = m.shift_positions(copy.deepcopy(arg), inplace=False)
    elif op == "rotate":
        m.apply_rotation(arg)
    elif op == "flip":
        m.flip_handedness(copy.deepcopy(arg[0]))
    elif op == "flip2":
        m.flip_handedness(copy.deepcopy(arg[0]))
        m.flip_handedness(copy.deepcopy(arg[0]))
    return m


def model_op(model, op, arg):
    if op == "scale":
        model.scale(arg)
    elif op in ("shift", "shift_copy"):
        model.shift(arg)
    elif op == "rotate":
        model.rotate(arg)
    elif op == "flip":
        model.flip(arg[1])
    # update and flip2 leave the model as it is


def same_frames(a, b, what):
    pd.testing.assert_frame_equal(a, b, check_exact=True, check_dtype=True, obj=what)
    assert list(a.columns) == list(b.columns), what
    assert a.index.equals(b.index) and a.index.names == b.index.names, what
    va, vb = a.to_numpy(dtype=float), b.to_numpy(dtype=float)
    assert np.array_equal(np.signbit(va), np.signbit(vb)), (what, "sign of zero")
    assert np.array_equal(va, vb, equal_nan=True), what


# ----------------------------------------------------------------------------------------------------------------------
def part1_property():
    count = 0
    for n in (0, 1, 2, 5, 17):
        for kind in ("integer_pos", "ties", "special", "random"):
            for variant in ("plain", "int_columns", "shuffled_columns", "odd_index", "dup_index", "nan_holes"):
                base = decorate(make_df(n, kind), variant)
                for rep in range(2):
                    hist = random_history(base, int(rng.integers(1, 7)))
                    for cls in (Motl, OrigMotl):
                        m = cls(base.copy())
                        model = Model(base)
                        check_state(m, model, "start")
                        for step, (op, arg) in enumerate(hist):
                            before = m.get_coordinates().copy()
                            m = run_op(m, op, arg)
                            model_op(model, op, arg)
                            what = (n, kind, variant, step, op)
                            check_state(m, model, what)
                            if op == "update":
                                check_updated(m, before, what)
                                # repeated call on the same object: nothing moves any more
                                again = m.df.copy()
                                m.update_coordinates()
                                assert np.array_equal(
                                    again[["x", "y", "z", "shift_x", "shift_y", "shift_z"]].to_numpy(),
                                    m.df[["x", "y", "z", "shift_x", "shift_y", "shift_z"]].to_numpy(),
                                ), what
                        count += 1
    # composition laws spelled out once more on one list
    base = make_df(9, "random")
    s1, s2 = rng.uniform(-5, 5, 3), rng.uniform(-5, 5, 3)
    a, b = Motl(base.copy()), Motl(base.copy())
    a.shift_positions(s1)
    a.shift_positions(s2)
    b.shift_positions(s1 + s2)
    assert np.allclose(a.get_coordinates(), b.get_coordinates(), atol=1e-9)
    q1, q2 = random_rotation(), rot.random(random_state=3)
    a, b = Motl(base.copy()), Motl(base.copy())
    a.apply_rotation(q1)
    a.apply_rotation(q2)
    b.apply_rotation(q1 * q2)
    assert np.allclose(a.get_rotations().as_matrix(), b.get_rotations().as_matrix(), atol=1e-9)
    assert np.array_equal(a.get_coordinates(), Motl(base.copy()).get_coordinates())
    return count


def same_arrays(a, b, what):
    assert type(a) is type(b), what
    assert a.dtype == b.dtype and a.shape == b.shape, (what, a.dtype, b.dtype, a.shape, b.shape)
    assert np.array_equal(a, b, equal_nan=True), what
    assert np.array_equal(np.signbit(a.astype(float)), np.signbit(b.astype(float))), what
    assert a.flags.writeable == b.flags.writeable, (what, "writeable")


def shares(arr, df):
    return any(np.shares_memory(arr, df[c].to_numpy()) for c in df.columns)


def outcome(f):
    try:
        return "ok", f()
    except Exception as e:  # noqa
        return type(e).__name__, None


def part2_original_vs_tree():
    count = 0
    variants = ("plain", "int_columns", "shuffled_columns", "odd_index", "dup_index", "nan_holes", "int_everything")
    for n in (0, 1, 2, 3, 8, 40):
        for kind in ("integer_pos", "ties", "special", "random"):
            for variant in variants:
                if variant == "int_everything":
                    base = make_df(n, "integer_pos").round().astype(np.int64)
                else:
                    base = decorate(make_df(n, kind), variant)
                o, t = OrigMotl(base.copy()), Motl(base.copy())
                for call in range(2):  # repeated calls on the same objects
                    what = (n, kind, variant, call)
                    for tomo in (None, 1, 2.0, np.int64(3), 99, -1):
                        ao, at = o.get_angles(tomo), t.get_angles(tomo)
                        same_arrays(ao, at, what + ("angles", tomo))
                        co, ct = o.get_coordinates(tomo), t.get_coordinates(tomo)
                        same_arrays(co, ct, what + ("coord", tomo))
                        # memory shared with the table (a read-only view when the three columns lie next to each
                        # other in one block) or not: the same before and after; the sum is always a fresh array
                        assert shares(ao, o.df) == shares(at, t.df), what
                        if shares(at, t.df):
                            assert not at.flags.writeable
                        assert not shares(ct, t.df) and ct.flags.writeable, what
                        ro, rt = o.get_rotations(tomo), t.get_rotations(tomo)
                        assert type(ro) is type(rt), what
                        if isinstance(ro, list):
                            assert ro == rt == []
                        else:
                            assert np.array_equal(ro.as_quat(), rt.as_quat()), what
                        count += 1
                    q = random_rotation()
                    ko, _ = outcome(lambda: o.apply_rotation(q))
                    kt, _ = outcome(lambda: t.apply_rotation(q))
                    assert ko == kt, (what, ko, kt)
                    same_frames(o.df, t.df, what + ("apply_rotation",))
                    dims = random_dims(base)[0]
                    ko, _ = outcome(lambda: o.flip_handedness(copy.deepcopy(dims)))
                    kt, _ = outcome(lambda: t.flip_handedness(copy.deepcopy(dims)))
                    assert ko == kt, (what, ko, kt)
                    same_frames(o.df, t.df, what + ("flip_handedness",))
                    count += 2
    # several rows for one tomogram in the dimension table: the first one counts, before and after
    base = make_df(12, "random")
    table = np.array([[1, 400, 300, 100], [2, 400, 300, 150], [1, 400, 300, 999], [3, 400, 300, 80]], dtype=float)
    o, t = OrigMotl(base.copy()), Motl(base.copy())
    o.flip_handedness(table.copy())
    t.flip_handedness(table.copy())
    same_frames(o.df, t.df, "duplicate tomograms in the table")
    zs = {1.0: 100.0, 2.0: 150.0, 3.0: 80.0}
    model = Model(base)
    model.flip(zs)
    check_state(t, model, "duplicate tomograms in the table")
    # a rotation object with one rotation per particle, and something that is not a rotation
    many = rot.random(12, random_state=11)
    o.apply_rotation(many)
    t.apply_rotation(many)
    same_frames(o.df, t.df, "per-particle rotations")
    for bad in (np.eye(3), [0, 0, 90], None, "z"):
        for m in (o, t):
            try:
                m.apply_rotation(bad)
            except ValueError as e:
                assert "scipy.spatial.transform.Rotation" in str(e)
            else:
                raise AssertionError("no ValueError")
    count += 3
    return count


if __name__ == "__main__":
    c1 = part1_property()
    c2 = part2_original_vs_tree()
    print(f"property histories checked: {c1}; original-vs-tree comparisons: {c2}")
    print("PASS")
