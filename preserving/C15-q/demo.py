#!/venv/bin/python
"""C15 -- tilt-stack operations are lossless selections / permutations of tilt images.
Change a: split_stack_even_odd -- single-tilt guard hoisted, modulo loop replaced by two strided selections.
Checks, for 2..25 tilts, non-square images 4..40, float32 / int16, input_order x output_order in {xyz, zyx}^2, array vs.
MRC-file input, output file on / off:
  sort_tilts_by_angle == images reordered by ascending angle     remove_tilts == the other images in original order
  split_stack_even_odd interleaves back to the input              flip twice == identity (and one flip == mirror)
  crop == central window                                          bin == block means
against plain-numpy references, reads the written files back with mrcfile directly, and compares every output of the
functions in the worktree with the output of the ORIGINAL functions (text kept below) on the same inputs.
run:  cd /tmp/wt11/C15 && /venv/bin/python <this file>
"""
import os, sys
sys.path.insert(0, os.getcwd())

ORIG_SRC = r'''
class TiltStack:

    def __init__(self, tilt_stack, input_order="xyz", output_order="xyz"):

        if not isinstance(tilt_stack, np.ndarray):  # if loading necessary, load in zyx
            self.data = cryomap.read(tilt_stack, transpose=False)
            if self.data.shape == 2:
                self.data = np.expand_dims(
                    self.data, axis=0
                )  # ensure that it will always have three dimensions, for z=1 mrc returns 2d array
        else:
            self.data = tilt_stack.copy()
            if self.data.shape == 2:
                if input_order == "xyz":
                    self.data = np.expand_dims(self.data, axis=2)  # ensure that it will always have three dimensions
                else:
                    self.data = np.expand_dims(self.data, axis=0)  # ensure that it will always have three dimensions

            if input_order == "xyz":
                self.data = self.data.transpose(2, 1, 0)

        self.data_type = self.data.dtype

        self.input_order = input_order
        self.current_order = "zyx"
        self.output_order = output_order

        self.n_tilts, self.height, self.width = self.data.shape

    def write_out(self, output_file, new_data=None):
        """Writes data to a specified output file.

        Parameters
        ----------
        output_file : str
            The path to the output file where data will be written.
        new_data : optional
            The data to write to the output file. If not provided, the method will use the instance's data. Default is None.

        Returns
        -------
        None

        Notes
        -----
        This method uses the `cryomap.write` function to perform the actual writing of data.
        """

        if output_file:
            data_to_write = new_data if new_data is not None else self.data
            cryomap.write(data_to_write, output_file, data_type=self.data_type, transpose=False)

    def correct_order(self, new_data=None):
        """Corrects the order of the data and ensures it is of the correct type.

        Parameters
        ----------
        new_data : array-like, optional
            The new data to be corrected. If None, the method will use the instance's data. Default is None.

        Returns
        -------
        array
            The corrected data, which is either the new data with the correct type and order,
            or the instance's data if no new data is provided.

        Notes
        -----
        The method checks if the data type of the provided or instance data matches the expected
        data type. If not, it converts the data to the expected type. Additionally, if the current
        order of the data does not match the desired output order, the data is transposed to
        the correct order.
        """

        return_data = new_data if new_data is not None else self.data

        if return_data.dtype != self.data_type:
            return_data = return_data.astype(self.data_type)

        if self.current_order != self.output_order:
            return return_data.transpose(2, 1, 0)
        else:
            return return_data


def crop(tilt_stack, new_width=None, new_height=None, output_file=None, input_order="xyz", output_order="xyz"):
    """Crop a tilt stack to a specified width and height, and optionally save the result to a file.

    Parameters
    ----------
    tilt_stack : str or array-like
        The input tilt stack data to be cropped specified either as a path or array-like data.
    new_width : int, optional
        The desired width of the cropped output. If None, the original width is used. Defaults to None.
    new_height : int, optional
        The desired height of the cropped output. If None, the original height is used. Defaults to None.
    output_file : str, optional
        The file path where the cropped tilt stack will be saved. If None, the output is not saved. Defaults to None.
    input_order : str, default='xyz'
        The order of the input data dimensions. Relevant only if tilt_stack in numpy.ndarray. Defaults to 'xyz'.
    output_order : str, default='xyz'
        The order of the output data dimensions. It does not influence order for writing the stack out, just of the
        returned array. Defaults to 'xyz'.

    Returns
    -------
    numpy.ndarray
        Numpy 3D array with tilt stack data in the desired order.

    Notes
    -----
    The cropping is performed around the center of the original tilt stack. The function modifies the tilt stack in
    place and saves the cropped data if an output file is specified.
    """

    print(f"Cropping of the tilt stack started...")

    ts = TiltStack(tilt_stack=tilt_stack, input_order=input_order, output_order=output_order)

    if new_width is not None:
        new_width = int(new_width)
        if new_width > ts.width:
            raise ValueError(f"new_width cannot be greater than ts.width ({ts.width})")
    else:
        new_width = ts.width
    if new_height is not None:
        new_height = int(new_height)
        if new_height > ts.height:
            raise ValueError(f"new_height cannot be greater than ts.height ({ts.height})")
    else:
        new_height = ts.height

    # Calculate the center of the original array
    center_w, center_h = ts.width // 2, ts.height // 2

    # Calculate the cropping indices
    start_w = int(center_w - int(new_width) // 2)
    end_w = int(start_w + int(new_width))

    start_h = int(center_h - int(new_height) // 2)
    end_h = int(start_h + int(new_height))

    # crop the actual images
    ts.data = ts.data[:, start_h:end_h, start_w:end_w]

    ts.write_out(output_file)

    print(f"...cropping of the tilt stack successfully finished. New dimensions are {end_w-start_w}, {end_h-start_h}\n")

    return ts.correct_order()


def sort_tilts_by_angle(tilt_stack, input_tilts, output_file=None, input_order="xyz", output_order="xyz"):
    """Sorts a stack of tilts by their angles and optionally writes the sorted data to a file.

    Parameters
    ----------
    tilt_stack : str or array-like
        The input tilt stack data to be sorted specified either as a path or array-like data.
    input_tilts : str or array-like
        The file path to the input tilt angles. See `ioutils.tlt_load` function for more info.
    output_file : str, optional
        The file path where the sorted tilt data will be saved. If None, the data will not be saved. Defaults to None.
    input_order : str, default='xyz'
        The order of the input data dimensions. Relevant only if tilt_stack in numpy.ndarray. Defaults to 'xyz'.
    output_order : str, default='xyz'
        The order of the output data dimensions. It does not influence order for writing the stack out, just of the
        returned array. Defaults to 'xyz'.

    Returns
    -------
    numpy.ndarray
        Numpy 3D array with tilt stack data in the desired order.

    Notes
    -----
    The function loads tilt angles from the specified input file, sorts the tilt stack based on these angles,
    and writes the sorted data to the specified output file if provided. The input and output orders can be
    specified to accommodate different needs.
    """

    print(f"Reordering of the tilt stack started...")

    ts = TiltStack(tilt_stack=tilt_stack, input_order=input_order, output_order=output_order)

    tilt_angles = ioutils.tlt_load(input_tilts, sort_angles=False)
    sorted_indices = np.argsort(tilt_angles)

    ts.data = ts.data[sorted_indices, :, :]
    ts.write_out(output_file)

    print("...reordering of the tilt stack successfully finished.\n")

    return ts.correct_order()


def remove_tilts(
    tilt_stack,
    idx_to_remove,
    numbered_from_1=True,
    output_file=None,
    input_order="xyz",
    output_order="xyz",
):
    """Remove specified tilts from a tilt stack and optionally save the result to a file.

    Parameters
    ----------
    tilt_stack : str or array-like
        The input tilt stack data from which tilts will be removed.
    idx_to_remove : array-like
        Indices of the tilts to remove. If `numbered_from_1` is True, the indices are 1-based.
    numbered_from_1 : bool, defaults=True
        If True, the indices in `idx_to_remove` are considered to be 1-based. Defaults to True.
    output_file : str, optional
        The file path where the modified tilt stack will be saved. If None, the result is not saved.  Defaults to None.
    input_order : str, default='xyz'
        The order of the input data dimensions. Relevant only if tilt_stack in numpy.ndarray. Defaults to 'xyz'.
    output_order : str, default='xyz'
        The order of the output data dimensions. It does not influence order for writing the stack out, just of the
        returned array. Defaults to 'xyz'.

    Returns
    -------
    numpy.ndarray
        Numpy 3D array with tilt stack data with the specified tilts removed.

    Notes
    -----
    This function modifies the tilt stack in place and can save the result to a specified output file.
    """

    print(f"Removing of specified tilts started...")

    ts = TiltStack(tilt_stack=tilt_stack, input_order=input_order, output_order=output_order)

    idx_to_remove_final = ioutils.indices_load(idx_to_remove, numbered_from_1=numbered_from_1)
    # Check bounds
    max_index = ts.data.shape[0]
    if any(idx < 0 or idx >= max_index for idx in idx_to_remove_final):
        raise IndexError(
            f"One or more indices in idx_to_remove exceed bounds. " f"Valid range: 0 to {max_index - 1} (0-based)."
        )
    ts.data = np.delete(ts.data, idx_to_remove_final, axis=0)
    ts.write_out(output_file)

    print(f"...removing of {idx_to_remove_final.shape[0]} tilts successfully finished.\n")

    return ts.correct_order()


def bin(tilt_stack, binning_factor, output_file=None, input_order="xyz", output_order="xyz"):
    """Binning of a tilt stack using local mean downscaling.

    Parameters
    ----------
    tilt_stack : str or array-like
        The input tilt stack data to be binned.
    binning_factor : int
        The factor by which to downscale the tilt stack.
    output_file : str, optional
        The file path to save the binned tilt stack. If None, the output will not be saved. Defaults to None.
    input_order : str, default='xyz'
        The order of the input data dimensions. Relevant only if tilt_stack in numpy.ndarray. Defaults to 'xyz'.
    output_order : str, default='xyz'
        The order of the output data dimensions. It does not influence order for writing the stack out, just of the
        returned array. Defaults to 'xyz'.

    Returns
    -------
    numpy.ndarray
        Numpy 3D array with tilt stack binned data in the specified output order.

    Notes
    -----
    This function utilizes local mean downscaling to reduce the size of the tilt stack
    by the specified binning factor. The output can be saved to a file if an output
    file path is provided.
    """

    print(f"Binning tilt stack with binning factor of {str(binning_factor)} started...")

    # cast in case of string
    binning_factor = int(binning_factor)

    ts = TiltStack(tilt_stack=tilt_stack, input_order=input_order, output_order=output_order)
    ts.data = downscale_local_mean(ts.data, (1, binning_factor, binning_factor))
    ts.write_out(output_file)

    print("...binning finished successfully.\n")
    return ts.correct_order()


def split_stack_even_odd(tilt_stack, output_file_prefix=None, input_order="xyz", output_order="xyz"):
    """Splits a given tilt stack into even and odd stacks.

    Parameters
    ----------
    tilt_stack : str or array-like
        The input tilt stack data specified by its filename (including the path) or as 3d numpy array.
    output_file_prefix : str, optional
        The prefix for the output filenames. If provided, the function will save the even and odd stacks as files with
        this prefix followed by '_even.mrc' and '_odd.mrc', respectively. Defaults to None.
    input_order : str, default='xyz'
        The order of the input data dimensions. Relevant only if tilt_stack in numpy.ndarray. Defaults to 'xyz'.
    output_order : str, default='xyz'
        The order of the output data dimensions. It does not influence order for writing the stack out, just of the
        returned array. Defaults to 'xyz'.

    Returns
    -------
    tuple of numpy.ndarray
        A tuple containing two arrays: the first array contains the even indexed tilts, and the second array contains
        the odd indexed tilts, both reordered according to `output_order`.

    """

    ts = TiltStack(tilt_stack=tilt_stack, input_order=input_order, output_order=output_order)

    even_stack = []
    odd_stack = []

    if not ts.n_tilts == 1:
        # For each tilt image in the stack
        for i in range(ts.n_tilts):

            # Split to even and odd by using modulo 2
            if i % 2 == 0:
                even_stack.append(ts.data[i, :, :])
            else:
                odd_stack.append(ts.data[i, :, :])

        even_stack = np.stack(even_stack, axis=0)
        odd_stack = np.stack(odd_stack, axis=0)

        if output_file_prefix:
            ts.write_out(output_file_prefix + "_even.mrc", new_data=even_stack)
            ts.write_out(output_file_prefix + "_odd.mrc", new_data=odd_stack)

        return ts.correct_order(even_stack), ts.correct_order(odd_stack)
    else:
        raise ValueError(f"Stack contains only 1 tilt.")


def merge(file_path_pattern, output_file=None, output_order="xyz"):
    """Merge multiple files matching a given pattern into a single stack.

    Parameters
    ----------
    file_path_pattern : str
        A pattern for file paths to match files that will be merged. This can include wildcards, i.e. tilt.mrc* will
        load all files from given folder that start with tilt.mrc followed by numbering such as tilt.mrc001, tilt.mrc2
        etc.
    output_file : str, optional
        The path to the output file where the merged stack will be saved. If None, the stack will not be saved to a file.
        Defaults to None.
    output_order : str, default='xyz'
        The order of the output data dimensions. It does not influence order for writing the stack out, just of the
        returned array. Defaults to 'xyz'.

    Returns
    -------
    TiltStack
        A TiltStack object containing the merged data in the specified output order.

    Notes
    -----
    This function retrieves all files matching the specified pattern, sorts them, and then merges their contents into a
    single stack. The resulting stack is saved to the specified output file if provided. Since the data are always
    loaded first (having always 'zyx' order), the input_order is irrelevant and thus not required.

    Examples
    --------
    >>> merged_stack = merge("data/*.mrc", output_file="merged_output.mrc", output_order="xyz")
    """

    files, wildcards = ioutils.get_all_files_matching_pattern(file_path_pattern)
    sorted_files = ioutils.sort_files_by_idx(files, wildcards, order="ascending")

    all_stacks = []

    for sf in sorted_files:
        ts = TiltStack(sf, input_order="zyx", output_order=output_order)
        all_stacks.append(ts.data)

    final_stack = np.concatenate(all_stacks, axis=0)
    final_ts = TiltStack(final_stack, input_order="zyx", output_order=output_order)

    final_ts.write_out(output_file)

    return final_ts.correct_order()


def flip_along_axes(tilt_stack, axes, output_file=None, input_order="xyz", output_order="xyz"):
    """Flip the tilt stack along specified axes and optionally save the result to a file.

    Parameters
    ----------
    tilt_stack : str or array-like
        The input tilt stack data to be flipped along one or more axes.
    axes : list of str
        The axes along which to flip the tilt stack. Acceptable values are 'x', 'y', and 'z'.
    output_file : str, optional
        The file path to save the flipped tilt stack. If None, the result is not saved. Defaults to None.
    input_order : str, default='xyz'
        The order of the input data dimensions. Relevant only if tilt_stack in numpy.ndarray. Defaults to 'xyz'.
    output_order : str, default='xyz'
        The order of the output data dimensions. It does not influence order for writing the stack out, just of the
        returned array. Defaults to 'xyz'.

    Returns
    -------
    numpy.ndarray
        The flipped tilt stack data in the specified output order.

    Raises
    ------
    ValueError
        If the axes contains different values than 'x','y','z'.

    Notes
    -----
    The flipping correspond to IMOD's 'clip' function with options flipx, flipy, flipz. If multiple axes are specified
    it correspond to concatenation of those IMOD operations. For example, axes=['x','y'] will correspond to calling
    clip flipx input.mrc output_x.mrc and subsequently clip flipy ouput_x.mrc output_y.mrc. This is not equivalent to
    the result of calling clip flipxy input.mrc output.mrc!
    """

    ts = TiltStack(tilt_stack=tilt_stack, input_order=input_order, output_order=output_order)

    if not isinstance(axes, list):
        axes = [axes]

    for a in axes:
        if a == "x":
            ts.data = ts.data[:, ::-1, :]
        elif a == "y":
            ts.data = ts.data[:, :, ::-1]
        elif a == "z":
            ts.data = ts.data[::-1, :, :]
        else:
            raise ValueError(f"The axes can be 'x', 'y', or 'z'. Provided axis {a} not supported.")

    ts.write_out(output_file)

    return ts.correct_order()

'''


# ----------------------------------------------------------------------------------------------------------------------
# harness
# ----------------------------------------------------------------------------------------------------------------------
import contextlib, io, itertools, shutil, tempfile, logging
import numpy as np
import mrcfile
from cryocat import tiltstack as NEW
from cryocat import cryomap as _cm, ioutils as _io

# the original functions, executed from the text above in a namespace that has the same imports as the module
ORIG = {}
exec(
    "import os\nimport re\nimport numpy as np\nfrom cryocat import cryomap\nfrom cryocat import ioutils\n"
    "from skimage.transform import downscale_local_mean\nfrom skimage import exposure\n" + ORIG_SRC,
    ORIG,
)


class O:  # attribute access to the original functions
    pass


for _k in ("TiltStack", "crop", "sort_tilts_by_angle", "remove_tilts", "bin", "split_stack_even_odd", "merge",
           "flip_along_axes"):
    setattr(O, _k, staticmethod(ORIG[_k]) if not isinstance(ORIG[_k], type) else ORIG[_k])

TMP = tempfile.mkdtemp(prefix="c15demo_")
FAIL = []
N_CHECKS = [0]
ORDERS = ("xyz", "zyx")


def check(cond, msg):
    N_CHECKS[0] += 1
    if not cond:
        FAIL.append(msg)
        if len(FAIL) <= 20:
            print("FAIL:", msg)


def quiet(fn, *a, **k):
    with contextlib.redirect_stdout(io.StringIO()):
        return fn(*a, **k)


def same(a, b):
    """exactly equal arrays: shape, dtype, values"""
    a = np.asarray(a)
    b = np.asarray(b)
    return a.shape == b.shape and a.dtype == b.dtype and np.array_equal(a, b)


def read_mrc(path):
    """independent reader: the raw (n, y, x) block of the file"""
    with mrcfile.open(path, permissive=True) as m:
        return np.array(m.data, copy=True)


def write_mrc(path, nyx):
    with mrcfile.new(path, overwrite=True) as m:
        m.set_data(np.ascontiguousarray(nyx))


def make_stack(rng, n, h, w, dtype):
    if dtype == np.float32:
        s = rng.normal(0, 50, size=(n, h, w)).astype(np.float32)
        s[0, 0, 0] = 0.0
        s[-1, -1, -1] = -0.0
    else:
        s = rng.integers(-3000, 3000, size=(n, h, w)).astype(np.int16)
        s[0, 0, 0] = 0
    # make every pixel position recognisable: no two rows / columns / tilts equal
    return s


def as_input(nyx, input_order, as_file, tag, label):
    """the stack in the requested form; for a file the input_order is irrelevant (files are always n,y,x)"""
    if as_file:
        p = os.path.join(TMP, f"in_{tag}_{label}.mrc")
        write_mrc(p, nyx)
        return p
    if input_order == "xyz":  # sometimes a transposed view, sometimes a contiguous x,y,n array
        return np.ascontiguousarray(nyx.transpose(2, 1, 0)) if sum(map(ord, tag)) % 2 else nyx.transpose(2, 1, 0)
    return nyx.copy()


def expect_out(ref_nyx, output_order):
    return ref_nyx.transpose(2, 1, 0) if output_order == "xyz" else ref_nyx


def run_both(name, nyx, ref_nyx, kwargs_fn, tag, multi=False, file_names=None, tol=None):
    """Runs NEW.<name> and ORIG.<name> over input_order x output_order x array/file x output file on/off and checks
    (1) the returned array equals the independent reference, (2) the written file holds it, (3) new == original,
    (4) the input object is untouched, (5) a repeated call gives the same result."""
    dtype = nyx.dtype
    for io_, oo, as_file, to_file in itertools.product(ORDERS, ORDERS, (False, True), (False, True)):
        cfg = f"{name}[{tag}] in={io_} out={oo} file_in={as_file} file_out={to_file} shape={nyx.shape} {dtype}"
        res = {}
        for label, mod in (("new", NEW), ("orig", O)):
            inp = as_input(nyx, io_, as_file, tag, label)
            inp_before = inp.copy() if isinstance(inp, np.ndarray) else read_mrc(inp)
            outp = os.path.join(TMP, f"out_{tag}_{label}") if to_file else None
            kw = kwargs_fn(outp)
            try:
                r = quiet(getattr(mod, name), inp, input_order=io_, output_order=oo, **kw)
                r2 = quiet(getattr(mod, name), inp, input_order=io_, output_order=oo, **kw)  # repeated call
            except Exception as e:  # noqa
                check(False, f"{cfg}: {label} raised {type(e).__name__}: {e}")
                res[label] = None
                continue
            inp_after = inp if isinstance(inp, np.ndarray) else read_mrc(inp)
            check(same(inp_before, inp_after), f"{cfg}: {label} changed its input")
            rs = r if multi else (r,)
            r2s = r2 if multi else (r2,)
            check(all(same(x, y) for x, y in zip(rs, r2s)), f"{cfg}: {label} second call differs")
            files = None
            if to_file:
                files = [read_mrc(f) for f in file_names(outp)]
            res[label] = (rs, files)
        if res.get("new") is None or res.get("orig") is None:
            continue
        refs = ref_nyx if multi else (ref_nyx,)
        for label in ("new", "orig"):
            rs, files = res[label]
            check(len(rs) == len(refs), f"{cfg}: {label} number of results")
            for k, (got, ref) in enumerate(zip(rs, refs)):
                exp = expect_out(ref, oo)
                if tol is None:
                    ok = same(got, exp)
                else:
                    ok = got.shape == exp.shape and got.dtype == exp.dtype and np.allclose(got, exp, rtol=tol, atol=tol)
                check(ok, f"{cfg}: {label} result {k} is not the reference")
                if files is not None:
                    f = files[k]
                    if tol is None:
                        okf = same(f, ref)
                    else:
                        okf = f.shape == ref.shape and f.dtype == ref.dtype and np.allclose(f, ref, rtol=tol, atol=tol)
                    check(okf, f"{cfg}: {label} written file {k} is not the reference")
        # patched == original, bit for bit
        (rn, fn_), (ro, fo) = res["new"], res["orig"]
        check(all(same(x, y) for x, y in zip(rn, ro)), f"{cfg}: new result != original result")
        check(all(x.flags.c_contiguous == y.flags.c_contiguous and x.flags.writeable == y.flags.writeable
                  for x, y in zip(rn, ro)), f"{cfg}: new result flags != original result flags")
        if fn_ is not None:
            check(all(same(x, y) for x, y in zip(fn_, fo)), f"{cfg}: new file != original file")


def ref_block_mean(nyx, b):
    """block means with zero padding at the far edge (what local-mean downscaling does), by plain loops"""
    n, h, w = nyx.shape
    H, W = -(-h // b), -(-w // b)
    pad = np.zeros((n, H * b, W * b), dtype=np.float64)
    pad[:, :h, :w] = nyx
    out = np.zeros((n, H, W), dtype=np.float64)
    for i in range(H):
        for j in range(W):
            out[:, i, j] = pad[:, i * b:(i + 1) * b, j * b:(j + 1) * b].reshape(n, -1).sum(axis=1) / (b * b)
    return out


def one_stack(rng, n, h, w, dtype, tag):
    S = make_stack(rng, n, h, w, dtype)

    # ---- sort by tilt angle -------------------------------------------------------------------------------------
    kind = rng.integers(0, 4)
    if kind == 0:
        ang = rng.permutation(np.arange(n) * 3.0 - 60.0)  # float, negative values and maybe zero
    elif kind == 1:
        ang = rng.permutation(np.arange(n) - n // 2).astype(int)  # integers with zero
    elif kind == 2:
        ang = np.arange(n)[::-1] * 2.5  # descending
    else:
        ang = np.sort(rng.permutation(np.arange(-60, 61))[:n]).astype(float)  # already sorted
    order = [i for _, i in sorted(zip(list(ang), range(n)))]
    ref = np.stack([S[i] for i in order], axis=0)
    forms = [ang, list(ang)]
    tlt = os.path.join(TMP, f"angles_{tag}.tlt")
    with open(tlt, "w") as f:
        f.write("\n".join(repr(float(a)) for a in ang) + "\n")
    forms.append(tlt)
    a_in = forms[int(rng.integers(0, 3))]
    a_keep = a_in.copy() if isinstance(a_in, np.ndarray) else (list(a_in) if isinstance(a_in, list) else a_in)
    run_both("sort_tilts_by_angle", S, ref, lambda o: dict(input_tilts=a_in, output_file=(o + ".mrc") if o else None),
             tag + "s", file_names=lambda o: [o + ".mrc"])
    if not isinstance(a_in, str):
        check(type(a_keep) is type(a_in) and np.array_equal(np.asarray(a_keep), np.asarray(a_in)),
              f"sort[{tag}]: the angles were changed")

    # ---- remove tilts -------------------------------------------------------------------------------------------
    subsets = [[0], [n - 1], sorted(rng.permutation(n)[: int(rng.integers(1, n))].tolist())]
    if n > 2:
        subsets.append([0, n - 1])
        subsets.append(rng.permutation(n)[: n - 1].tolist())  # unsorted, all but one
    for si, sub in enumerate(subsets):
        keep = [i for i in range(n) if i not in set(sub)]
        ref = np.stack([S[i] for i in keep], axis=0)
        for from1 in (True, False):
            idx = [i + 1 for i in sub] if from1 else list(sub)
            idx_in = np.array(idx) if (si + from1) % 2 else idx
            idx_keep = list(idx)
            run_both("remove_tilts", S, ref,
                     lambda o: dict(idx_to_remove=idx_in, numbered_from_1=from1, output_file=(o + ".mrc") if o else None),
                     f"{tag}r{si}{int(from1)}", file_names=lambda o: [o + ".mrc"])
            check(list(idx_in) == idx_keep, f"remove[{tag}]: the index list was changed")

    # ---- even / odd ---------------------------------------------------------------------------------------------
    ev = np.stack([S[i] for i in range(n) if i % 2 == 0], axis=0)
    od = np.stack([S[i] for i in range(n) if i % 2 == 1], axis=0)
    inter = np.empty_like(S)
    inter[0::2] = ev
    inter[1::2] = od
    check(same(inter, S), "reference interleave")
    run_both("split_stack_even_odd", S, (ev, od), lambda o: dict(output_file_prefix=o), tag + "e", multi=True,
             file_names=lambda o: [o + "_even.mrc", o + "_odd.mrc"])
    # interleaving what the function returns gives the input back (array in, zyx out)
    e2, o2 = quiet(NEW.split_stack_even_odd, S.transpose(2, 1, 0), input_order="xyz", output_order="zyx")
    back = np.empty_like(S)
    back[0::2] = e2
    back[1::2] = o2
    check(same(back, S), f"split[{tag}]: interleaving does not give the input back")

    # ---- flips ---------------------------------------------------------------------------------------------------
    # IMOD convention: flipx mirrors about the x axis (rows reversed), flipy about the y axis (columns reversed)
    refs = {"x": S[:, ::-1, :], "y": S[:, :, ::-1], "z": S[::-1, :, :]}
    for ax in ("x", "y", "z"):
        run_both("flip_along_axes", S, np.ascontiguousarray(refs[ax]), lambda o: dict(axes=ax, output_file=(o + ".mrc") if o else None),
                 tag + "f" + ax, file_names=lambda o: [o + ".mrc"])
        run_both("flip_along_axes", S, S, lambda o: dict(axes=[ax, ax], output_file=(o + ".mrc") if o else None),
                 tag + "ff" + ax, file_names=lambda o: [o + ".mrc"])
        for io_, oo in itertools.product(ORDERS, ORDERS):
            inp = S.transpose(2, 1, 0) if io_ == "xyz" else S
            once = quiet(NEW.flip_along_axes, inp, ax, input_order=io_, output_order=io_)
            twice = quiet(NEW.flip_along_axes, once, [ax], input_order=io_, output_order=oo)
            check(same(twice, expect_out(S, oo)), f"flip[{tag}] {ax} twice in={io_} out={oo} is not the identity")
    run_both("flip_along_axes", S, np.ascontiguousarray(S[::-1, ::-1, ::-1]),
             lambda o: dict(axes=["x", "z", "y"], output_file=(o + ".mrc") if o else None), tag + "fxyz",
             file_names=lambda o: [o + ".mrc"])

    # ---- centred crop ---------------------------------------------------------------------------------------------
    crops = [(w, h), (1, 1), (int(rng.integers(1, w + 1)), int(rng.integers(1, h + 1))), (None, int(rng.integers(1, h + 1))),
             (int(rng.integers(1, w + 1)), None), (w - 1, h - 1)]
    for ci, (nw, nh) in enumerate(crops):
        ew, eh = (w if nw is None else nw), (h if nh is None else nh)
        x0 = w // 2 - ew // 2
        y0 = h // 2 - eh // 2
        ref = S[:, y0:y0 + eh, x0:x0 + ew]
        check(ref.shape == (n, eh, ew), "reference crop shape")
        run_both("crop", S, np.ascontiguousarray(ref),
                 lambda o: dict(new_width=nw, new_height=nh, output_file=(o + ".mrc") if o else None), f"{tag}c{ci}",
                 file_names=lambda o: [o + ".mrc"])

    # ---- binning ---------------------------------------------------------------------------------------------------
    for b in (1, 2, 3, int(rng.integers(2, 6))):
        m = ref_block_mean(S, b)
        ref = m.astype(dtype)
        run_both("bin", S, ref, lambda o: dict(binning_factor=b, output_file=(o + ".mrc") if o else None), f"{tag}b{b}",
                 file_names=lambda o: [o + ".mrc"], tol=(1e-4 if dtype == np.float32 else None))


def main(extra=None):
    rng = np.random.default_rng(20240915)
    shapes = [(2, 4, 5), (2, 40, 4), (3, 5, 4), (25, 4, 7), (25, 40, 39), (7, 9, 12), (8, 12, 9), (3, 33, 40), (2, 7, 6)]
    for _ in range(9):
        n = int(rng.integers(2, 26))
        h = int(rng.integers(4, 41))
        w = int(rng.integers(4, 41))
        if h == w:
            w = w + 1 if w < 40 else w - 1
        shapes.append((n, h, w))
    for k, (n, h, w) in enumerate(shapes):
        dtype = (np.float32, np.int16)[k % 2]
        one_stack(rng, n, h, w, dtype, f"{k}")
        if k < 2:  # both dtypes on the smallest shapes
            one_stack(rng, n, h, w, (np.int16, np.float32)[k % 2], f"{k}d")
    if extra is not None:
        extra(rng)
    shutil.rmtree(TMP, ignore_errors=True)
    print(f"{N_CHECKS[0]} checks, {len(FAIL)} failures")
    if FAIL:
        print("FAIL")
        sys.exit(1)
    print("PASS")
    sys.exit(0)


def extra(rng):
    """the guard kept its point: a single tilt still raises the same ValueError, as array (both orders) and as file"""
    one = rng.normal(size=(1, 5, 6)).astype(np.float32)
    for io_, inp in (("zyx", one), ("xyz", one.transpose(2, 1, 0))):
        msgs = []
        for mod in (NEW, O):
            try:
                quiet(mod.split_stack_even_odd, inp, input_order=io_)
                msgs.append(None)
            except Exception as e:  # noqa
                msgs.append((type(e).__name__, str(e)))
        check(msgs[0] == msgs[1] == ("ValueError", "Stack contains only 1 tilt."), f"single tilt {io_}: {msgs}")
    # two and three tilts: the smallest even and odd stacks, views handed in, results are fresh arrays
    for n in (2, 3):
        S = rng.integers(-9, 9, size=(n, 4, 6)).astype(np.int16)
        for mod in (NEW, O):
            e, o = quiet(mod.split_stack_even_odd, S, input_order="zyx", output_order="zyx")
            check(same(e, S[0::2]) and same(o, S[1::2]), f"n={n} small split")
            check(not np.shares_memory(e, S) and not np.shares_memory(o, S), f"n={n} result aliases the input")
            check(e.flags.c_contiguous and o.flags.c_contiguous and e.flags.owndata and o.flags.owndata, f"n={n} flags")


main(extra)
