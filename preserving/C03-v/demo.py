#!/venv/bin/python
"""C03 / change a -- prepare_particles_data builds the subtomogram names in ONE row pass ($yyy first, $xxx on the result).

The demo
  1. checks the property (RELION <-> cryoCAT conversion keeps pose and identity) against an independent computation
     (hand-written rotation matrices, hand-written name formatting, own STAR writer / parser),
  2. compares the current RelionMotl.prepare_particles_data with the ORIGINAL function text (kept below) on the same inputs,
  3. checks that the caller's tables are left untouched and that repeated calls give the same answer.
Run:  cd /tmp/wt13/C03 && /venv/bin/python /tmp/seedsW/C03/a/demo.py
"""
import sys, os

sys.path.insert(0, os.getcwd())
import re, tempfile, warnings, textwrap

warnings.filterwarnings("ignore")
import numpy as np
import pandas as pd
from cryocat import cryomotl
from cryocat.cryomotl import RelionMotl, Motl

FAILS = []
COUNT = {"export": 0, "import": 0, "roundtrip": 0, "orig_vs_now": 0, "orig_vs_now_both_raise": 0}


def check(cond, msg):
    if not cond:
        FAILS.append(msg)
        if len(FAILS) < 25:
            print("FAIL:", msg)


# ------------------------------------------------------------------ independent pieces
def Rz(a):
    a = np.deg2rad(a)
    return np.array([[np.cos(a), -np.sin(a), 0.0], [np.sin(a), np.cos(a), 0.0], [0.0, 0.0, 1.0]])


def Rx(a):
    a = np.deg2rad(a)
    return np.array([[1.0, 0.0, 0.0], [0.0, np.cos(a), -np.sin(a)], [0.0, np.sin(a), np.cos(a)]])


def Ry(a):
    a = np.deg2rad(a)
    return np.array([[np.cos(a), 0.0, np.sin(a)], [0.0, 1.0, 0.0], [-np.sin(a), 0.0, np.cos(a)]])


def cryocat_matrix(phi, theta, psi):
    # extrinsic zxz(phi, theta, psi): first about z by phi, then about x by theta, then about z by psi
    return Rz(psi) @ Rx(theta) @ Rz(phi)


def relion_matrix(rot, tilt, psi):
    # intrinsic ZYZ(rot, tilt, psi)
    return Rz(rot) @ Ry(tilt) @ Rz(psi)


def inverse_pose_ok(motl_angles, rln_angles, tol=2e-5):
    """motl_angles: n x 3 (phi, theta, psi); rln_angles: n x 3 (rot, tilt, psi)"""
    worst = 0.0
    for (phi, theta, psi), (rot, tilt, rpsi) in zip(motl_angles, rln_angles):
        d = relion_matrix(rot, tilt, rpsi) @ cryocat_matrix(phi, theta, psi) - np.eye(3)
        worst = max(worst, np.abs(d).max())
    return worst <= tol, worst


def same_rotation_ok(a1, a2, tol=5e-5):
    worst = 0.0
    for p, q in zip(a1, a2):
        worst = max(worst, np.abs(cryocat_matrix(*p) - cryocat_matrix(*q)).max())
    return worst <= tol, worst


def indep_name(fmt, letter, value):
    """replace every longest run '$' + letter... by the zero padded number, shorter runs stay"""
    runs = re.findall(r"\$" + letter + "+", fmt)
    longest = max(len(r) for r in runs)
    out, i = [], 0
    while i < len(fmt):
        m = re.match(r"\$" + letter + "+", fmt[i:])
        if m and len(m.group()) == longest:
            out.append("%0*d" % (longest - 1, int(value)))
            i += longest
        elif m:
            out.append(m.group())
            i += len(m.group())
        else:
            out.append(fmt[i])
            i += 1
    return "".join(out)


def indep_subtomo_name(fmt, tomo, subtomo):
    s = indep_name(fmt, "y", subtomo)
    if re.search(r"\$x+", s):
        s = indep_name(s, "x", tomo)
    return s


def write_star(path, blocks):
    """own writer: blocks = [(specifier, DataFrame)]"""
    with open(path, "w") as f:
        for spec, df in blocks:
            f.write("\n%s\n\nloop_\n" % spec)
            for i, c in enumerate(df.columns):
                f.write("_%s #%d\n" % (c, i + 1))
            for row in df.itertuples(index=False):
                f.write("\t".join(v if isinstance(v, str) else repr(float(v)) if isinstance(v, float) else str(v) for v in row))
                f.write("\n")
            f.write("\n")


def parse_star(path):
    """own parser: {specifier: DataFrame of strings}"""
    blocks, spec, cols, rows = {}, None, [], []
    for line in open(path):
        t = line.strip()
        if not t or t.startswith("#"):
            continue
        if t.startswith("data_"):
            if spec is not None:
                blocks[spec] = pd.DataFrame(rows, columns=cols)
            spec, cols, rows = t, [], []
        elif t == "loop_":
            continue
        elif t.startswith("_"):
            cols.append(t.split()[0][1:])
        else:
            rows.append(t.split())
    if spec is not None:
        blocks[spec] = pd.DataFrame(rows, columns=cols)
    return blocks


# ------------------------------------------------------------------ inputs
def random_motl(rng, n, kind):
    d = pd.DataFrame(0.0, index=range(n), columns=Motl.create_empty_motl_df().columns)
    d[["x", "y", "z"]] = np.round(rng.uniform(-500, 2000, (n, 3)))
    d[["shift_x", "shift_y", "shift_z"]] = rng.uniform(-8, 8, (n, 3))
    ang = np.column_stack([rng.uniform(-540, 540, n), rng.uniform(-270, 270, n), rng.uniform(-540, 540, n)])
    if kind == "gimbal":
        ang[:, 1] = rng.choice([0.0, 180.0, -180.0, 360.0], n)
    elif kind == "mixed":
        k = rng.random(n) < 0.3
        ang[k, 1] = rng.choice([0.0, 180.0], k.sum())
        ang[rng.random(n) < 0.1] = 0.0
    d[["phi", "theta", "psi"]] = ang
    # several tomograms of different sizes, numbers not contiguous
    tomos = np.sort(rng.choice([1, 2, 3, 17, 45, 120, 999], n))
    d["tomo_id"] = tomos.astype(float)
    sub = np.sort(rng.choice(np.arange(1, 4 * n + 5), n, replace=False))
    d["subtomo_id"] = sub.astype(float)
    d["class"] = rng.integers(1, 6, n).astype(float)
    d["score"] = rng.random(n)
    d["object_id"] = rng.integers(1, 9, n).astype(float)
    return d


FORMATS = {
    3.0: [("/data/tomo/$xxxx.rec", "/sub/$xxxx/$xxxx_$yyyyyy_3.4A.mrc"), ("$xxx_bin.mrc", "/s/t$xxx_$yyyy_1A.mrc"),
          ("/t/$xxxx/$xxxx_$xx.rec", "/s/$xx/$xxxx_$yy_$yyyyy_2A.mrc")],
    3.1: [("/data/tomo/$xxxx.rec", "/sub/$xxxx/$xxxx_$yyyyyy_3.4A.mrc"), ("tomo$x.mrc", "/s/tomo$xxx_$y_1A.mrc"),
          ("/t/$xxxxx.rec", "/s/nox/$xxxxx_$yyy_8A.mrc")],
    4.0: [("TS_$xxx", "TS_$xxx/$yyyy"), ("$xxxxx", "$xx/$y"), ("TS_$xx_$xxxx", "TS_$xxxx_$xx/$yyyyy")],
}


def split_names(v, tomo_name, sub_name):
    """independent reading of the numbers back out of the generated names (formats above)"""
    if v >= 4.0:
        return int(re.findall(r"\d+", tomo_name)[0]), int(sub_name.rsplit("/", 1)[1])
    last = sub_name.rsplit("/", 1)[1]
    return int(re.findall(r"\d+", tomo_name.rsplit("/", 1)[-1])[0]), int(re.findall(r"\d+", last)[1])


# ------------------------------------------------------------------ 1. property: export
def check_export(d, v, ps, tf, sf, tag):
    before = d.copy(deep=True)
    m = RelionMotl(d, version=v, pixel_size=ps, binning=1.0)
    mdf_before = m.df.copy(deep=True)
    r1 = m.create_relion_df(tomo_format=tf, subtomo_format=sf)
    r2 = m.create_relion_df(tomo_format=tf, subtomo_format=sf)  # repeated call on the same object
    COUNT["export"] += 1
    check(r1.equals(r2), f"{tag}: repeated create_relion_df differs")
    pd.testing.assert_frame_equal(d, before)
    pd.testing.assert_frame_equal(m.df, mdf_before)
    names = RelionMotl.get_version_specific_names(v)
    full = d[["x", "y", "z"]].to_numpy() + d[["shift_x", "shift_y", "shift_z"]].to_numpy()
    check(np.allclose(r1[["rlnCoordinateX", "rlnCoordinateY", "rlnCoordinateZ"]].to_numpy(float), full, atol=1e-9), f"{tag}: coordinates")
    check(np.all(r1[names[2]].to_numpy(float) == 0.0), f"{tag}: origin not zero")
    ok, worst = inverse_pose_ok(d[["phi", "theta", "psi"]].to_numpy(), r1[["rlnAngleRot", "rlnAngleTilt", "rlnAnglePsi"]].to_numpy(float))
    check(ok, f"{tag}: exported rotation is not the inverse ({worst:.2e})")
    check(np.array_equal(r1["rlnClassNumber"].to_numpy(float), d["class"].to_numpy()), f"{tag}: class")
    exp_t = [indep_name(tf, "x", t) for t in d["tomo_id"]]
    exp_s = [indep_subtomo_name(sf, t, s) for t, s in zip(d["tomo_id"], d["subtomo_id"])]
    check(list(r1[names[0]]) == exp_t, f"{tag}: tomo names")
    check(list(r1[names[1]]) == exp_s, f"{tag}: subtomo names {list(r1[names[1]])[:3]} vs {exp_s[:3]}")
    back = [split_names(v, a, b) for a, b in zip(r1[names[0]], r1[names[1]])]
    check([b[0] for b in back] == list(d["tomo_id"].astype(int)), f"{tag}: tomo number lost in names")
    check([b[1] for b in back] == list(d["subtomo_id"].astype(int)), f"{tag}: subtomo number lost in names")
    half = np.where(d["subtomo_id"].to_numpy() % 2 == 1, 1, 2)
    check(np.array_equal(r1["rlnRandomSubset"].to_numpy(float), half), f"{tag}: half sets")
    if v < 4.0:
        check(np.all(r1["rlnPixelSize"].to_numpy(float) == ps), f"{tag}: pixel size")
    check("tomo_id" not in r1.columns and "subtomo_id" not in r1.columns, f"{tag}: helper columns left")
    return m, r1


# ------------------------------------------------------------------ 2. property: import from an independent writer
def indep_relion(rng, d, v, ps, with_half=True):
    """RELION table for the particles of d written WITHOUT cryocat: coordinate = position, origin in px (3.0) / A (>= 3.1)"""
    n = d.shape[0]
    pose_inv = []
    for phi, theta, psi in d[["phi", "theta", "psi"]].to_numpy():
        # inverse of Rz(psi)Rx(theta)Rz(phi) = Rz(-phi)Rx(-theta)Rz(-psi) = Rz(-phi) [Rz(90) Ry(-theta) ... ] -> use ZYZ identity
        # Rx(t) = Rz(-90) Ry(t) Rz(90)   (rotation axis x = Rz(-90) applied to axis y)
        pose_inv.append((-phi - 90.0, -theta, -psi + 90.0))
    pose_inv = np.array(pose_inv)
    for (phi, theta, psi), (a, b, c) in zip(d[["phi", "theta", "psi"]].to_numpy()[:3], pose_inv[:3]):
        assert np.abs(relion_matrix(a, b, c) @ cryocat_matrix(phi, theta, psi) - np.eye(3)).max() < 1e-9
    origin = rng.uniform(-6, 6, (n, 3)) * (ps if v >= 3.1 else 1.0)
    r = pd.DataFrame()
    tomo, sub = d["tomo_id"].astype(int), d["subtomo_id"].astype(int)
    if v < 4.0:
        r["rlnMicrographName"] = ["/somewhere/tomo/%04d_%.1fA.rec" % (t, ps) for t in tomo]
    r["rlnCoordinateX"], r["rlnCoordinateY"], r["rlnCoordinateZ"] = d["x"].to_numpy(), d["y"].to_numpy(), d["z"].to_numpy()
    r["rlnAngleRot"], r["rlnAngleTilt"], r["rlnAnglePsi"] = pose_inv[:, 0], pose_inv[:, 1], pose_inv[:, 2]
    if v < 4.0:
        r["rlnImageName"] = ["/somewhere/sub/%04d/%04d_%07d_%.1fA.mrc" % (t, t, s, ps) for t, s in zip(tomo, sub)]
        r["rlnPixelSize"] = ps
    else:
        r["rlnTomoName"] = ["TS_%03d" % t for t in tomo]
        r["rlnTomoParticleName"] = ["TS_%03d/%d" % (t, s) for t, s in zip(tomo, sub)]
    if with_half:
        r["rlnRandomSubset"] = rng.integers(1, 3, n)
    sh = ["rlnOriginX", "rlnOriginY", "rlnOriginZ"] if v < 3.1 else ["rlnOriginXAngst", "rlnOriginYAngst", "rlnOriginZAngst"]
    for k, c in enumerate(sh):
        r[c] = origin[:, k]
    r["rlnClassNumber"] = d["class"].astype(int).to_numpy()
    return r, origin


def check_import_df(mdf, d, r, origin, v, ps, tag, tol=1e-9):
    COUNT["import"] += 1
    check(mdf.shape[0] == d.shape[0], f"{tag}: row count")
    check(np.allclose(mdf[["x", "y", "z"]].to_numpy(float), d[["x", "y", "z"]].to_numpy(), atol=tol), f"{tag}: x,y,z != rlnCoordinate")
    exp_shift = -origin / (ps if v >= 3.1 else 1.0)
    check(np.allclose(mdf[["shift_x", "shift_y", "shift_z"]].to_numpy(float), exp_shift, atol=max(tol, 1e-9)), f"{tag}: shifts")
    ok, worst = inverse_pose_ok(mdf[["phi", "theta", "psi"]].to_numpy(float), r[["rlnAngleRot", "rlnAngleTilt", "rlnAnglePsi"]].to_numpy(float))
    check(ok, f"{tag}: imported rotation is not the inverse ({worst:.2e})")
    ok, worst = same_rotation_ok(mdf[["phi", "theta", "psi"]].to_numpy(float), d[["phi", "theta", "psi"]].to_numpy())
    check(ok, f"{tag}: imported pose differs from the particle's pose ({worst:.2e})")
    check(np.array_equal(mdf["tomo_id"].to_numpy(float), d["tomo_id"].to_numpy()), f"{tag}: tomo_id")
    check(np.array_equal(mdf["class"].to_numpy(float), d["class"].to_numpy()), f"{tag}: class")
    check(np.array_equal(mdf["geom3"].to_numpy(float), d["subtomo_id"].to_numpy()), f"{tag}: subtomo number (geom3)")
    sid = mdf["subtomo_id"].to_numpy(float)
    if "rlnRandomSubset" in r.columns and r["rlnRandomSubset"].nunique() == 2:
        h = r["rlnRandomSubset"].to_numpy()
        check(np.array_equal(sid % 2, h % 2), f"{tag}: half-set 1/2 <-> odd/even")
        check(np.all(np.diff(sid) > 0) and len(set(sid)) == len(sid), f"{tag}: renumbered ids not increasing / unique")
        # closed form: start at 1 or 2, step 1 when the half set flips, 2 when it stays
        c0 = 1 if h[0] % 2 == 1 else 2
        exp = c0 + np.concatenate([[0], np.cumsum(1 + (h[1:] == h[:-1]))])
        check(np.array_equal(sid, exp), f"{tag}: renumbered ids {sid[:6]} vs {exp[:6]}")
    else:
        check(np.array_equal(sid, d["subtomo_id"].to_numpy()), f"{tag}: subtomo_id")


def check_import(rng, d, v, ps, tag, tmp):
    for with_half in (True, False):
        r, origin = indep_relion(rng, d, v, ps, with_half)
        r_before = r.copy(deep=True)
        m = RelionMotl(r, version=v, pixel_size=ps)
        pd.testing.assert_frame_equal(r, r_before)
        check_import_df(m.df, d, r, origin, v, ps, f"{tag} import(df, half={with_half})")
        m2 = RelionMotl(r, version=v, pixel_size=ps)
        check(m.df.equals(m2.df), f"{tag}: second import of the same table differs")
        # through a STAR file written by the independent writer
        path = os.path.join(tmp, "in.star")
        if v >= 3.1:
            optics = pd.DataFrame({"rlnOpticsGroup": [1], "rlnOpticsGroupName": ["og1"], "rlnImagePixelSize": [ps]})
            rr = r.copy()
            rr["rlnOpticsGroup"] = 1
            if v == 3.1 and with_half:
                rr = rr.drop(columns=["rlnPixelSize"])  # pixel size only in the optics block
            write_star(path, [("data_optics", optics), ("data_particles", rr)])
        else:
            write_star(path, [("data_", r)])
        mf = RelionMotl(path)
        check(mf.version == v, f"{tag}: version from file {mf.version}")
        check_import_df(mf.df, d, r, origin, v, ps, f"{tag} import(file, half={with_half})", tol=1e-9)


# ------------------------------------------------------------------ 3. property: export -> import
def check_roundtrip(d, m, r, v, ps, tf, sf, tag, tmp):
    COUNT["roundtrip"] += 1
    full = d[["x", "y", "z"]].to_numpy() + d[["shift_x", "shift_y", "shift_z"]].to_numpy()

    def same_particles(mdf, tol, what):
        pos = mdf[["x", "y", "z"]].to_numpy(float) + mdf[["shift_x", "shift_y", "shift_z"]].to_numpy(float)
        check(np.allclose(pos, full, atol=tol), f"{tag} {what}: position")
        ok, worst = same_rotation_ok(mdf[["phi", "theta", "psi"]].to_numpy(float), d[["phi", "theta", "psi"]].to_numpy())
        check(ok, f"{tag} {what}: orientation ({worst:.2e})")
        check(np.array_equal(mdf["tomo_id"].to_numpy(float), d["tomo_id"].to_numpy()), f"{tag} {what}: tomo_id")
        check(np.array_equal(mdf["class"].to_numpy(float), d["class"].to_numpy()), f"{tag} {what}: class")
        check(np.array_equal(mdf["geom3"].to_numpy(float), d["subtomo_id"].to_numpy()), f"{tag} {what}: geom3")
        check(np.array_equal(mdf["subtomo_id"].to_numpy(float) % 2, d["subtomo_id"].to_numpy() % 2), f"{tag} {what}: half-set parity")

    same_particles(RelionMotl(r, version=v, pixel_size=ps).df, 1e-9, "memory")
    for optics in ((False, True) if v >= 3.1 else (False,)):
        path = os.path.join(tmp, "out.star")
        m.write_out(path, write_optics=optics, tomo_format=tf, subtomo_format=sf)
        blocks = parse_star(path)
        spec = "data_" if v < 3.1 else "data_particles"
        check(spec in blocks and (("data_optics" in blocks) == optics), f"{tag}: blocks {list(blocks)}")
        p = blocks[spec]
        check(list(p.columns) == list(r.columns), f"{tag}: columns in file")
        for c in r.columns:
            if r[c].dtype == object or isinstance(r[c].iloc[0], str):
                check(list(p[c]) == list(r[c]), f"{tag}: column {c} in file")
            else:
                check(np.allclose(p[c].astype(float).to_numpy(), r[c].to_numpy(float), atol=1e-6), f"{tag}: column {c} in file")
        back = RelionMotl(path) if (optics or v < 4.0) else RelionMotl(path, pixel_size=ps)
        check(back.version == v, f"{tag}: version read back {back.version}")
        same_particles(back.df, 2e-6, f"file(optics={optics})")


# ------------------------------------------------------------------ 4. current function against the original text
ORIGINAL = r'''
def prepare_particles_data(self, tomo_format="", subtomo_format="", version=None, pixel_size=None):
    def find_longest_sequence(test_string, test_letter, raise_error=True):
        pattern = f"\$(?:{test_letter})+"
        findings = sorted(re.findall(pattern, test_string), key=len)
        if not findings:
            if raise_error:
                raise ValueError(
                    f"The format {test_string} does not contain any sequence of \$ followed by {test_letter}."
                )
            else:
                return None, 0
        else:
            longest_sequence = findings[-1]
            return longest_sequence, len(longest_sequence) - 1

    if version is None:
        version = self.version

    if pixel_size is None:
        pixel_size = self.pixel_size

    tomo_name, subtomo_name, shifts_name, _ = RelionMotl.get_version_specific_names(version)
    relion_df = self.create_particles_data(version)

    if tomo_format == "":
        relion_df[tomo_name] = self.df["tomo_id"].values.astype(int)
    else:
        tomo_sequence, tomo_digits = find_longest_sequence(tomo_format, "x")
        # add temporarily tomo_id
        relion_df["tomo_id"] = self.df["tomo_id"].values

        relion_df[tomo_name] = tomo_format
        relion_df[tomo_name] = relion_df.apply(
            lambda row: row[tomo_name].replace(tomo_sequence, str(int(row["tomo_id"])).zfill(tomo_digits)), axis=1
        )

        # drop the column
        relion_df = relion_df.drop(["tomo_id"], axis=1)

    if subtomo_format == "":
        relion_df[subtomo_name] = self.df["subtomo_id"].values.astype(int)
    else:
        subtomo_sequence, subtomo_digits = find_longest_sequence(subtomo_format, "y")
        subtomo_t_sequence, subtomo_t_digits = find_longest_sequence(subtomo_format, "x", raise_error=False)

        # add temporarily tomo_id and subtomo_id
        relion_df["tomo_id"] = self.df["tomo_id"].values
        relion_df["subtomo_id"] = self.df["subtomo_id"].values

        relion_df[subtomo_name] = subtomo_format
        relion_df[subtomo_name] = relion_df.apply(
            lambda row: row[subtomo_name].replace(
                subtomo_sequence, str(int(row["subtomo_id"])).zfill(subtomo_digits)
            ),
            axis=1,
        )

        if subtomo_t_sequence is not None:
            relion_df[subtomo_name] = relion_df.apply(
                lambda row: row[subtomo_name].replace(
                    subtomo_t_sequence, str(int(row["tomo_id"])).zfill(subtomo_t_digits)
                ),
                axis=1,
            )

        # drop the columns
        relion_df = relion_df.drop(["tomo_id", "subtomo_id"], axis=1)

    relion_df.loc[:, shifts_name] = np.zeros((relion_df.shape[0], 3))

    if version < 4.0:
        relion_df["rlnPixelSize"] = pixel_size

    return relion_df
'''
_ns = dict(vars(cryomotl))
exec(compile(textwrap.dedent(ORIGINAL), "<original prepare_particles_data>", "exec"), _ns)
original_prepare = _ns["prepare_particles_data"]


def outcome(fn, *a, **k):
    try:
        return ("ok", fn(*a, **k))
    except Exception as e:  # noqa
        return ("exc", type(e).__name__)


def check_against_original(d, v, ps, tf, sf, tag):
    COUNT["orig_vs_now"] += 1
    m = RelionMotl(d, version=v, pixel_size=ps, binning=1.0)
    snap = m.df.copy(deep=True)
    for kw in (dict(tomo_format=tf, subtomo_format=sf), dict(tomo_format="", subtomo_format=sf), dict(tomo_format=tf, subtomo_format=""),
               dict(), dict(tomo_format=tf, subtomo_format=sf, version=3.0 if v != 3.0 else 4.0, pixel_size=ps * 2)):
        new = outcome(m.prepare_particles_data, **kw)
        old = outcome(original_prepare, m, **kw)
        again = outcome(m.prepare_particles_data, **kw)
        check(new[0] == old[0] == again[0], f"{tag} {kw}: outcome kinds {new[0]} / {old[0]}")
        if new[0] == "ok" and old[0] == "ok":
            try:
                pd.testing.assert_frame_equal(new[1], old[1], check_exact=True)
                pd.testing.assert_frame_equal(new[1], again[1], check_exact=True)
            except AssertionError as e:
                check(False, f"{tag} {kw}: tables differ from the original: {str(e)[:200]}")
        elif new[0] == "exc":
            COUNT["orig_vs_now_both_raise"] += 1
            check(new[1] == old[1], f"{tag} {kw}: exception {new[1]} vs {old[1]}")
        pd.testing.assert_frame_equal(m.df, snap)


def main():
    rng = np.random.default_rng(20250928)
    with tempfile.TemporaryDirectory() as tmp:
        sizes = [1, 2, 3, 5, 8, 21, 64, 300]
        for v in (3.0, 3.1, 4.0):
            for k, n in enumerate(sizes):
                for kind in ("random", "gimbal", "mixed"):
                    if n > 64 and kind != "mixed":
                        continue
                    ps = float(rng.choice([0.5, 1.0, 1.7, 2.5, 3.42, 13.3]))
                    tf, sf = FORMATS[v][(k + len(kind)) % 3]
                    d = random_motl(rng, n, kind)
                    tag = f"v{v} n={n} {kind} ps={ps}"
                    m, r = check_export(d, v, ps, tf, sf, tag)
                    check_roundtrip(d, m, r, v, ps, tf, sf, tag, tmp)
                    check_import(rng, d, v, ps, tag, tmp)
                    check_against_original(d, v, ps, tf, sf, tag)
            # degenerate / error inputs, only new against original
            d = random_motl(rng, 6, "random")
            for tf, sf in (("$xx", "noseq_$xx.mrc"), ("nothing", "$y"), ("$x", "$y$y_$x$x"), ("$xx$xx", "$yy$xx$yy$xx$yyy"), ("$xxx", "$yy_$xxx_$xx_$y")):
                check_against_original(d, v, 1.0, tf, sf, f"v{v} odd formats {tf!r} {sf!r}")
            check_against_original(d.iloc[:0], v, 1.0, "$xx", "$xx_$yy", f"v{v} empty list")
            dn = d.copy()
            dn.loc[2, "tomo_id"] = np.nan  # check_df_type fills it with 0
            check_against_original(dn, v, 1.0, "$xx", "$xx_$yy", f"v{v} nan tomo")
    print("checked:", COUNT)
    if FAILS:
        print(f"{len(FAILS)} check(s) failed")
        print("FAIL")
        sys.exit(1)
    print("PASS")


if __name__ == "__main__":
    main()
