"""C04, change a: the STOPGAP <-> cryoCAT conversion stays a lossless renaming with parity half-sets.

Run as:  cd /tmp/wt13/C04 && /venv/bin/python /tmp/seedsW/C04/a/demo.py

Three parts
  1. the property against an independent computation (own STAR parser, own half-up rounding, own renaming table),
     for many particle lists x reset_index x in-memory / via-file x update_coord,
  2. the functions of the tree (patched or not) against the ORIGINAL function texts kept below, on the same inputs,
  3. the caller's tables are left untouched and repeated calls give the same answer.
"""
import sys, os

sys.path.insert(0, os.getcwd())

import copy
import math
import shutil
import tempfile
import warnings

warnings.simplefilter("ignore")

import numpy as np
import pandas as pd

from cryocat import cryomotl, starfileio
from cryocat.cryomotl import Motl, StopgapMotl, EmMotl
from cryocat.exceptions import UserInputError

# ----------------------------------------------------------------------------------------------------------------------
# independent statement of the documented renaming (written down by hand, NOT taken from StopgapMotl.pairs)
RENAME = [
    ("score", "score"),
    ("subtomo_id", "subtomo_num"),
    ("tomo_id", "tomo_num"),
    ("object_id", "object"),
    ("x", "orig_x"),
    ("y", "orig_y"),
    ("z", "orig_z"),
    ("shift_x", "x_shift"),
    ("shift_y", "y_shift"),
    ("shift_z", "z_shift"),
    ("phi", "phi"),
    ("psi", "psi"),
    ("theta", "the"),
    ("class", "class"),
]
SG_COLUMNS = ["motl_idx", "tomo_num", "object", "subtomo_num", "halfset", "orig_x", "orig_y", "orig_z", "score",
              "x_shift", "y_shift", "z_shift", "phi", "psi", "the", "class"]
MOTL_COLUMNS = ["score", "geom1", "geom2", "subtomo_id", "tomo_id", "object_id", "subtomo_mean", "x", "y", "z",
                "shift_x", "shift_y", "shift_z", "geom3", "geom4", "geom5", "phi", "psi", "theta", "class"]
assert len(RENAME) == 14

# ----------------------------------------------------------------------------------------------------------------------
# ORIGINAL function texts (HEAD b1093bd), executed in the namespace of cryocat.cryomotl
ORIGINAL_SRC = '''
def orig_read_in(input_path):
    frames, specifiers, _ = starfileio.Starfile.read(input_path)

    if "data_stopgap_motivelist" not in specifiers:
        raise UserInputError(f"Provided starfile does not contain particle list: {input_path}.")
    else:
        sg_id = starfileio.Starfile.get_specifier_id(specifiers, "data_stopgap_motivelist")
        stopgap_df = frames[sg_id]

    return stopgap_df


def orig_sg_df_reset_index(stopgap_df, reset_index=False):
    if reset_index:
        stopgap_df["motl_idx"] = range(1, stopgap_df.shape[0] + 1)

    return stopgap_df


def orig_convert_to_sg_motl(motl_df, reset_index=False):
    stopgap_df = pd.DataFrame(data=np.zeros((motl_df.shape[0], 16)), columns=StopgapMotl.columns)

    for em_key, star_key in StopgapMotl.pairs.items():
        stopgap_df[star_key] = motl_df[em_key].values

    stopgap_df["halfset"] = np.where(motl_df["subtomo_id"].mod(2).eq(0).to_numpy(), "A", "B")
    stopgap_df["motl_idx"] = stopgap_df["subtomo_num"]

    stopgap_df = orig_sg_df_reset_index(stopgap_df, reset_index)

    return stopgap_df
'''
_ns = dict(cryomotl.__dict__)
exec(ORIGINAL_SRC, _ns)
orig_read_in = _ns["orig_read_in"]
orig_convert_to_sg_motl = _ns["orig_convert_to_sg_motl"]

# ----------------------------------------------------------------------------------------------------------------------
CHECKS = 0


def check(cond, msg):
    global CHECKS
    CHECKS += 1
    if not cond:
        print("FAIL:", msg)
        sys.exit(1)


def same_frame(a, b, msg):
    """exact equality: values, dtypes, column order, index"""
    check(list(a.columns) == list(b.columns), msg + ": columns differ")
    check(a.index.equals(b.index) and type(a.index) is type(b.index), msg + ": index differs")
    check(list(a.dtypes.astype(str)) == list(b.dtypes.astype(str)), msg + f": dtypes differ")
    for c in a.columns:
        x, y = a[c].to_numpy(), b[c].to_numpy()
        if x.dtype.kind == "f":
            ok = np.array_equal(x, y, equal_nan=True) and np.array_equal(np.signbit(x), np.signbit(y))
        else:
            ok = all(p == q for p, q in zip(x.tolist(), y.tolist())) and len(x) == len(y)
        check(ok, msg + f": values differ in column {c}")


def snapshot(df):
    return df.copy(deep=True), [id(df[c]) is not None for c in df.columns]


def untouched(df, snap, msg):
    same_frame(df, snap[0], msg + " (caller's table changed)")


# ----------------------------------------------------------------------------------------------------------------------
# inputs
def make_motl(rng, n, kind, int_ids):
    """A particle list with n particles: arbitrary finite values, non-sequential subtomogram numbers, several
    tomograms / objects of different sizes."""
    if kind == "uniform":
        data = rng.uniform(-1000.0, 1000.0, size=(n, 20))
    elif kind == "large":
        data = rng.uniform(-1.0e6, 1.0e6, size=(n, 20))
    elif kind == "small":
        data = rng.normal(0.0, 1.0e-3, size=(n, 20))
    elif kind == "integers":
        data = rng.integers(-500, 500, size=(n, 20)).astype(float)
    elif kind == "halves":  # x + shift exactly on .5 -> half-up rounding matters for update_coord
        data = rng.integers(-50, 50, size=(n, 20)).astype(float)
    elif kind == "zeros":
        data = np.zeros((n, 20))
    else:
        raise ValueError(kind)
    df = pd.DataFrame(data, columns=MOTL_COLUMNS)
    if kind == "halves":
        for s in ("shift_x", "shift_y", "shift_z"):
            df[s] = rng.choice([-1.5, -0.5, 0.5, 1.5, 2.5, 0.25, -0.75], size=n)
    # non-sequential, unsorted, unique subtomogram numbers of both parities
    sub = rng.choice(np.arange(1, 20 * n + 50), size=n, replace=False)
    if kind == "zeros":
        sub = np.arange(2, 2 * n + 2, 2)[::-1].copy()  # all even -> one half-set only
    n_tomo = int(rng.integers(1, 6))
    tomo = np.sort(rng.choice(np.arange(1, 400), size=n_tomo, replace=False)[rng.integers(0, n_tomo, size=n)])
    obj = rng.integers(1, 9, size=n)
    cls = rng.integers(1, 5, size=n)
    if int_ids:
        df["subtomo_id"] = sub.astype(np.int64)
        df["tomo_id"] = tomo.astype(np.int64)
        df["object_id"] = obj.astype(np.int64)
        df["class"] = cls.astype(np.int64)
    else:
        df["subtomo_id"] = sub.astype(float)
        df["tomo_id"] = tomo.astype(float)
        df["object_id"] = obj.astype(float)
        df["class"] = cls.astype(float)
    return df


def half_up(v):
    """round half away from zero, independent of decimal"""
    r = math.floor(abs(v) + 0.5)
    return -float(r) if v < 0 else float(r)


def expected_fields(df, update_coord):
    """the 14 shared fields under STOPGAP names as plain float lists, in particle order"""
    exp = {sg: [float(v) for v in df[em].tolist()] for em, sg in RENAME}
    if update_coord:
        for pos, sh in (("orig_x", "x_shift"), ("orig_y", "y_shift"), ("orig_z", "z_shift")):
            total = [p + s for p, s in zip(exp[pos], exp[sh])]
            exp[pos] = [half_up(t) for t in total]
            exp[sh] = [t - r for t, r in zip(total, exp[pos])]
    return exp


def parse_star_independently(path):
    """minimal reader for the written file: returns (column names, list of rows of strings)"""
    with open(path) as f:
        lines = [ln.strip() for ln in f.read().split("\n")]
    lines = [ln for ln in lines if ln != "" and not ln.startswith("#")]
    check(lines[0] == "data_stopgap_motivelist", "file: specifier")
    check(lines[1] == "loop_", "file: loop_")
    names, k = [], 2
    while k < len(lines) and lines[k].startswith("_"):
        names.append(lines[k][1:].split()[0])
        k += 1
    rows = [ln.split() for ln in lines[k:]]
    return names, rows


TOL = 0.5e-6 + 1e-9  # values are rounded to 6 decimals when written


def close(a, b):
    return abs(a - b) <= TOL + 1e-12 * max(abs(a), abs(b))


# ----------------------------------------------------------------------------------------------------------------------
def property_in_memory(df, reset_index, tag):
    snap = snapshot(df)
    sg = StopgapMotl.convert_to_sg_motl(df, reset_index)
    untouched(df, snap, tag)
    n = df.shape[0]
    check(list(sg.columns) == SG_COLUMNS, tag + ": STOPGAP column order")
    check(sg.shape == (n, 16), tag + ": shape")
    exp = expected_fields(df, False)
    for em, name in RENAME:
        got = sg[name].tolist()
        check(len(got) == n and all(float(g) == e for g, e in zip(got, exp[name])), tag + f": field {em}->{name}")
        check(str(sg[name].dtype) == str(df[em].dtype), tag + f": dtype of {name}")
    sub = [int(v) for v in df["subtomo_id"].tolist()]
    check(sg["halfset"].tolist() == ["A" if s % 2 == 0 else "B" for s in sub], tag + ": halfset parity")
    want_idx = list(range(1, n + 1)) if reset_index else sub
    check([float(v) for v in sg["motl_idx"].tolist()] == [float(v) for v in want_idx], tag + ": motl_idx")

    # patched vs. original text
    ref = orig_convert_to_sg_motl(df, reset_index)
    untouched(df, snap, tag + " (orig)")
    same_frame(sg, ref, tag + ": convert_to_sg_motl vs original")
    # repeated call on the same object
    same_frame(StopgapMotl.convert_to_sg_motl(df, reset_index), ref, tag + ": second call")
    # the output is a fresh table: writing into it leaves the input alone
    sg.loc[:, "phi"] = -12345.0
    sg["halfset"] = "X"
    untouched(df, snap, tag + " after writing to the result")

    # constructor / emmotl2stopgap keep the 14 fields in the cryoCAT table (in-memory path)
    for m in (StopgapMotl(df), cryomotl.emmotl2stopgap(df, reset_index=reset_index)):
        untouched(df, snap, tag + " constructor")
        for em, name in RENAME:
            check([float(v) for v in m.df[em].tolist()] == exp[name], tag + f": StopgapMotl(df).df[{em}]")
        same_frame(StopgapMotl.convert_to_sg_motl(m.df, reset_index), ref, tag + ": via object")


def property_via_file(df, reset_index, update_coord, workdir, tag, through_function):
    snap = snapshot(df)
    n = df.shape[0]
    path = os.path.join(workdir, "out.star")
    if os.path.exists(path):
        os.remove(path)
    if through_function:
        # emmotl2stopgap applies the coordinate update itself and writes with update_coord=False
        m = cryomotl.emmotl2stopgap(df, path, update_coordinates=update_coord, reset_index=reset_index)
    else:
        m = StopgapMotl(df)
        m.write_out(path, update_coord=update_coord, reset_index=reset_index)
    untouched(df, snap, tag)
    exp = expected_fields(df, update_coord)
    sub = [int(v) for v in df["subtomo_id"].tolist()]

    # (i) the file itself, parsed independently
    names, rows = parse_star_independently(path)
    check(names == SG_COLUMNS, tag + ": file columns")
    check(len(rows) == n and all(len(r) == 16 for r in rows), tag + ": file rows")
    for em, name in RENAME:
        j = names.index(name)
        check(all(close(float(r[j]), e) for r, e in zip(rows, exp[name])), tag + f": file field {name}")
    j = names.index("halfset")
    check([r[j] for r in rows] == ["A" if s % 2 == 0 else "B" for s in sub], tag + ": file halfset")
    j = names.index("motl_idx")
    want_idx = list(range(1, n + 1)) if reset_index else sub
    check([float(r[j]) for r in rows] == [float(v) for v in want_idx], tag + ": file motl_idx")

    # (ii) loaded back
    back = StopgapMotl(path)
    check(back.df.shape[0] == n, tag + ": loaded length")
    for em, name in RENAME:
        check(all(close(float(g), e) for g, e in zip(back.df[em].tolist(), exp[name])), tag + f": loaded {em}")
    em_back = cryomotl.stopgap2emmotl(path)
    check(isinstance(em_back, EmMotl), tag + ": stopgap2emmotl type")
    for em, name in RENAME:
        check(all(close(float(g), e) for g, e in zip(em_back.df[em].tolist(), exp[name])), tag + f": em {em}")
    check(list(back.sg_df.columns) == SG_COLUMNS, tag + ": sg_df columns")
    check(back.sg_df["halfset"].tolist() == ["A" if s % 2 == 0 else "B" for s in sub], tag + ": loaded halfset")

    # (iii) read_in of the tree vs original text on the same file
    a = StopgapMotl.read_in(path)
    b = orig_read_in(path)
    same_frame(a, b, tag + ": read_in vs original")
    same_frame(a, back.sg_df, tag + ": read_in vs constructor")

    # (iv) writing the same object again gives the same bytes (no state carried between calls)
    with open(path, "rb") as f:
        first = f.read()
    path2 = os.path.join(workdir, "again.star")
    m.write_out(path2, update_coord=False, reset_index=reset_index)
    with open(path2, "rb") as f:
        second = f.read()
    if not update_coord or through_function:
        check(first == second, tag + ": second write differs")
    # and the file is what the original conversion would have produced
    ref_df = orig_convert_to_sg_motl(m.df, reset_index)
    ref_df.fillna(0, inplace=True)
    path3 = os.path.join(workdir, "ref.star")
    starfileio.Starfile.write([ref_df], path3, specifiers=["data_stopgap_motivelist"])
    with open(path3, "rb") as f:
        third = f.read()
    check(second == third, tag + ": file differs from the file of the original conversion")


def read_in_edge_cases(workdir):
    """read_in: the particle block is found wherever it stands; a file without it is refused as before"""
    block = "\ndata_stopgap_motivelist\n\nloop_\n_motl_idx\n_tomo_num\n_halfset\n\n1\t5\tA\n2\t5\tB\n\n"
    other = "\ndata_other\n\nloop_\n_a #1\n_b #2\n1.5\t2\n3.5\t4\n5.5\t6\n\n"
    empty = "\ndata_empty\n\nloop_\n_a #1\n_b #2\n\n"
    texts = {
        "only": block,
        "second": other + block,
        "first": block + other,
        "after_empty": empty + block,
        "before_empty": block + empty,
        "twice": block + other + block.replace("5", "9"),
        "none": other,
        "none_empty": empty,
        "similar": other.replace("data_other", "data_stopgap_motivelist_old"),
        "blank": "\n\n",
    }
    for name, text in texts.items():
        p = os.path.join(workdir, f"edge_{name}.star")
        with open(p, "w") as f:
            f.write(text)
        res = []
        for fn in (StopgapMotl.read_in, orig_read_in):
            try:
                res.append(("ok", fn(p)))
            except Exception as e:  # noqa
                res.append(("err", type(e), str(e)))
        check(res[0][0] == res[1][0], f"read_in {name}: outcome kind")
        if res[0][0] == "ok":
            same_frame(res[0][1], res[1][1], f"read_in {name}")
            check(list(res[0][1].columns) == ["motl_idx", "tomo_num", "halfset"], f"read_in {name}: right block")
            check(res[0][1]["tomo_num"].tolist() == [5, 5], f"read_in {name}: first matching block")
        else:
            check(res[0][1:] == res[1][1:], f"read_in {name}: same error")
        if name != "after_empty":  # (the reader itself gives up on a block that follows an empty block)
            refused = "none" in name or name in ("similar", "blank")
            check(refused == (res[0][0] == "err"), f"read_in {name}: expected kind")
            check(not refused or res[0][1] is UserInputError, f"read_in {name}: UserInputError")
    # a path that does not exist: same exception from both
    outs = []
    for fn in (StopgapMotl.read_in, orig_read_in):
        try:
            fn(os.path.join(workdir, "missing.star"))
            outs.append(None)
        except Exception as e:  # noqa
            outs.append((type(e), str(e)))
    check(outs[0] == outs[1] and outs[0] is not None, "read_in missing file")


def main():
    rng = np.random.default_rng(20260928)
    workdir = tempfile.mkdtemp(prefix="c04a_")
    try:
        sizes = [1, 2, 3, 5, 17, 64, 300]
        kinds = ["uniform", "large", "small", "integers", "halves", "zeros"]
        cases = 0
        for kind in kinds:
            for n in sizes + [int(rng.integers(1, 301))]:
                for int_ids in (False, True):
                    df = make_motl(rng, n, kind, int_ids)
                    for reset_index in (False, True):
                        tag = f"{kind}/n={n}/int={int_ids}/reset={reset_index}"
                        property_in_memory(df, reset_index, tag)
                        cases += 1
        # via-file path (update_coordinates applies a Python function per row: keep the sizes moderate)
        for kind in kinds:
            for n in [1, 2, 7, 40, int(rng.integers(1, 120))]:
                int_ids = bool(rng.integers(0, 2))
                df = make_motl(rng, n, kind, int_ids)
                for reset_index in (False, True):
                    for update_coord in (False, True):
                        for through_function in (False, True):
                            tag = f"file/{kind}/n={n}/reset={reset_index}/upd={update_coord}/fn={through_function}"
                            property_via_file(df, reset_index, update_coord, workdir, tag, through_function)
                            cases += 1
        df = make_motl(rng, 300, "uniform", False)
        property_via_file(df, False, False, workdir, "file/300", False)
        property_via_file(df, True, True, workdir, "file/300/upd", True)
        # a table whose row labels are not 0..n-1 (a selection of a larger list)
        big = make_motl(rng, 60, "uniform", True)
        sel = big[big["object_id"] > 3]
        if sel.shape[0] > 0:
            snap = snapshot(sel)
            a = StopgapMotl.convert_to_sg_motl(sel, False)
            b = orig_convert_to_sg_motl(sel, False)
            same_frame(a, b, "selection")
            untouched(sel, snap, "selection")
            check(a["subtomo_num"].tolist() == sel["subtomo_id"].tolist(), "selection order")
            property_via_file(sel, True, False, workdir, "file/selection", False)
        read_in_edge_cases(workdir)
    finally:
        shutil.rmtree(workdir, ignore_errors=True)
    print(f"PASS ({cases} configurations, {CHECKS} checks)")


if __name__ == "__main__":
    main()
