"""C05 / change a: update_coordinates rounds all rows of a float64 table as one array (exact half-away-from-zero
rounding) instead of one Decimal per value in a row-wise DataFrame.apply.

The demo
 1. checks the property (complete position x+shift and orientation transform rigidly under update / scale / shift /
    rotate / flip, histories of up to 6 operations) against an independent model built from plain 3x3 matrices and
    exact rational arithmetic for the rounding,
 2. runs the ORIGINAL update_coordinates (text kept below) next to the one in the tree on the same tables and requires
    identical frames (values bit for bit, signs of zeros, dtypes, index, column order) or the same exception.
Run:  cd /tmp/wt7/C05 && /venv/bin/python /tmp/seedsT/C05/a/demo.py
"""
import os
import sys

sys.path.insert(0, os.getcwd())

import copy
import warnings
from fractions import Fraction

import numpy as np
import pandas as pd
from scipy.spatial.transform import Rotation as rot

warnings.filterwarnings("ignore")

from cryocat import cryomotl
from cryocat.cryomotl import Motl

COLS = list(Motl.motl_columns)

# ----------------------------------------------------------------------------------------------------------------------
# the original function, verbatim from HEAD 6462733
ORIG_SRC = '''
def update_coordinates(self):
    # Python 0.5 rounding: round(1.5) = 2, BUT round(2.5) = 2, while in Matlab round(2.5) = 3
    def round_and_recenter(row):
        new_row = row.copy()
        shifted_x = row["x"] + row["shift_x"]
        shifted_y = row["y"] + row["shift_y"]
        shifted_z = row["z"] + row["shift_z"]
        new_row["x"] = float(decimal.Decimal(shifted_x).to_integral_value(rounding=decimal.ROUND_HALF_UP))
        new_row["y"] = float(decimal.Decimal(shifted_y).to_integral_value(rounding=decimal.ROUND_HALF_UP))
        new_row["z"] = float(decimal.Decimal(shifted_z).to_integral_value(rounding=decimal.ROUND_HALF_UP))
        new_row["shift_x"] = shifted_x - new_row["x"]
        new_row["shift_y"] = shifted_y - new_row["y"]
        new_row["shift_z"] = shifted_z - new_row["z"]
        return new_row

    self.df = self.df.apply(round_and_recenter, axis=1)
    warnings.warn("The coordinates for subtomogram extraction were changed, new extraction is necessary!")
'''
_ns = dict(vars(cryomotl))
exec(ORIG_SRC, _ns)


class OrigMotl(Motl):
    update_coordinates = _ns["update_coordinates"]


# ----------------------------------------------------------------------------------------------------------------------
# independent model
def Rz(a):
    a = np.deg2rad(a)
    c, s = np.cos(a), np.sin(a)
    return np.array([[c, -s, 0.0], [s, c, 0.0], [0.0, 0.0, 1.0]])


def Rx(a):
    a = np.deg2rad(a)
    c, s = np.cos(a), np.sin(a)
    return np.array([[1.0, 0.0, 0.0], [0.0, c, -s], [0.0, s, c]])


def euler_to_matrix(phi, theta, psi):
    # extrinsic zxz: first about z by phi, then about the fixed x by theta, then about the fixed z by psi
    return Rz(psi) @ Rx(theta) @ Rz(phi)


def half_away(v):
    """Round the float v to an integer, ties away from zero, in exact rational arithmetic."""
    f = Fraction(float(v))
    a = abs(f)
    n = a.numerator // a.denominator
    if a - n >= Fraction(1, 2):
        n += 1
    return -n if f < 0 else n


S = np.diag([1.0, 1.0, -1.0])


class Model:
    def __init__(self, df):
        self.P = df[["x", "y", "z"]].to_numpy(dtype=float) + df[["shift_x", "shift_y", "shift_z"]].to_numpy(dtype=float)
        self.M = [euler_to_matrix(*r) for r in df[["phi", "theta", "psi"]].to_numpy(dtype=float)]
        self.tomo = df["tomo_id"].to_numpy(dtype=float)

    def scale(self, f):
        self.P = self.P * f

    def shift(self, s):
        s = np.asarray(s, dtype=float).reshape(3)
        self.P = np.array([p + m @ s for p, m in zip(self.P, self.M)]).reshape(-1, 3)

    def rotate(self, Q):
        q = Q.as_matrix()
        self.M = [m @ q for m in self.M]

    def flip(self, table):
        self.M = [S @ m @ S for m in self.M]
        if table is None:
            return
        for i in range(len(self.P)):
            if isinstance(table, dict):
                if self.tomo[i] in table:
                    self.P[i, 2] = table[self.tomo[i]] + 1 - self.P[i, 2]
            else:
                self.P[i, 2] = table + 1 - self.P[i, 2]


def check_state(m, model, what):
    n = len(model.P)
    c = m.get_coordinates()
    assert c.shape == (n, 3), (what, c.shape)
    scale = 1.0 + np.abs(model.P)
    assert np.all(np.abs(c - model.P) <= 1e-7 * scale), (what, "position", np.abs(c - model.P).max())
    r = m.get_rotations()
    if n == 0:
        assert len(r) == 0
    else:
        mats = r.as_matrix().reshape(-1, 3, 3)
        assert mats.shape[0] == n
        err = max(np.abs(a - b).max() for a, b in zip(mats, model.M))
        assert err <= 1e-6, (what, "orientation", err)


def check_updated(m, before, what):
    """x, y, z are the half-away rounding of the former complete position, |shift| <= 0.5, sum unchanged."""
    xyz = m.df[["x", "y", "z"]].to_numpy(dtype=float)
    sh = m.df[["shift_x", "shift_y", "shift_z"]].to_numpy(dtype=float)
    assert xyz.shape == before.shape
    for (i, j), v in np.ndenumerate(before):
        assert xyz[i, j] == half_away(v), (what, v, xyz[i, j])
        assert abs(sh[i, j]) <= 0.5, (what, v, sh[i, j])
        assert Fraction(float(xyz[i, j])) + Fraction(float(sh[i, j])) == Fraction(float(v)) or abs(
            xyz[i, j] + sh[i, j] - v
        ) <= 1e-9 * (1 + abs(v)), (what, v)


# ----------------------------------------------------------------------------------------------------------------------
# inputs
rng = np.random.default_rng(int(os.environ.get("DEMO_SEED", "5")))

SPECIAL = [0.0, -0.0, 0.5, -0.5, 1.5, -1.5, 2.5, -2.5, 3.5, 0.49999999999999994, -0.49999999999999994,
           0.5000000000000001, 1e-20, -1e-20, 4503599627370495.5, -4503599627370495.5, 4503599627370496.0,
           2251799813685247.5, 1e15 + 0.5, 123456.5, -123456.5, 7.0, -7.0, 0.25, -0.75]
POLES = [0.0, 180.0, -180.0, 90.0, -90.0, 360.0, 1e-9, 180 - 1e-9]


def make_df(n, kind):
    d = {c: np.zeros(n) for c in COLS}
    d["score"] = rng.random(n)
    d["subtomo_id"] = np.arange(1, n + 1, dtype=float)
    d["tomo_id"] = rng.integers(1, 4, n).astype(float)
    d["object_id"] = rng.integers(1, 3, n).astype(float)
    d["class"] = np.ones(n)
    if kind == "integer_pos":
        xyz = rng.integers(-50, 200, (n, 3)).astype(float)
        sh = np.zeros((n, 3))
    elif kind == "ties":
        xyz = rng.integers(-50, 200, (n, 3)).astype(float)
        sh = rng.choice([0.5, -0.5, 1.5, -1.5, 2.5, -2.5, 0.0], (n, 3))
    elif kind == "special":
        xyz = rng.choice([0.0, 1.0, -1.0, 10.0], (n, 3))
        sh = rng.choice(SPECIAL, (n, 3))
        xyz[sh > 1e10] = 0.0
        xyz[sh < -1e10] = 0.0
    else:
        xyz = rng.uniform(-300, 300, (n, 3))
        sh = rng.uniform(-5, 5, (n, 3))
    d["x"], d["y"], d["z"] = xyz[:, 0], xyz[:, 1], xyz[:, 2]
    d["shift_x"], d["shift_y"], d["shift_z"] = sh[:, 0], sh[:, 1], sh[:, 2]
    ang = np.column_stack([rng.uniform(-180, 180, n), rng.uniform(0, 180, n), rng.uniform(-180, 180, n)])
    for i in range(n):
        if rng.random() < 0.3:
            ang[i, 1] = rng.choice(POLES)
        if rng.random() < 0.2:
            ang[i, 0] = rng.choice(POLES)
        if rng.random() < 0.1:
            ang[i, 1] = -ang[i, 1]
    d["phi"], d["theta"], d["psi"] = ang[:, 0], ang[:, 1], ang[:, 2]
    df = pd.DataFrame(d, columns=COLS)
    return df


def decorate(df, variant):
    """Same particles, different table layouts."""
    df = df.copy()
    n = len(df)
    if variant == "int_columns":
        for c in ("tomo_id", "object_id", "subtomo_id", "class"):
            df[c] = df[c].astype(np.int64)
    elif variant == "shuffled_columns":
        df = df.loc[:, list(rng.permutation(COLS))]
    elif variant == "odd_index":
        df.index = pd.Index(rng.permutation(np.arange(100, 100 + n)) * 3, name="pid")
    elif variant == "dup_index":
        df.index = pd.Index(np.zeros(n, dtype=int) + 7)
    elif variant == "nan_holes":
        for c in ("geom1", "geom4", "score"):
            col = df[c].to_numpy(copy=True)
            col[rng.random(n) < 0.4] = np.nan
            df[c] = col
    return df


def random_rotation():
    k = rng.integers(0, 5)
    if k == 0:
        return rot.identity()
    if k == 1:
        return rot.from_euler("zxz", [rng.choice(POLES), rng.choice([0.0, 180.0]), rng.choice(POLES)], degrees=True)
    if k == 2:
        return rot.from_euler("z", rng.uniform(-180, 180), degrees=True)
    return rot.random(random_state=int(rng.integers(0, 2**31)))


def random_dims(df):
    """Returns (argument for flip_handedness, model table)."""
    k = rng.integers(0, 7)
    tomos = sorted(set(df["tomo_id"].astype(float)))
    z = float(rng.integers(50, 400))
    if k == 0:
        return None, None
    if k == 1:
        return [400, 300, z], z
    if k == 2:
        return np.array([400.0, 300.0, z]), z
    if k == 3:
        return np.array([[400, 300, int(z)]]), z
    zs = {t: float(rng.integers(50, 400)) for t in tomos}
    if k == 4 and len(zs) > 1:  # a tomogram missing from the table keeps its positions
        zs.pop(tomos[-1])
    if not zs:
        zs = {1.0: z}
    rows = [[t, 400.0, 300.0, v] for t, v in zs.items()]
    if k == 5:
        return np.array(rows), zs
    return pd.DataFrame(rows), zs


def random_history(df, length):
    ops = []
    for _ in range(length):
        k = rng.choice(["update", "scale", "shift", "shift_copy", "rotate", "flip", "flip2"])
        if k == "scale":
            ops.append((k, float(rng.choice([0.5, 2.0, 4.0, 1.0, 0.25, 3.0, rng.uniform(0.1, 8)]))))
        elif k in ("shift", "shift_copy"):
            s = rng.choice([0, 1, -1, 2.5, -0.5], 3) if rng.random() < 0.4 else rng.uniform(-20, 20, 3)
            ops.append((k, list(s) if rng.random() < 0.5 else np.asarray(s)))
        elif k == "rotate":
            ops.append((k, random_rotation()))
        elif k in ("flip", "flip2"):
            ops.append((k, random_dims(df)))
        else:
            ops.append((k, None))
    return ops


def run_op(m, op, arg):
    if op == "update":
        m.update_coordinates()
    elif op == "scale":
        m.scale_coordinates(arg)
    elif op == "shift":
        m.shift_positions(copy.deepcopy(arg))
    elif op == "shift_copy":
        m = m.shift_positions(copy.deepcopy(arg), inplace=False)
    elif op == "rotate":
        m.apply_rotation(arg)
    elif op == "flip":
        m.flip_handedness(copy.deepcopy(arg[0]))
    elif op == "flip2":
        m.flip_handedness(copy.deepcopy(arg[0]))
        m.flip_handedness(copy.deepcopy(arg[0]))
    return m


def model_op(model, op, arg):
    if op == "scale":
        model.scale(arg)
    elif op in ("shift", "shift_copy"):
        model.shift(arg)
    elif op == "rotate":
        model.rotate(arg)
    elif op == "flip":
        model.flip(arg[1])
    # update and flip2 leave the model as it is


def same_frames(a, b, what):
    pd.testing.assert_frame_equal(a, b, check_exact=True, check_dtype=True, obj=what)
    assert list(a.columns) == list(b.columns), what
    assert a.index.equals(b.index) and a.index.names == b.index.names, what
    va, vb = a.to_numpy(dtype=float), b.to_numpy(dtype=float)
    assert np.array_equal(np.signbit(va), np.signbit(vb)), (what, "sign of zero")
    assert np.array_equal(va, vb, equal_nan=True), what


# ----------------------------------------------------------------------------------------------------------------------
def part1_property():
    count = 0
    for n in (0, 1, 2, 5, 17):
        for kind in ("integer_pos", "ties", "special", "random"):
            for variant in ("plain", "int_columns", "shuffled_columns", "odd_index", "dup_index", "nan_holes"):
                base = decorate(make_df(n, kind), variant)
                for rep in range(2):
                    hist = random_history(base, int(rng.integers(1, 7)))
                    for cls in (Motl, OrigMotl):
                        m = cls(base.copy())
                        model = Model(base)
                        check_state(m, model, "start")
                        for step, (op, arg) in enumerate(hist):
                            before = m.get_coordinates().copy()
                            m = run_op(m, op, arg)
                            model_op(model, op, arg)
                            what = (n, kind, variant, step, op)
                            check_state(m, model, what)
                            if op == "update":
                                check_updated(m, before, what)
                                # repeated call on the same object: nothing moves any more
                                again = m.df.copy()
                                m.update_coordinates()
                                assert np.array_equal(
                                    again[["x", "y", "z", "shift_x", "shift_y", "shift_z"]].to_numpy(),
                                    m.df[["x", "y", "z", "shift_x", "shift_y", "shift_z"]].to_numpy(),
                                ), what
                        count += 1
    # composition laws spelled out once more on one list
    base = make_df(9, "random")
    s1, s2 = rng.uniform(-5, 5, 3), rng.uniform(-5, 5, 3)
    a, b = Motl(base.copy()), Motl(base.copy())
    a.shift_positions(s1)
    a.shift_positions(s2)
    b.shift_positions(s1 + s2)
    assert np.allclose(a.get_coordinates(), b.get_coordinates(), atol=1e-9)
    q1, q2 = random_rotation(), rot.random(random_state=3)
    a, b = Motl(base.copy()), Motl(base.copy())
    a.apply_rotation(q1)
    a.apply_rotation(q2)
    b.apply_rotation(q1 * q2)
    assert np.allclose(a.get_rotations().as_matrix(), b.get_rotations().as_matrix(), atol=1e-9)
    assert np.array_equal(a.get_coordinates(), Motl(base.copy()).get_coordinates())
    return count


def part2_original_vs_tree():
    count = 0
    for n in (0, 1, 2, 3, 8, 40):
        for kind in ("integer_pos", "ties", "special", "random"):
            for variant in ("plain", "int_columns", "shuffled_columns", "odd_index", "dup_index", "nan_holes"):
                base = decorate(make_df(n, kind), variant)
                o, t = OrigMotl(base.copy()), Motl(base.copy())
                keep_o, keep_t = o.df, t.df
                for call in range(3):  # repeated calls on the same objects
                    o.update_coordinates()
                    t.update_coordinates()
                    same_frames(o.df, t.df, (n, kind, variant, call))
                    count += 1
                # the table that was there before the call is not written to
                same_frames(keep_o, base, "input of original")
                same_frames(keep_t, base, "input of tree")
                assert t.df is not keep_t
    # every special value in every coordinate, both signs of the split between x and shift
    vals = np.array(SPECIAL + [v + k for v in (0.5, -0.5, 0.49999999999999994) for k in (-3, -1, 1, 2, 1000)])
    for split in (0.0, 1.0, -2.0, 0.5):
        df = make_df(len(vals), "random")
        for c in "xyz":
            df[c] = split
            df["shift_" + c] = vals - split
        o, t = OrigMotl(df.copy()), Motl(df.copy())
        o.update_coordinates()
        t.update_coordinates()
        same_frames(o.df, t.df, ("special", split))
        count += 1
    # a large random sweep around the ties
    n = 4000
    df = make_df(n, "random")
    k = rng.integers(-1000, 1000, (n, 3)).astype(float)
    eps = rng.choice([0.0, 1e-16, -1e-16, 1e-13, -1e-13, 5e-17], (n, 3))
    df[["x", "y", "z"]] = k
    df[["shift_x", "shift_y", "shift_z"]] = rng.choice([0.5, -0.5], (n, 3)) + eps
    o, t = OrigMotl(df.copy()), Motl(df.copy())
    o.update_coordinates()
    t.update_coordinates()
    same_frames(o.df, t.df, "sweep")
    count += 1

    # tables outside the float64 route: same result or same exception
    def outcome(cls, frame):
        m = cls(frame.copy())
        try:
            m.update_coordinates()
        except Exception as e:  # noqa
            return type(e).__name__, None
        return "ok", m.df

    odd = []
    f = make_df(4, "ties")
    odd.append(("all_int", f.round().astype(np.int64)))
    odd.append(("all_float32", f.astype(np.float32)))
    g = f.copy()
    g["geom1"] = g["geom1"].astype(np.float32)
    odd.append(("one_float32", g))
    g = f.copy()
    g["geom1"] = ["a", "b", "c", "d"]
    odd.append(("string_column", g))
    g = f.copy()
    g["class"] = g["class"].astype("Int64")
    odd.append(("nullable_int", g))
    g = f.copy()
    g["class"] = [True, False, True, True]
    odd.append(("bool_column", g))
    g = f.copy()
    g.loc[1, "x"] = np.nan
    g.loc[2, "shift_y"] = np.inf
    g.loc[3, "z"] = -np.inf
    odd.append(("nan_inf_positions", g))
    for name, frame in odd:
        ko, do = outcome(OrigMotl, frame)
        kt, dt = outcome(Motl, frame)
        assert ko == kt, (name, ko, kt)
        if do is not None:
            pd.testing.assert_frame_equal(do, dt, check_exact=True, check_dtype=True, obj=name)
        count += 1
    # the warning is still issued
    with warnings.catch_warnings(record=True) as w:
        warnings.simplefilter("always")
        Motl(make_df(3, "random")).update_coordinates()
        Motl(make_df(0, "random")).update_coordinates()
    assert sum("new extraction is necessary" in str(x.message) for x in w) == 2
    return count


if __name__ == "__main__":
    c1 = part1_property()
    c2 = part2_original_vs_tree()
    print(f"property histories checked: {c1}; original-vs-tree comparisons: {c2}")
    print("PASS")
