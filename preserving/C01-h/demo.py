"""C01 demo (change a): EM particle lists round-trip losslessly for any column order.

Part 1 checks the property against an independent EM parser / independent expectation.
Part 2 compares the library's constructor helpers (Motl.__init__, check_df_correct_format, check_df_type)
with verbatim copies of the original helper texts on the same inputs.
"""
import os
import sys

sys.path.insert(0, os.getcwd())

import copy
import struct
import tempfile
import warnings
from pathlib import Path

import numpy as np
import pandas as pd

from cryocat import cryomotl
from cryocat.cryomotl import Motl, EmMotl

CANON = ["score", "geom1", "geom2", "subtomo_id", "tomo_id", "object_id", "subtomo_mean", "x", "y", "z",
         "shift_x", "shift_y", "shift_z", "geom3", "geom4", "geom5", "phi", "psi", "theta", "class"]
F32MAX = float(np.finfo(np.float32).max)
failures = []


def check(cond, msg):
    if not cond:
        failures.append(msg)
        if len(failures) < 25:
            print("FAIL:", msg)


# ---------------------------------------------------------------- independent EM parser
def parse_em(path):
    raw = open(path, "rb").read()
    check(len(raw) >= 512, "file shorter than an EM header")
    machine, version, unused, dtype = struct.unpack("<4b", raw[:4])
    xdim, ydim, zdim = struct.unpack("<3i", raw[4:16])
    check(machine == 6, f"machine byte {machine}")
    check(dtype == 5, f"dtype code {dtype} is not float32")
    check(len(raw) == 512 + 4 * xdim * ydim * zdim, "file size does not match header dimensions")
    data = np.frombuffer(raw[512:], dtype="<f4").reshape(zdim, ydim, xdim)
    return (zdim, ydim, xdim), data, raw


# ---------------------------------------------------------------- independent expectation
def expected_f32(df):
    """N x 20 float32, canonical field order, computed value by value from the column NAMES."""
    n = df.shape[0]
    out = np.zeros((n, 20), dtype=np.float32)
    for j, name in enumerate(CANON):
        col = df[name].tolist()
        for i in range(n):
            v = col[i]
            out[i, j] = np.float32(0.0) if v != v else np.float32(v)
    return out


def same_bits(a, b):
    a = np.ascontiguousarray(a, dtype=np.float32)
    b = np.ascontiguousarray(b, dtype=np.float32)
    return a.shape == b.shape and np.array_equal(a.view(np.uint32), b.view(np.uint32))


def frames_identical(a, b):
    if list(a.columns) != list(b.columns) or a.shape != b.shape:
        return False
    if not a.index.equals(b.index) or type(a.index) is not type(b.index):
        return False
    if list(a.dtypes) != list(b.dtypes):
        return False
    x = a.to_numpy(dtype=float)
    y = b.to_numpy(dtype=float)
    return np.array_equal(x.view(np.uint64), y.view(np.uint64))  # bitwise: NaN == NaN, -0.0 != 0.0


# ---------------------------------------------------------------- input generator
def random_values(rng, n, mode):
    if mode == "plain":
        v = rng.normal(0, 100, size=(n, 20))
    elif mode == "ints":
        v = rng.integers(-5000, 5000, size=(n, 20)).astype(float)
    elif mode == "wide":
        v = rng.choice([-1.0, 1.0], size=(n, 20)) * 10.0 ** rng.uniform(-44, 38.5, size=(n, 20))
        v = np.clip(v, -F32MAX, F32MAX)
    elif mode == "edges":
        pool = np.array([0.0, -0.0, 1.0, -1.0, F32MAX, -F32MAX, 1e-45, -1e-45, 1e-40, 1.17549435e-38, 16777217.0,
                         0.1, 1 / 3, 180.0, -180.0, 360.0, 1e-300, -1e-300, 2.0 ** 24 + 1, 123456789.123456789])
        v = rng.choice(pool, size=(n, 20))
    else:
        raise AssertionError(mode)
    return v.astype(np.float64)


def make_table(rng, n, mode, holes, perm, index_kind):
    v = random_values(rng, n, mode)
    if holes == "some":
        v[rng.random((n, 20)) < 0.2] = np.nan
    elif holes == "all":
        v[:] = np.nan
    elif holes == "column":
        v[:, rng.integers(0, 20)] = np.nan
    canon_df = pd.DataFrame(v, columns=CANON)
    order = [CANON[k] for k in perm]
    df = pd.DataFrame({name: canon_df[name].to_numpy() for name in order})  # dict in the permuted order
    check(list(df.columns) == order, "generator: column order")
    if index_kind == "shuffled":
        df.index = rng.permutation(n) + 10
    elif index_kind == "duplicates":
        df.index = np.zeros(n, dtype=int)
    elif index_kind == "strings":
        df.index = [f"p{k}" for k in range(n)][::-1]
    elif index_kind == "float":
        df.index = np.linspace(-1.5, 7.5, n)
    return df


def perms(rng):
    ident = list(range(20))
    yield ident
    yield ident[::-1]
    yield ident[1:] + ident[:1]
    yield sorted(ident, key=lambda k: CANON[k])  # alphabetical
    for _ in range(4):
        yield list(rng.permutation(20))


# ---------------------------------------------------------------- property check
def writers(df, path):
    """all write paths named by the quantifier"""
    return [
        ("Motl.write_out(emmotl)", lambda: Motl(df).write_out(path, "emmotl")),
        ("Motl.write_out(default)", lambda: Motl(df).write_out(path)),
        ("Motl.write_out(EmMotl upper)", lambda: Motl(df).write_out(path, "EmMotl")),
        ("EmMotl.write_out", lambda: EmMotl(df).write_out(path)),
        ("EmMotl(EmMotl).write_out", lambda: EmMotl(EmMotl(df)).write_out(Path(path))),
        ("Motl.load(df).write_out", lambda: Motl.load(df).write_out(path)),
        ("Motl.load(df,'emmotl').write_out", lambda: Motl.load(df, "emmotl").write_out(path)),
        ("Motl.load(Motl(df)) -> Motl.write_out", lambda: Motl.write_out(Motl.load(Motl(df)), path, "emmotl")),
    ]


def loaders(path):
    return [
        ("Motl.load(path)", lambda: Motl.load(path)),
        ("Motl.load(path,'emmotl')", lambda: Motl.load(path, "emmotl")),
        ("Motl.load(Path)", lambda: Motl.load(Path(path))),
        ("EmMotl(path)", lambda: EmMotl(path)),
    ]


def check_property(tmp):
    rng = np.random.default_rng(20240901)
    path = os.path.join(tmp, "m.em")
    cases = 0
    for n in (1, 2, 3, 7, 40):
        for mode in ("plain", "ints", "wide", "edges"):
            for holes in ("none", "some", "column", "all"):
                for perm in perms(rng):
                    index_kind = rng.choice(["default", "shuffled", "duplicates", "strings", "float"])
                    df = make_table(rng, n, mode, holes, perm, index_kind)
                    keep = df.copy(deep=True)
                    exp = expected_f32(df)
                    all_w = writers(df, path)
                    # one writer per case, all writers on a regular subset
                    chosen = all_w if cases % 16 == 0 else [all_w[cases % len(all_w)]]
                    for wname, w in chosen:
                        tag = f"n={n} {mode} holes={holes} perm={perm[:4]}.. index={index_kind} {wname}"
                        if os.path.exists(path) and cases % 3 == 0:
                            os.remove(path)  # otherwise the old file (possibly other N) is overwritten
                        w()
                        shape, data, raw = parse_em(path)
                        check(shape == (1, n, 20), f"{tag}: volume shape {shape}")
                        check(same_bits(data[0], exp), f"{tag}: bytes on disk differ from float32(field values)")
                        check(not np.isnan(data).any(), f"{tag}: NaN on disk")
                        check(frames_identical(df, keep), f"{tag}: caller's table changed by writing")
                        all_l = loaders(path)
                        lchosen = all_l if cases % 16 == 0 else [all_l[cases % len(all_l)]]
                        for lname, l in lchosen:
                            back = l()
                            check(isinstance(back, EmMotl), f"{tag} {lname}: type {type(back)}")
                            b = back.df
                            check(list(b.columns) == CANON, f"{tag} {lname}: columns of loaded list")
                            check(b.index.equals(pd.RangeIndex(n)), f"{tag} {lname}: index of loaded list")
                            check(all(str(t) == "float64" for t in b.dtypes), f"{tag} {lname}: dtypes")
                            for name in CANON:  # every named field equals its single-precision rounding
                                want = exp[:, CANON.index(name)].astype(np.float64)
                                got = b[name].to_numpy()
                                check(np.array_equal(got.view(np.uint64), want.view(np.uint64)),
                                      f"{tag} {lname}: field {name}")
                    if cases % 8 == 0:
                        # repeated calls on the same objects: same bytes, and load -> write is a fixed point
                        m = Motl(df)
                        e = EmMotl(df)
                        m.write_out(path, "emmotl")
                        r1 = open(path, "rb").read()
                        m.write_out(path, "emmotl")
                        r2 = open(path, "rb").read()
                        e.write_out(path)
                        r3 = open(path, "rb").read()
                        e.write_out(path)
                        r4 = open(path, "rb").read()
                        check(r1 == r2 == r3 == r4, "repeated writes give different bytes")
                        check(m.df is df, "Motl(df) no longer holds the caller's table")
                        check(frames_identical(df, keep), "caller's table changed by repeated writes")
                        loaded = Motl.load(path)
                        p2 = os.path.join(tmp, "again.em")
                        loaded.write_out(p2)
                        check(open(p2, "rb").read() == r1, "load -> write is not a fixed point")
                        Motl.write_out(Motl.load(p2), p2, "emmotl")
                        check(open(p2, "rb").read() == r1, "load -> Motl.write_out is not a fixed point")
                    cases += 1
    return cases


# ---------------------------------------------------------------- originals of the helpers touched by change a
class OrigMotl:
    motl_columns = list(CANON)

    def __init__(self, motl_df=None):
        if motl_df is not None:
            if self.check_df_correct_format(motl_df):
                self.df = motl_df
            else:
                raise ValueError("Provided pandas.DataFrame does not have correct format.")
        else:
            self.df = Motl.create_empty_motl_df()

    @staticmethod
    def check_df_correct_format(input_df):
        if sorted(OrigMotl.motl_columns) == sorted(input_df.columns):
            return True
        else:
            return False

    def check_df_type(self, input_motl):
        if OrigMotl.check_df_correct_format(input_motl):
            self.df = input_motl.copy()
            self.df.reset_index(inplace=True, drop=True)
            self.df = self.df.fillna(0.0)
        else:
            self.convert_to_motl(input_motl)

    def convert_to_motl(self, input_df):
        raise ValueError("Provided motl does not have the correct format.")


def outcome(f):
    try:
        return ("ok", f())
    except Exception as exc:  # noqa: BLE001
        return ("raise", type(exc).__name__, str(exc))


def compare_helpers():
    rng = np.random.default_rng(7)
    n_cmp = 0
    frames = []
    for n in (0, 1, 2, 5, 30):
        for holes in ("none", "some", "all"):
            for perm in perms(rng):
                for index_kind in ("default", "shuffled", "duplicates", "strings"):
                    frames.append(make_table(rng, n, "edges" if n % 2 else "plain", holes, perm, index_kind))
    # frames of the wrong format
    good = make_table(rng, 3, "plain", "some", list(range(20)), "default")
    bad = [
        good.drop(columns=["class"]),
        good.assign(extra=1.0),
        good.rename(columns={"phi": "Phi"}),
        pd.concat([good, good[["x"]]], axis=1),  # duplicate column, 21 columns
        pd.concat([good.drop(columns=["y"]), good[["x"]]], axis=1),  # 20 columns, x twice
        pd.DataFrame(np.zeros((2, 20))),  # integer column labels
        pd.DataFrame(),
        good.T,
    ]
    for df in frames + bad:
        keep = df.copy(deep=True)
        a = outcome(lambda: OrigMotl.check_df_correct_format(df))
        b = outcome(lambda: Motl.check_df_correct_format(df))
        check(a == b and (a[0] != "ok" or type(a[1]) is type(b[1]) is bool), f"check_df_correct_format differs: {a} {b}")

        a = outcome(lambda: OrigMotl(df))
        b = outcome(lambda: Motl(df))
        check(a[0] == b[0], f"Motl.__init__ outcome differs: {a} {b}")
        if a[0] == "ok":
            check(a[1].df is df and b[1].df is df, "Motl.__init__: held object differs")
            check(set(vars(b[1])) == {"df"}, "Motl.__init__: attributes")
        else:
            check(a[1:] == b[1:], f"Motl.__init__ error differs: {a} {b}")

        oa, ob = OrigMotl(), EmMotl()
        a = outcome(lambda: oa.check_df_type(df))
        b = outcome(lambda: ob.check_df_type(df))
        check(a[0] == b[0], f"check_df_type outcome differs: {a} {b}")
        if a[0] == "ok":
            check(a[1] is None and b[1] is None, "check_df_type return value")
            check(frames_identical(oa.df, ob.df), "check_df_type: resulting tables differ")
            check(ob.df is not df, "check_df_type: table is not a private copy")
            if df.shape[0]:
                ob.df.iloc[0, 0] = 12345.0  # the private copy must be detached from the caller's table
                ob.df.loc[0, "class"] = -7.0
        else:
            check(a[1:] == b[1:], f"check_df_type error differs: {a} {b}")
        check(frames_identical(df, keep) if df.shape == keep.shape and df.size and
              all(str(t) == "float64" for t in df.dtypes) else df.equals(keep), "helper changed its input")
        n_cmp += 1
    check(outcome(lambda: Motl())[0] == "ok" and frames_identical(Motl().df, OrigMotl().df), "Motl() empty list")
    check(Motl().df.shape == (0, 20) and list(Motl().df.columns) == CANON, "Motl() empty list layout")
    return n_cmp


if __name__ == "__main__":
    warnings.simplefilter("ignore")
    with tempfile.TemporaryDirectory() as tmp:
        n_cases = check_property(tmp)
    n_cmp = compare_helpers()
    print(f"property cases: {n_cases}, helper comparisons: {n_cmp}, failures: {len(failures)}")
    if failures:
        print("FAIL")
        sys.exit(1)
    print("PASS")
