"""C19 -- chain tracing partitions particles into simple, distance-respecting chains.

Change b: None as the sentinel for min_distance / store_dist, same effective defaults (kind 2).

Run as:  cd /tmp/wt7/C19 && /venv/bin/python /tmp/seedsS/C19/b/demo.py

1. property check of cryocat.ribana.trace_chains against an independent computation (own distance computation from the
   input tables, own grouping) over random paired entry/exit lists and hand-made boundary inputs;
2. comparison of the functions of the working tree with the ORIGINAL function text (copy below, executed in its own
   namespace) on the same inputs -- frames must be identical (values, index, dtypes);
3. targeted comparison of the changed idiom on the boundary inputs it is notorious for.
Prints PASS and exits 0 when everything holds.
"""
import sys, os

sys.path.insert(0, os.getcwd())
import warnings

warnings.filterwarnings("ignore")
import inspect
import numpy as np
import pandas as pd
import sklearn.neighbors as sn
from cryocat import cryomotl, ribana

ORIG_TEXT = r'''
def get_nn_dist(kdt, query_point, dist_max, dist_min, active_points, test_value):
    id_max, dist = kdt.query_radius(query_point, dist_max, return_distance=True, sort_results=True)
    # id_max, dist = [a[0] for a in kdt.query_radius(query_point, dist_max, return_distance=True, sort_results=True)]
    id_max = id_max[0]
    dist = dist[0]
    if id_max.size == 0:
        return -1, []

    rp_idx = id_max[active_points[id_max] == test_value]
    rp_dist = dist[active_points[id_max] == test_value]

    if rp_idx.size == 0:
        return -1, []
    elif dist_min >= 0:  # the interval is open at its lower end also for dist_min == 0 (a site at distance 0 is not a neighbour)
        rp_idx = rp_idx[rp_dist > dist_min]
        rp_dist = rp_dist[rp_dist > dist_min]

    if rp_idx.size == 0:
        return -1, []
    else:
        return rp_idx[0], rp_dist[0]


def add_chain_suffix(
    chain_df,
    motl,
    traced_df,
    subtomo_id,
    current_dist,
    store_idx1="object_id",
    store_idx2="geom2",
    store_dist="geom4",
):
    particle_id = motl.df.loc[motl.df.index[subtomo_id], "subtomo_id"]

    temp_cl_id, order_id, previous_dist = traced_df.loc[
        traced_df["subtomo_id"] == particle_id, [store_idx1, store_idx2, store_dist]
    ].values[0]
    chain_max_order = np.max(traced_df.loc[traced_df[store_idx1] == temp_cl_id, [store_idx2]].values)

    if chain_max_order != order_id:  # the closest particle is not the last one
        if previous_dist <= current_dist:  # the original chain holds, do nothing
            return False
        else:  # the new chain is better, cut of the tail of the existing one
            current_class = chain_df[store_idx1].values[0]
            traced_df.loc[
                (traced_df[store_idx1] == temp_cl_id) & (traced_df[store_idx2] > order_id),
                store_idx1,
            ] = current_class
            # the tail keeps its order: the order numbers order_id + 1, order_id + 2, ... become 1, 2, ...
            traced_df.loc[(traced_df[store_idx1] == current_class), store_idx2] -= order_id
            chain_max_order = np.max(
                traced_df.loc[traced_df[store_idx1] == temp_cl_id, [store_idx2]].values
            )  # max changed in the meantime so has to be fetched again

    traced_df.loc[traced_df["subtomo_id"] == particle_id, store_dist] = (
        current_dist  # add distance to the last traced element from the chain (should be 0 before)
    )
    chain_df[store_idx1] = temp_cl_id
    chain_df[store_idx2] += chain_max_order

    return True  # chain was changed


def add_chain_prefix(
    chain_df,
    motl,
    traced_df,
    subtomo_id,
    current_dist,
    store_idx1="object_id",
    store_idx2="geom2",
    store_dist="geom4",
    class_max=None,
):
    # finding out class of the chain that should be appended to the current chain
    particle_id = motl.df.loc[motl.df.index[subtomo_id], "subtomo_id"]
    class_to_change = traced_df.loc[traced_df["subtomo_id"] == particle_id, store_idx1].values[0]

    order_id = traced_df.loc[traced_df["subtomo_id"] == particle_id, store_idx2].values[0]

    current_class = chain_df[store_idx1].values[0]
    cut_off_size = 0

    if order_id != 1:  # the closest particle is NOT the first one in the chain!
        # take the previous particle distance
        previous_dist = traced_df.loc[
            (traced_df[store_idx1] == class_to_change) & (traced_df[store_idx2] == order_id - 1),
            store_dist,
        ].values[0]

        if previous_dist <= current_dist:  # original particle closer -> do not append
            return -1
        else:  # the new particle is closer - change the class/object_id to the one from the current particle
            cut_off_size = traced_df.loc[
                (traced_df[store_idx1] == class_to_change) & (traced_df[store_idx2] < order_id)
            ].shape[0]
            if (
                class_max is None
            ):  # Only appending, the chain object_id value is not used and can be assing to the cut chain
                traced_df.loc[
                    (traced_df[store_idx1] == class_to_change) & (traced_df[store_idx2] < order_id),
                    store_idx1,
                ] = current_class
            else:  # Connectiong from both sides, the chain object_id was changed in the previoius append and cannot be used -> the input from current is used
                traced_df.loc[
                    (traced_df[store_idx1] == class_to_change) & (traced_df[store_idx2] < order_id),
                    store_idx1,
                ] = -1  # class_max[1]

    if class_max is None:
        chain_df[store_idx1] = class_to_change
        class_max = np.max(chain_df[store_idx2].values)
        traced_df.loc[traced_df[store_idx1] == class_to_change, [store_idx2]] += class_max - cut_off_size
    else:
        temp_cl_id = chain_df[store_idx1][0]
        traced_df.loc[traced_df[store_idx1] == class_to_change, [store_idx2]] += class_max[0] - cut_off_size
        traced_df.loc[traced_df[store_idx1] == class_to_change, [store_idx1]] = temp_cl_id
        if order_id != 1:
            traced_df.loc[traced_df[store_idx1] == -1, [store_idx1]] = class_max[1]  # class_to_change

    chain_df.loc[chain_df.index[-1], store_dist] = current_dist


def trace_chains(
    motl_entry,
    motl_exit,
    max_distance,
    min_distance=0,
    feature="tomo_id",
    output_motl=None,
    store_idx1="object_id",
    store_idx2="geom2",
    store_dist="geom4",
):
    motl_entry = cryomotl.Motl.load(motl_entry)
    motl_exit = cryomotl.Motl.load(motl_exit)

    features1 = np.unique(motl_entry.df.loc[:, feature])
    features2 = np.unique(motl_exit.df.loc[:, feature])

    if ~np.all(np.equal(features1, features2)):
        ValueError("Provided motls have different features sets!!!")

    traced_motl = cryomotl.Motl.create_empty_motl_df()

    for f in features1:
        # for f in np.array([2,274,405,423]):
        # for f in np.array([423]):
        # print(f)
        fm_entry = motl_entry.get_motl_subset(f, feature, reset_index=False)
        fm_exit = motl_exit.get_motl_subset(f, feature, reset_index=False)

        nfm_df = cryomotl.Motl.create_empty_motl_df()

        fm_size = fm_entry.df.shape[0]
        remain_entry = np.full((fm_size,), True)
        remain_exit = np.full((fm_size,), True)

        class_c = 1

        coord_entry = fm_entry.get_coordinates()
        coord_exit = fm_exit.get_coordinates()

        kdt_entry = sn.KDTree(coord_entry)
        kdt_exit = sn.KDTree(coord_exit)

        for i, current_point in enumerate(coord_exit):
            if ~remain_exit[i]:
                continue
            else:
                ch_m = cryomotl.Motl.create_empty_motl_df()  # create new chain motl df
                chain_id = 1  # assign chain id
                trace_chain = True
                p_idx = i
                used_idx = []
                # print(i)
                while trace_chain:
                    # take the particle from the exit list
                    # part_process = fm_exit.df.iloc[p_idx]

                    # add the same processed particle from entry list to the chain
                    ch_m = pd.concat([ch_m, fm_entry.df.iloc[[p_idx]]], ignore_index=True)

                    ch_m.loc[ch_m.index[-1], [store_idx2]] = chain_id
                    chain_id += 1

                    # remove currently processed point from both entry and exit
                    remain_entry[p_idx] = False
                    remain_exit[p_idx] = False
                    used_idx.append(p_idx)

                    # prepare coordinates
                    p_coord = coord_exit[p_idx, None, :]

                    if np.all(remain_entry == False):  # no remaining particles, end the chain
                        # np_idx = p_idx
                        np_idx = -1
                    else:
                        # search for the nearest active point
                        np_idx, np_dist = get_nn_dist(
                            kdt_entry,
                            p_coord,
                            max_distance,
                            min_distance,
                            remain_entry,
                            True,
                        )

                    if np_idx != -1:  # continue tracing
                        p_idx = np_idx
                        ch_m.loc[ch_m.index[-1], [store_dist]] = np_dist
                    else:  # end chain
                        ch_m.loc[:, store_idx1] = class_c
                        class_c += 1

                        if nfm_df.size != 0:  # check existing chains for connections
                            first_coord = (
                                ch_m.loc[ch_m.index[0], ["x", "y", "z"]].values
                                + ch_m.loc[ch_m.index[0], ["shift_x", "shift_y", "shift_z"]].values
                            )  # entry point
                            first_coord = first_coord.reshape(1, 3)
                            remain_entry[used_idx] = True
                            remain_exit[used_idx] = True
                            # check if this chain cannot be connected to already an existing one
                            # This can happen if the chain is started "in the middle"
                            nm_idx, nm_dist = get_nn_dist(
                                kdt_entry,
                                p_coord,
                                max_distance,
                                min_distance,
                                remain_entry,
                                False,
                            )
                            first_idx, first_dist = get_nn_dist(
                                kdt_exit,
                                first_coord,
                                max_distance,
                                min_distance,
                                remain_exit,
                                False,
                            )

                            remain_entry[used_idx] = False
                            remain_exit[used_idx] = False

                            # rather rare case where a single particle wants to connect to the same particle in a chain
                            if first_idx == nm_idx and first_idx != -1 and ch_m.shape[0] == 1:
                                if first_dist <= nm_dist:
                                    nm_idx = -1  # add only suffix
                                else:
                                    first_idx = -1  # add only prefix
                            elif first_idx != -1 and nm_idx != -1:
                                part1 = fm_exit.df.loc[fm_exit.df.index[first_idx], "subtomo_id"]
                                part2 = fm_entry.df.loc[fm_entry.df.index[nm_idx], "subtomo_id"]
                                cl1 = nfm_df.loc[nfm_df["subtomo_id"] == part1, store_idx1].values[0]
                                cl2 = nfm_df.loc[nfm_df["subtomo_id"] == part2, store_idx1].values[0]
                                if cl1 == cl2:
                                    if first_dist <= nm_dist:
                                        nm_idx = -1  # add only suffix
                                    else:
                                        first_idx = -1  # add only prefix

                            ch_changed = False  # default is no chain change

                            if first_idx != -1:  # appneding the chain after an existing one
                                ch_changed = add_chain_suffix(
                                    ch_m,
                                    fm_exit,
                                    nfm_df,
                                    first_idx,
                                    first_dist,
                                    store_idx1,
                                    store_idx2,
                                )

                            if nm_idx != -1:  # connecting the chain before an existing one

                                class_max = None

                                # they connect from both sides
                                if ch_changed:
                                    current_class = class_c - 1
                                    cl_max = np.max(ch_m[store_idx2].values)
                                    if cl_max > 1:
                                        if (nfm_df[store_idx1] == current_class).any():
                                            # the number went to a tail cut off by add_chain_suffix, a cut-off head needs its own
                                            current_class = class_c
                                            class_c += 1
                                        class_max = (cl_max, current_class)

                                add_chain_prefix(
                                    ch_m,
                                    fm_entry,
                                    nfm_df,
                                    nm_idx,
                                    nm_dist,
                                    store_idx1,
                                    store_idx2,
                                    class_max=class_max,
                                )

                        nfm_df = pd.concat([nfm_df, ch_m])
                        trace_chain = False

        traced_motl = pd.concat([traced_motl, nfm_df])

    traced_motl = cryomotl.Motl(motl_df=traced_motl)

    if output_motl is not None:
        traced_motl.write_to_emfile(output_motl)

    return traced_motl
'''

ORIG = {"np": np, "pd": pd, "sn": sn, "cryomotl": cryomotl}
exec(compile(ORIG_TEXT, "<original ribana 683-991>", "exec"), ORIG)

QUICK = "--quick" in sys.argv


# ----------------------------------------------------------------------------------------------------------------------
# inputs
# ----------------------------------------------------------------------------------------------------------------------
def frame(tomo, sub, xyz, shifts, index=None, junk=None):
    n = len(sub)
    df = cryomotl.Motl.create_empty_motl_df().reindex(range(n))
    df[:] = 0.0
    df["tomo_id"] = np.asarray(tomo, dtype=float)
    df["subtomo_id"] = np.asarray(sub, dtype=float)
    df[["x", "y", "z"]] = np.asarray(xyz, dtype=float).reshape(n, 3)
    df[["shift_x", "shift_y", "shift_z"]] = np.asarray(shifts, dtype=float).reshape(n, 3)
    if junk is not None:  # NaN holes / negative values in columns the tracing does not read
        df["score"] = junk[0]
        df["geom5"] = junk[1]
        df["class"] = junk[2]
    if index is not None:
        df.index = index
    return df


def make(rng, n, ntomo, spread, disp, offset=0.0, index_kind=0, junk=False):
    """paired entry / exit lists: same particles, exit sites displaced from the entry sites by random vectors"""
    tomo = np.sort(rng.integers(1, ntomo + 1, n)) * 7 - 3  # tomogram numbers need not be 1..k
    sub = np.arange(1, n + 1) + (0 if index_kind == 0 else 100)
    xyz = np.round(rng.uniform(0, spread, (n, 3))) + offset
    sh_e = rng.uniform(-0.5, 0.5, (n, 3))
    sh_x = sh_e + rng.normal(0, disp, (n, 3))
    index = None
    if index_kind == 1:
        index = 50 + 3 * np.arange(n)  # non-default, increasing
    elif index_kind == 2:
        index = rng.permutation(n) + 10  # non-default, unordered labels
    j = None
    if junk:
        a = rng.normal(0, 1, n)
        a[rng.random(n) < 0.3] = np.nan
        j = (a, -np.abs(rng.normal(0, 5, n)), rng.integers(0, 3, n).astype(float))
    e = cryomotl.Motl(motl_df=frame(tomo, sub, xyz, sh_e, index, j))
    x = cryomotl.Motl(motl_df=frame(tomo, sub, xyz, sh_x, index, j))
    return e, x


# ----------------------------------------------------------------------------------------------------------------------
# the property, computed independently
# ----------------------------------------------------------------------------------------------------------------------
def site(df):
    c = df[["x", "y", "z"]].to_numpy(float) + df[["shift_x", "shift_y", "shift_z"]].to_numpy(float)
    return {s: c[i] for i, s in enumerate(df["subtomo_id"].tolist())}


def check_property(e, x, out, maxd, mind, allow_zero=False):
    df = out.df
    got = sorted(df["subtomo_id"].tolist())
    assert got == sorted(e.df["subtomo_id"].tolist()), "every particle exactly once"
    ce, cx = site(e.df), site(x.df)
    tomo = dict(zip(e.df["subtomo_id"].tolist(), e.df["tomo_id"].tolist()))
    nchains = 0
    for (t, o), g in df.groupby(["tomo_id", "object_id"]):
        nchains += 1
        g = g.sort_values("geom2", kind="stable")
        k = len(g)
        assert g["geom2"].tolist() == [float(v) for v in range(1, k + 1)], ("order numbers 1..k", t, o, g["geom2"].tolist())
        ids = g["subtomo_id"].tolist()
        assert all(tomo[s] == t for s in ids), "chain spans tomograms"
        rec = g["geom4"].tolist()
        for a, b, r in zip(ids[:-1], ids[1:], rec[:-1]):
            d = float(np.sqrt(((cx[a] - ce[b]) ** 2).sum()))
            inside = (mind < d <= maxd * (1 + 1e-12)) or (allow_zero and mind == 0 and d == 0)
            assert inside, ("distance outside (min, max]", d, mind, maxd)
            assert abs(d - r) <= 1e-9 * max(1.0, d), ("recorded distance", d, r)
    return nchains


def same_frames(a, b, what):
    pd.testing.assert_frame_equal(a, b, check_exact=True, check_dtype=True, obj=what)
    assert list(a.index) == list(b.index), what + ": index"


def run_both(e, x, maxd, mind=None, **kw):
    e0, x0 = e.df.copy(), x.df.copy()
    if mind is None:
        new = ribana.trace_chains(e, x, maxd, **kw)
        old = ORIG["trace_chains"](e, x, maxd, **kw)
    else:
        new = ribana.trace_chains(e, x, maxd, mind, **kw)
        old = ORIG["trace_chains"](e, x, maxd, mind, **kw)
    same_frames(new.df, old.df, "trace_chains patched vs original")
    same_frames(e.df, e0, "entry list untouched")
    same_frames(x.df, x0, "exit list untouched")
    return new, old


# ----------------------------------------------------------------------------------------------------------------------
def random_cases():
    ncase = 0
    # seeds 53.. are arrangements found by search that reach the rare branches: joining behind a cut chain, joining
    # from both sides, cutting tails / heads of existing chains
    special = [53, 83, 141, 178, 357, 993, 1498, 1873, 1922, 2077, 2401, 2410, 2677, 2781, 2990]
    seeds = special + list(range(5000, 5000 + (12 if QUICK else 110)))
    for seed in seeds:
        rng = np.random.default_rng(seed)
        if seed < 5000:  # dense clusters (same recipe as the search)
            n = int(rng.integers(5, 61))
            nt = int(rng.integers(1, 3))
            sp = rng.choice([6, 10, 15])
            dp = rng.choice([2, 4, 6])
            e, x = make(rng, n, nt, sp, dp)
            maxd = float(rng.choice([2, 3, 4, 6]))
            mind = float(rng.choice([0, 0, 0.5, 1.5]))
        else:
            n = int(rng.integers(2, 61))
            nt = int(rng.integers(1, 4))
            e, x = make(
                rng,
                n,
                nt,
                rng.choice([6, 10, 20, 40]),
                rng.choice([1, 3, 6]),
                offset=float(rng.choice([0.0, -25.0])),
                index_kind=int(rng.integers(0, 3)),
                junk=bool(rng.integers(0, 2)),
            )
            maxd = float(rng.choice([0.25, 2, 4, 8, 15, 200]))
            mind = float(rng.choice([0, 0, 0.5, 2, 3.5]))
        if seed % 3 == 0 and mind == 0:
            new, old = run_both(e, x, maxd)  # min_distance left to its default
        else:
            new, old = run_both(e, x, maxd, mind)
        check_property(e, x, new, maxd, mind)
        check_property(e, x, old, maxd, mind)
        if seed % 10 == 0:  # repeated call on the same objects
            again, _ = run_both(e, x, maxd, mind)
            same_frames(again.df, new.df, "second call on the same objects")
        ncase += 1
    return ncase


def boundary_cases():
    ncase = 0
    z3 = lambda n: np.zeros((n, 3))
    # --- a line of particles, exit site 2 behind the entry site, next entry site exactly 3 further -------------
    for n in (1, 2, 3, 4, 7):
        for idx in (None, 20 + 2 * np.arange(n)):
            xyz = np.zeros((n, 3))
            xyz[:, 0] = 5.0 * np.arange(n)
            sx = z3(n)
            sx[:, 0] = 2.0
            tomo = np.full(n, 4)
            sub = np.arange(1, n + 1)
            e = cryomotl.Motl(motl_df=frame(tomo, sub, xyz, z3(n), idx))
            x = cryomotl.Motl(motl_df=frame(tomo, sub, xyz, sx, idx))
            # (max_distance, min_distance, expected number of chains): the radius is closed, the lower bound open
            table = [
                (3.0, 0, 1),
                (3.0, 0.0, 1),
                (np.nextafter(3.0, 0), 0, n),
                (3.0, 3.0, n),
                (3.0, np.nextafter(3.0, 0), 1),
                (3.5, 2.0, 1),
                (100.0, 0, 1),
                (100.0, 3.0, 1 if n > 2 else n),
                (0.5, 0, n),
            ]
            for maxd, mind, expect in table:
                new, old = run_both(e, x, maxd, mind)
                k = check_property(e, x, new, maxd, mind)
                if not (maxd == 100.0 and mind == 3.0):
                    assert k == expect, ("number of chains on the line", n, maxd, mind, k, expect)
                ncase += 1
            new, old = run_both(e, x, 3.0)  # default min_distance
            assert check_property(e, x, new, 3.0, 0) == 1
            ncase += 1
    # --- one particle per tomogram (single-row lists inside), two / three tomograms -----------------------------
    for nt in (2, 3):
        tomo = np.arange(1, nt + 1)
        sub = np.arange(1, nt + 1)
        xyz = np.ones((nt, 3))
        e = cryomotl.Motl(motl_df=frame(tomo, sub, xyz, z3(nt)))
        x = cryomotl.Motl(motl_df=frame(tomo, sub, xyz, z3(nt) + 0.5))
        for maxd, mind in ((50.0, 0), (50.0, 0.1), (0.1, 0)):
            new, old = run_both(e, x, maxd, mind)
            assert check_property(e, x, new, maxd, mind) == nt  # chains never span tomograms
            assert new.df["geom2"].tolist() == [1.0] * nt
            ncase += 1
    # --- a closed ring: the last exit site points at the first entry site (start "in the middle") ---------------
    for n in (3, 6, 11):
        ang = 2 * np.pi * np.arange(n) / n
        xyz = np.c_[10 * np.cos(ang), 10 * np.sin(ang), np.zeros(n)]
        nxt = np.roll(xyz, -1, axis=0)
        sx = 0.8 * (nxt - xyz)
        for start in (0, 1, n // 2):
            order = np.roll(np.arange(n), -start)
            e = cryomotl.Motl(motl_df=frame(np.ones(n), order + 1, xyz[order], z3(n)))
            x = cryomotl.Motl(motl_df=frame(np.ones(n), order + 1, xyz[order], sx[order]))
            step = float(np.linalg.norm(0.2 * (nxt - xyz)[0]))
            for maxd, mind in ((step * 1.01, 0), (step * 1.01, step * 0.99), (step * 0.99, 0), (30.0, 0)):
                new, old = run_both(e, x, maxd, mind)
                check_property(e, x, new, maxd, mind)
                ncase += 1
    # --- reversed storage order: every new chain has to be put in front of an existing one ----------------------
    for n in (2, 5, 9):
        xyz = np.zeros((n, 3))
        xyz[:, 1] = -4.0 * np.arange(n)  # negative coordinates, first particle at the origin
        sx = z3(n)
        sx[:, 1] = 3.0  # exit of particle i is 1 in front of the entry of particle i-1
        e = cryomotl.Motl(motl_df=frame(np.full(n, 2), np.arange(1, n + 1), xyz, z3(n)))
        x = cryomotl.Motl(motl_df=frame(np.full(n, 2), np.arange(1, n + 1), xyz, sx))
        for maxd, mind in ((1.0, 0), (1.0, 0.5), (1.0, 1.0), (0.99, 0)):
            new, old = run_both(e, x, maxd, mind)
            k = check_property(e, x, new, maxd, mind)
            assert k == (1 if (maxd == 1.0 and mind < 1.0) else n), (n, maxd, mind, k)
            ncase += 1
    # --- coincident sites (distance exactly 0; compared with the original only, 0 is not inside (0, max]) -------
    n = 4
    xyz = np.zeros((n, 3))
    xyz[:, 2] = 2.0 * np.arange(n)
    sx = z3(n)
    sx[:, 2] = 2.0
    e = cryomotl.Motl(motl_df=frame(np.ones(n), np.arange(1, n + 1), xyz, z3(n)))
    x = cryomotl.Motl(motl_df=frame(np.ones(n), np.arange(1, n + 1), xyz, sx))
    for maxd, mind in ((1.0, 0), (1.0, 0.0), (1.0, 1e-300), (2.0, 0), (2.0, 1e-12)):
        new, old = run_both(e, x, maxd, mind)
        check_property(e, x, new, maxd, mind, allow_zero=True)
        ncase += 1
    return ncase


def nn_cases():
    """get_nn_dist of the working tree against the original text: same index, same distance, same types"""
    ncase = 0
    rng = np.random.default_rng(77)
    for rep in range(60 if QUICK else 400):
        n = int(rng.integers(1, 40))
        pts = np.round(rng.uniform(0, 6, (n, 3)) * 2) / 2  # half-integer grid: many exactly equal distances / thresholds
        kdt = sn.KDTree(pts)
        q = np.round(rng.uniform(0, 6, (1, 3)) * 2) / 2
        d_all = np.sqrt(((pts - q) ** 2).sum(axis=1))
        kind = rep % 6
        if kind == 0:
            active = np.full(n, True)
        elif kind == 1:
            active = np.full(n, False)
        else:
            active = rng.random(n) < 0.5
        dmax = float(rng.choice([0.0, 0.5, 1.0, 2.5, float(np.sort(d_all)[min(n - 1, 2)]), 20.0]))
        dmin = rng.choice([0, 0.0, 0.5, float(d_all.min()), float(np.sort(d_all)[n // 2]), 50.0])
        if rep % 2:
            dmin = float(dmin)
        else:
            dmin = int(dmin) if float(dmin).is_integer() else float(dmin)
        # radii on the half-integer grid are compared exactly (the tree compares squares, which are exact there);
        # a radius taken from the data may be irrational: points within 1e-9 of it are left to the comparison with
        # the original
        if float(dmax * 2).is_integer():
            in_sure = in_maybe = d_all <= dmax
        else:
            in_sure, in_maybe = d_all < dmax - 1e-9, d_all < dmax + 1e-9
        low = (d_all > dmin) if dmin >= 0 else np.full(n, True)
        for tv in (True, False):
            sure, maybe = (active == tv) & in_sure & low, (active == tv) & in_maybe & low
            a0 = active.copy()
            r_new = ribana.get_nn_dist(kdt, q, dmax, dmin, active, tv)
            r_old = ORIG["get_nn_dist"](kdt, q, dmax, dmin, active, tv)
            assert (active == a0).all()
            assert type(r_new) is type(r_old) and len(r_new) == len(r_old) == 2
            assert type(r_new[0]) is type(r_old[0]) and type(r_new[1]) is type(r_old[1]), (r_new, r_old)
            assert r_new[0] == r_old[0], (r_new, r_old)
            if r_old[0] == -1:
                assert r_new[1] == [] and r_old[1] == []
                assert not sure.any()
            else:
                assert r_new[1] == r_old[1]
                # independent: the nearest point with the wanted flag, inside (dmin, dmax] (dmin == 0: [0, dmax])
                assert maybe[r_new[0]] and abs(d_all[r_new[0]] - r_new[1]) < 1e-12
                assert (not sure.any()) or r_new[1] <= d_all[sure].min()
            ncase += 1
    # point number 0 is a legitimate answer (an index that is "false" as a number)
    pts = np.array([[0.25, 0.0, 0.0], [5.0, 0.0, 0.0]])  # (a point AT the query point is at distance 0, outside (0, max])
    kdt = sn.KDTree(pts)
    for fn in (ribana.get_nn_dist, ORIG["get_nn_dist"]):
        i, d = fn(kdt, np.zeros((1, 3)), 1.0, 0, np.array([True, True]), True)
        assert i == 0 and d == 0.25 and not isinstance(d, list)
        i, d = fn(kdt, np.zeros((1, 3)), 1.0, 0, np.array([False, True]), True)
        assert i == -1 and d == []
        i, d = fn(kdt, np.zeros((1, 3)), 5.0, 0, np.array([False, True]), True)
        assert i == 1 and d == 5.0
        i, d = fn(kdt, np.zeros((1, 3)), 5.0, 5.0, np.array([False, True]), True)
        assert i == -1 and d == []
        ncase += 4
    return ncase


def extra_cases():
    """None sentinels resolve to the defaults written in the original signatures"""
    ncase = nn_cases()
    expected = {
        "trace_chains": {"min_distance": 0, "store_dist": "geom4"},
        "add_chain_suffix": {"store_dist": "geom4"},
        "add_chain_prefix": {"store_dist": "geom4", "class_max": None},
    }
    for name, want in expected.items():
        s_new = inspect.signature(getattr(ribana, name))
        s_old = inspect.signature(ORIG[name])
        assert list(s_new.parameters) == list(s_old.parameters), name  # same names, same positions
        for p, old in s_old.parameters.items():
            new = s_new.parameters[p]
            assert new.kind == old.kind
            if new.default is None and old.default is not None:
                assert p in want and old.default == want[p], (name, p)  # sentinel: effective value checked by the runs
            else:
                assert new.default is old.default or new.default == old.default, (name, p)
        ncase += 1
    # omitted / explicit zero (int, float, numpy, False-like) / keyword / positional all give the original result
    rng = np.random.default_rng(123)
    for rep in range(3 if QUICK else 12):
        e, x = make(rng, int(rng.integers(2, 40)), int(rng.integers(1, 3)), 8, 3)
        maxd = float(rng.choice([2, 4, 6]))
        ref = ORIG["trace_chains"](e, x, maxd)
        check_property(e, x, ref, maxd, 0)
        outs = [
            ribana.trace_chains(e, x, maxd),
            ribana.trace_chains(e, x, maxd, 0),
            ribana.trace_chains(e, x, maxd, 0.0),
            ribana.trace_chains(e, x, maxd, min_distance=np.float64(0)),
            ribana.trace_chains(e, x, max_distance=maxd, min_distance=np.int64(0)),
            ribana.trace_chains(e, x, maxd, 0, "tomo_id", None, "object_id", "geom2", "geom4"),
            ribana.trace_chains(e, x, maxd, store_dist="geom4"),
        ]
        for o in outs:
            same_frames(o.df, ref.df, "default spelled differently")
        # a positive lower bound is not mistaken for "not given"
        for mind in (1e-9, 0.5, 2.0):
            new, old = run_both(e, x, maxd, mind)
            check_property(e, x, new, maxd, mind)
        ncase += 1
    # the helpers, called directly without / with the distance column
    for rep in range(2 if QUICK else 8):
        e, x = make(rng, int(rng.integers(6, 40)), 1, 8, 3)
        maxd = 4.0
        traced = ORIG["trace_chains"](e, x, maxd).df
        objs = sorted(traced["object_id"].unique())
        if len(objs) < 2:
            continue
        last = traced.loc[traced["object_id"] == objs[0]].sort_values("geom2").iloc[-1]
        first = traced.loc[traced["object_id"] == objs[0]].sort_values("geom2").iloc[0]
        pos_last = int(np.flatnonzero(x.df["subtomo_id"].values == last["subtomo_id"])[0])
        pos_first = int(np.flatnonzero(e.df["subtomo_id"].values == first["subtomo_id"])[0])
        res = []
        variants = ((ribana.__dict__, ()), (ORIG, ()), (ribana.__dict__, ("object_id", "geom2", "geom4")), (ribana.__dict__, ("object_id", "geom2")))
        for mod, args in variants:
            t1 = traced.copy()
            c1 = traced.loc[traced["object_id"] == objs[1]].copy().reset_index(drop=True)
            r1 = mod["add_chain_suffix"](c1, x, t1, pos_last, 1.25, *args)
            t2 = traced.copy()
            c2 = traced.loc[traced["object_id"] == objs[1]].copy().reset_index(drop=True)
            r2 = mod["add_chain_prefix"](c2, e, t2, pos_first, 2.5, *args)
            res.append((r1, t1, c1, r2, t2, c2))
        for r in res[1:]:
            assert r[0] == res[0][0] and r[3] == res[0][3]
            for k in (1, 2, 4, 5):
                same_frames(r[k], res[0][k], "helper called directly")
        assert res[0][0] is True and res[0][1].loc[res[0][1]["subtomo_id"] == last["subtomo_id"], "geom4"].iloc[0] == 1.25
        assert res[0][5]["geom4"].iloc[-1] == 2.5
        ncase += 1
    return ncase


def main():
    n1 = boundary_cases()
    n2 = extra_cases()
    n3 = random_cases()
    print("boundary cases: %d, idiom cases: %d, random / searched cases: %d" % (n1, n2, n3))
    print("PASS")


if __name__ == "__main__":
    main()
