import os, sys

sys.path.insert(0, os.getcwd())
import itertools
import warnings
import numpy as np
import pandas as pd
from scipy.ndimage import map_coordinates
from scipy.spatial.transform import Rotation as R

warnings.filterwarnings("ignore")
from cryocat import cryomap
from cryocat.cryomotl import Motl

# ---------------------------------------------------------------------------------------------------------------------
# Property C14: map rotation, placement, windowing and symmetrisation share one active convention.
# Independent model: density at offset v from the centre floor(N/2) goes to offset R v, i.e.
#     out[c + w] = in[c + R^T w]   (cubic spline, zero outside), computed here with map_coordinates.
# ---------------------------------------------------------------------------------------------------------------------
FAIL = []


def check(cond, msg):
    if not cond:
        FAIL.append(msg)
        print("FAIL:", msg)


def model_rotate(vol, rot):
    """active rotation of a map about floor(N/2), independent of cryomap.rotate (map_coordinates, not affine_transform)"""
    vol = np.asarray(vol, dtype=float)
    c = np.asarray(vol.shape) // 2
    idx = np.indices(vol.shape).reshape(3, -1).astype(float)
    w = idx - c[:, None]
    src = rot.as_matrix().T @ w + c[:, None]
    return map_coordinates(vol, src, order=3, mode="constant", cval=0.0).reshape(vol.shape)


def blob(shape, rng, n=4, smin=1.6, smax=2.6, margin=0.28):
    """smooth band limited density well inside the box"""
    g = np.indices(shape).astype(float)
    c = np.asarray(shape) // 2
    out = np.zeros(shape)
    for _ in range(n):
        p = c + rng.uniform(-1, 1, 3) * np.asarray(shape) * margin * 0.5
        s = rng.uniform(smin, smax)
        out += rng.uniform(0.5, 1.5) * np.exp(-((g[0] - p[0]) ** 2 + (g[1] - p[1]) ** 2 + (g[2] - p[2]) ** 2) / (2 * s * s))
    return out


def cube_rotations():
    mats = []
    for perm in itertools.permutations(range(3)):
        for signs in itertools.product([1, -1], repeat=3):
            m = np.zeros((3, 3))
            for i, (p, s) in enumerate(zip(perm, signs)):
                m[i, p] = s
            if np.isclose(np.linalg.det(m), 1.0):
                mats.append(m)
    assert len(mats) == 24
    return mats


def make_motl(n, rng, box, vol_shape, colors="object_id", integer_pos=False):
    df = Motl.create_empty_motl_df()
    data = {c: np.zeros(n) for c in Motl.motl_columns}
    vs = np.asarray(vol_shape)
    pos = rng.uniform(-0.3 * box, vs + 0.3 * box, size=(n, 3))  # some partly / fully outside
    if integer_pos:
        pos = np.round(pos)
    data["x"], data["y"], data["z"] = np.floor(pos[:, 0]), np.floor(pos[:, 1]), np.floor(pos[:, 2])
    sh = pos - np.floor(pos)
    data["shift_x"], data["shift_y"], data["shift_z"] = sh[:, 0], sh[:, 1], sh[:, 2]
    data["phi"] = rng.uniform(-180, 180, n)
    data["theta"] = rng.uniform(0, 180, n)
    data["psi"] = rng.uniform(-180, 180, n)
    data["tomo_id"] = np.ones(n)
    data["object_id"] = rng.integers(1, 6, n).astype(float)
    data["class"] = rng.integers(1, 4, n).astype(float)
    data["subtomo_id"] = np.arange(1, n + 1, dtype=float)
    data["score"] = rng.uniform(0.1, 1.0, n)
    df = pd.DataFrame(data, columns=Motl.motl_columns)
    return Motl(df)


def model_place(templates, motl, container, feature):
    """independent stamping: returns (expected, undecided mask) -- voxels whose rotated template value is within 1e-6
    of the threshold 0.1 are excluded (two spline implementations may round differently there)"""
    out = np.array(container, dtype=float)
    undecided = np.zeros(out.shape, dtype=bool)
    df = motl.df
    for k in range(len(df)):
        row = df.iloc[k]
        tpl = templates[k] if isinstance(templates, list) else templates
        rot = R.from_euler("zxz", [row["phi"], row["theta"], row["psi"]], degrees=True)
        rmap = model_rotate(tpl, rot)
        on = rmap > 0.1
        amb = np.abs(rmap - 0.1) < 1e-6
        centre0 = np.array([row["x"] + row["shift_x"], row["y"] + row["shift_y"], row["z"] + row["shift_z"]]) - 1.0
        start = np.floor(centre0 - np.asarray(tpl.shape) / 2).astype(int)
        for t in np.argwhere(on | amb):
            g = start + t
            if np.all(g >= 0) and np.all(g < np.asarray(out.shape)):
                g = tuple(g)
                if amb[tuple(t)]:
                    undecided[g] = True
                else:
                    out[g] = row[feature]
                    # a later decided stamp overrides an earlier undecided one only for this particle order;
                    # keep the voxel undecided (conservative)
    return out, undecided


def model_extract(volume, coord, shape):
    shape = np.asarray(shape)
    out = np.full(tuple(shape), volume.mean())
    start = np.floor(np.asarray(coord, dtype=float) - shape / 2).astype(int)
    for j in np.ndindex(*shape):
        g = start + np.asarray(j)
        if np.all(g >= 0) and np.all(g < np.asarray(volume.shape)):
            out[j] = volume[tuple(g)]
    return out


# ------------------------------------------- original function texts -------------------------------------------------
ORIG_SRC = '''
def place_object(input_object, motl, volume_shape=None, volume=None, feature_to_color="object_id"):
    if not isinstance(input_object, list):
        input_object = read(input_object)

    if volume is not None:
        object_container = read(volume)
    elif volume_shape is not None:
        object_container = np.zeros(volume_shape)

    rotations = motl.get_rotations()
    coordinates = motl.get_coordinates() - 1.0
    colors = motl.df[feature_to_color].to_numpy()

    for i, coord in enumerate(coordinates):

        if isinstance(input_object, list):
            object_map = rotate(input_object[i], rotation=rotations[i], transpose_rotation=True)
        else:
            object_map = rotate(input_object, rotation=rotations[i], transpose_rotation=True)

        object_map = np.where(object_map > 0.1, 1.0, 0.0)

        ls, le, os, oe = get_start_end_indices(coord, object_container.shape, object_map.shape)

        object_shape = object_map[os[0] : oe[0], os[1] : oe[1], os[2] : oe[2]]
        object_container[ls[0] : le[0], ls[1] : le[1], ls[2] : le[2]] = np.where(
            object_shape == 1.0,
            colors[i],
            object_container[ls[0] : le[0], ls[1] : le[1], ls[2] : le[2]],
        )

    return object_container


def symmetrize_volume(vol, symmetry):
    if isinstance(symmetry, str):
        nfold = int(re.findall(r"\\d+", symmetry)[-1])
    elif isinstance(symmetry, (int, float)):
        nfold = symmetry
    else:
        raise ValueError("The symmetry has to be specified as a string (starting with C) or as a number (only for C)!")

    inplane_step = 360 / nfold
    rotated_sum = np.zeros(vol.shape)

    for inplane in range(1, nfold + 1):
        rotated_volume = rotate(vol, rotation_angles=[0, 0, (inplane * inplane_step) % 360])
        rotated_sum = np.add(rotated_sum, rotated_volume)
    sym_vol = np.divide(rotated_sum, nfold)

    return sym_vol
'''
_ns = dict(vars(cryomap))  # the originals call the module's rotate / read / get_start_end_indices
exec(ORIG_SRC, _ns)
orig_place_object = _ns["place_object"]
orig_symmetrize_volume = _ns["symmetrize_volume"]


def same(a, b):
    return (
        isinstance(a, np.ndarray)
        and isinstance(b, np.ndarray)
        and a.dtype == b.dtype
        and a.shape == b.shape
        and a.tobytes() == b.tobytes()
    )


def outcome(f, *a, **k):
    try:
        return ("ok", f(*a, **k))
    except Exception as e:  # noqa
        return ("err", type(e).__name__, str(e))


def same_outcome(o1, o2):
    if o1[0] != o2[0]:
        return False
    if o1[0] == "err":
        return o1[1:] == o2[1:]
    return same(o1[1], o2[1])


rng = np.random.default_rng(1414)
# comparisons with the independent spline model leave out the face voxels and the voxels whose source can be a face voxel
# (for right angles in even boxes index 1 reads index N-1): there the source may fall outside the interpolation domain
# by rounding, which the quantifier excludes
INNER = (slice(2, -2),) * 3

# ======================================= 1. rotation: 24 cube rotations, exhaustive ==================================
for shape in [(7, 7, 7), (8, 8, 8), (6, 7, 9), (5, 8, 6)]:
    vol = rng.normal(size=shape)
    vol0 = vol.copy()
    c = np.asarray(shape) // 2
    hi = np.asarray(shape)
    for m in cube_rotations():
        rot = R.from_matrix(m)
        ang = rot.as_euler("zxz", degrees=True)
        out_a = cryomap.rotate(vol, rotation_angles=ang)
        out_r = cryomap.rotate(vol, rotation=rot, transpose_rotation=True)
        nchecked = 0
        bad = 0
        mi = np.rint(m).astype(int)
        for p in np.ndindex(*shape):
            p = np.asarray(p)
            q = c + mi @ (p - c)
            if np.all(p >= 1) and np.all(p <= hi - 2) and np.all(q >= 1) and np.all(q <= hi - 2):
                nchecked += 1
                if abs(out_a[tuple(q)] - vol[tuple(p)]) > 1e-8 or abs(out_r[tuple(q)] - vol[tuple(p)]) > 1e-8:
                    bad += 1
        check(nchecked > 0 and bad == 0, f"cube rotation permutes interior voxels {shape} {mi.tolist()} bad={bad}")
    check(np.array_equal(vol, vol0), "rotate leaves its input untouched")

# ======================================= 2. rotation: random, smooth blobs ============================================
for shape in [(24, 24, 24), (25, 25, 25), (22, 26, 24)]:
    for _ in range(4):
        vol = blob(shape, rng)
        ang = [rng.uniform(-180, 180), rng.uniform(0, 180), rng.uniform(-180, 180)]
        rot = R.from_euler("zxz", ang, degrees=True)
        out = cryomap.rotate(vol, rotation_angles=ang)
        ref = model_rotate(vol, rot)
        check(np.allclose(out[INNER], ref[INNER], atol=1e-9), f"rotate == active model {shape}")
        # same convention as particle orientation: a reference offset v is carried to R v
        v = np.asarray(np.unravel_index(np.argmax(vol), shape)) - np.asarray(shape) // 2
        w = np.asarray(np.unravel_index(np.argmax(out), shape)) - np.asarray(shape) // 2
        check(np.linalg.norm(rot.apply(v) - w) < 1.8, f"peak offset v -> R v {shape}")
        back = cryomap.rotate(out, rotation=rot.inv(), transpose_rotation=True)
        check(np.max(np.abs(back - vol)) < 0.03 * vol.max(), f"inverse restores smooth map {shape}")

# ======================================= 3. extract_subvolume ========================================================
for vshape in [(12, 14, 10), (9, 9, 9)]:
    volume = rng.normal(size=vshape) + 3.0
    v0 = volume.copy()
    for sshape in [(4, 4, 4), (6, 4, 8), (2, 6, 4)]:
        coords = [np.asarray(vshape) / 2.0, np.array([0.0, 0.0, 0.0]), np.array([-20.0, 3.0, 3.0]),
                  np.asarray(vshape, dtype=float), np.asarray(vshape) + 30.0]
        coords += [rng.uniform(-6, np.asarray(vshape) + 6) for _ in range(12)]
        coords += [np.round(rng.uniform(-6, np.asarray(vshape) + 6)) for _ in range(6)]
        for cd in coords:
            sub = cryomap.extract_subvolume(volume, cd, sshape)
            check(np.array_equal(sub, model_extract(volume, cd, sshape)), f"extract window {vshape} {sshape} {cd}")
    check(np.array_equal(volume, v0), "extract leaves volume untouched")

# ======================================= 4. place_object =============================================================
n_place = 0
for trial in range(14):
    box = int(rng.choice([8, 10, 12]))
    vol_shape = tuple(int(x) for x in rng.integers(20, 34, 3))
    n = [1, 2, 20, 7, 3, 12, 5, 1, 9, 4, 6, 15, 2, 8][trial]
    motl = make_motl(n, rng, box, vol_shape, integer_pos=(trial % 3 == 0))
    use_list = trial % 2 == 1
    if use_list:
        templates = [blob((box,) * 3, rng, n=3, smin=1.0, smax=1.8) for _ in range(n)]
    else:
        templates = blob((box,) * 3, rng, n=3, smin=1.0, smax=1.8)
    feature = ["object_id", "class", "subtomo_id"][trial % 3]
    with_volume = trial % 4 == 2
    container = rng.normal(size=vol_shape) if with_volume else np.zeros(vol_shape)
    kw = dict(volume=container) if with_volume else dict(volume_shape=vol_shape)

    df0 = motl.df.copy(deep=True)
    t0 = [t.copy() for t in templates] if use_list else templates.copy()
    c0 = container.copy()

    got = cryomap.place_object(templates, motl, feature_to_color=feature, **kw)
    exp, und = model_place(templates, motl, container, feature)
    # voxels stamped later than an undecided stamp stay undecided only if the values differ
    diff = (got != exp) & ~und
    check(not diff.any(), f"place_object == independent stamping, trial {trial} ({diff.sum()} voxels differ)")
    check(und.sum() < 5, f"few undecided voxels trial {trial}")
    n_place += int((got != container).sum())

    # repeated call on the same objects, original text, caller's inputs
    got2 = cryomap.place_object(templates, motl, feature_to_color=feature, **kw)
    ref = orig_place_object(templates, motl, feature_to_color=feature, **kw)
    check(same(got, got2), f"place_object repeatable trial {trial}")
    check(same(got, ref), f"place_object == original text trial {trial}")
    check(motl.df.equals(df0) and list(motl.df.columns) == list(df0.columns), f"motl untouched trial {trial}")
    check(np.array_equal(container, c0), f"container untouched trial {trial}")
    if use_list:
        check(all(np.array_equal(a, b) for a, b in zip(templates, t0)) and len(templates) == n, "templates untouched")
    else:
        check(np.array_equal(templates, t0), "template untouched")
check(n_place > 500, "place_object stamped something")

# corner cases of place_object: empty list, list longer / shorter than the list, neither volume nor shape, bad feature
tpl = blob((8, 8, 8), rng, n=2, smin=1.0, smax=1.5)
empty = Motl(Motl.create_empty_motl_df())
m3 = make_motl(3, rng, 8, (20, 20, 20))
cases = [
    ((tpl, empty), dict(volume_shape=(10, 10, 10))),
    (([], empty), dict(volume_shape=(10, 10, 10))),
    (([tpl] * 5, m3), dict(volume_shape=(20, 20, 20))),
    (([tpl] * 2, m3), dict(volume_shape=(20, 20, 20))),
    ((tpl, m3), dict()),
    ((tpl, m3), dict(volume_shape=(20, 20, 20), feature_to_color="nope")),
    ((tpl, m3), dict(volume_shape=(20, 20, 20), volume=np.ones((16, 18, 20)))),
    ((tpl.astype(np.float32), m3), dict(volume=np.zeros((16, 18, 20), dtype=np.float32))),
    ((tpl, m3), dict(volume=np.zeros((16, 18, 20), dtype=np.int16), feature_to_color="class")),
    (((tpl * 10).astype(int), m3), dict(volume_shape=[20, 20, 20])),
    ((3.5, m3), dict(volume_shape=(20, 20, 20))),
]
for k, (a, kw) in enumerate(cases):
    check(same_outcome(outcome(cryomap.place_object, *a, **kw), outcome(orig_place_object, *a, **kw)),
          f"place_object corner case {k} same as original text")

# ======================================= 5. symmetrize_volume ========================================================
for n in range(2, 13):
    for shape in [(24, 24, 24), (25, 25, 21)]:
        vol = blob(shape, rng, n=3, margin=0.22)
        v0 = vol.copy()
        sym_arg = [n, f"C{n}", f"c{n}"][n % 3]
        sym = cryomap.symmetrize_volume(vol, sym_arg)
        ref = np.zeros(shape)
        for k in range(1, n + 1):
            ref += model_rotate(vol, R.from_euler("zxz", [0, 0, k * 360.0 / n], degrees=True))
        ref /= n
        # face voxels can fall outside the interpolation domain by rounding (excluded by the quantifier)
        check(np.allclose(sym[INNER], ref[INNER], atol=1e-9), f"C{n} == mean of n rotated copies {shape}")
        rot1 = cryomap.rotate(sym, rotation_angles=[0, 0, 360.0 / n])
        check(np.max(np.abs(rot1 - sym)) < 0.02 * vol.max(), f"C{n} invariant under 360/n {shape}")
        check(abs(sym.sum() - vol.sum()) < 2e-3 * vol.sum(), f"C{n} keeps total density {shape}")
        again = cryomap.symmetrize_volume(vol, sym_arg)
        check(same(sym, again), f"C{n} repeatable")
        check(same(sym, orig_symmetrize_volume(vol, sym_arg)), f"C{n} == original text")
        check(np.array_equal(vol, v0), "symmetrize leaves volume untouched")

vol = blob((12, 12, 12), rng, n=2)
for k, sym_arg in enumerate([1, "C1", True, 3.0, 2.5, 0, -2, "C", None, "C0", "D2", np.int64(3), "C3C4"]):
    for v in [vol, vol.astype(np.float32), (vol * 100).astype(np.int32)]:
        check(same_outcome(outcome(cryomap.symmetrize_volume, v, sym_arg), outcome(orig_symmetrize_volume, v, sym_arg)),
              f"symmetrize corner case {k} same as original text")

# loop state of symmetrize_volume: one volume symmetrised with a sequence of different n, interleaved and repeated; each
# result must equal the original text bit for bit and must not depend on the calls before it (no state is carried over)
vol = blob((16, 18, 14), rng, n=3)
v0 = vol.copy()
first = {}
for n in [3, 2, 12, 1, 3, 7, 2, -1, 3, 12]:
    o_new = outcome(cryomap.symmetrize_volume, vol, n)
    o_old = outcome(orig_symmetrize_volume, vol, n)
    check(same_outcome(o_new, o_old), f"sequence: n={n} same as original text")
    if n in first:
        check(same_outcome(o_new, first[n]), f"sequence: n={n} same as the first call with that n")
    first.setdefault(n, (o_new[0], o_new[1].copy()) if o_new[0] == "ok" else o_new)
    if o_new[0] == "ok":
        o_new[1][...] = -7.0  # the caller may overwrite a result; later calls must not see that
check(np.array_equal(vol, v0), "sequence leaves volume untouched")
for odd_vol in [np.zeros((0, 4, 4)), np.ones((1, 1, 1)), np.ones((5, 5)), np.float64(2.0), [[1.0]], "nofile.mrc",
                np.asfortranarray(blob((9, 8, 7), rng)), blob((10, 10, 10), rng)[::2, 1:, ::-1]]:
    for n in [2, 4, "C3"]:
        check(same_outcome(outcome(cryomap.symmetrize_volume, odd_vol, n), outcome(orig_symmetrize_volume, odd_vol, n)),
              f"symmetrize unusual volume {type(odd_vol).__name__} {getattr(odd_vol, 'shape', None)} n={n}")

if FAIL:
    print(f"{len(FAIL)} check(s) failed")
    sys.exit(1)
print("PASS")
